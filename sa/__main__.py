"""./check <property-id> [--tier quick|thorough] [--replay file]

exit 0: all armed rule instances held (known findings printed as KNOWN-FINDING)
exit 1: VIOLATION lines printed
exit 2: ANALYSIS-ERROR (checker blind) -- never a pass
"""
import argparse
import importlib
import json
import os
import sys
import time
import traceback

from .core.index import AnalysisError, Program
from .core import report


def run_property(prop, tier, replay=None, src=None):
    t0 = time.time()
    program = Program(src) if src else Program()
    ctx = report.Ctx(prop, program, tier)
    mod = importlib.import_module(f"sa.rules.{prop.lower()}")
    only = None
    if replay:
        with open(replay) as fh:
            only = json.load(fh)
    mod.run(ctx)
    if tier == "thorough" and hasattr(mod, "run_thorough"):
        mod.run_thorough(ctx)
    if tier == "thorough" and src is None and replay is None:
        # the evaluator the cell rules rely on must agree with CPython on its own snippet table (tests the analyser, not the repository)
        from .selftest import engine_tiny
        n_eng, bad_eng = engine_tiny.run()
        print(f"[{prop}] engine self-test: cell evaluator agrees with CPython on {n_eng - len(bad_eng)}/{n_eng} snippet cases")
        if bad_eng:
            raise AnalysisError(f"cell evaluator disagrees with CPython: {bad_eng[:2]}")
        from . import selftest
        st = selftest.run(prop, program.src)
        if st is not None:
            st["engine_selftest"] = {"snippet_cases": n_eng, "disagreements": len(bad_eng)}
        ctx.selftest = st
        if st is not None:
            for r in st["failed"]:
                print(f"SELFTEST-WARNING property={prop} {r['kind']} '{r['name']}': {r['status']} {r.get('why', '')[-200:]}")
            print(f"[{prop}] self-test: {st['detected']}/{st['mutants']} seeded mutants detected, "
                  f"{st['silent']}/{st['clean_variants']} behaviour-preserving variants silent, {len(st['skipped'])} skipped")
            if st["failed"] and os.environ.get("VERIF_SELFTEST_STRICT"):
                raise AnalysisError(f"self-test failed: {[r['name'] for r in st['failed']]}")
    if only is not None:
        key = f"{only['rule']}::{only['construct']}"
        ctx.findings = [f for f in ctx.findings if f.key == key]
    return report.finish(ctx, getattr(mod, "META", {}), t0, replay_only=only)


def main(argv=None):
    ap = argparse.ArgumentParser(prog="check")
    ap.add_argument("prop")
    ap.add_argument("--tier", default=os.environ.get("VERIF_TIER", "quick"), choices=["quick", "thorough"])
    ap.add_argument("--replay")
    ap.add_argument("--src", help="alternative source root (a scratch copy's src/ directory); default /repo/src")
    a = ap.parse_args(argv)
    if a.src:
        os.environ["VERIF_NO_EVIDENCE"] = "1"  # scratch trees never overwrite the evidence of /repo
    try:
        rc = run_property(a.prop.upper(), a.tier, a.replay, a.src)
    except AnalysisError as e:
        print(f"ANALYSIS-ERROR property={a.prop.upper()} {e}")
        return 2
    except Exception:
        traceback.print_exc()
        print(f"ANALYSIS-ERROR property={a.prop.upper()} internal error in the checker (traceback above)")
        return 2
    return rc


if __name__ == "__main__":
    sys.exit(main())
