"""Abstract interpreter over type atoms for the "validator subset" of Python used by wamp/message.py.

A value is a set of atoms (None, True, False, four integer ranges, float, empty/non-empty str/bytes/list/dict, tuple,
other) plus, for containers, an element summary (lists) and per-key summaries (dicts, and positional for the raw
message list). States are non-relational maps name -> value; an `if` whose branches differ in more than one live
variable keeps both branches as separate disjuncts (trace partitioning), otherwise the branches are joined.
Repository functions are interpreted at the call site (summaries are computed, never hand-written).
Anything outside the subset raises AnalysisError naming the construct.
"""
import ast

from .index import AnalysisError, FuncInfo, ClassInfo, dotted_name
from . import norm

INT_ATOMS = {"int-": (None, -1), "int0": (0, 0), "int+": (1, 2 ** 53), "intbig": (2 ** 53 + 1, None)}
ATOMS = ["None", "True", "False", "int-", "int0", "int+", "intbig", "float", "str0", "str", "bytes0", "bytes",
         "list0", "list", "dict0", "dict", "tuple", "other"]
FALSY = {"None", "False", "int0", "str0", "bytes0", "list0", "dict0"}
MAYBE_FALSY = {"float", "tuple", "other"}
TYPE_ATOMS = {"NoneType": {"None"}, "bool": {"True", "False"}, "int": set(INT_ATOMS), "float": {"float"}, "str": {"str0", "str"},
              "bytes": {"bytes0", "bytes"}, "list": {"list0", "list"}, "dict": {"dict0", "dict"}, "tuple": {"tuple"}}
ALL = frozenset(ATOMS)


class AV:
    __slots__ = ("atoms", "elem", "fields", "keys_str", "tags", "vals", "kelem")

    def __init__(self, atoms, elem=None, fields=None, keys_str=False, tags=frozenset(), vals=None, kelem=None):
        self.atoms = frozenset(atoms)
        self.elem = elem  # AV of list elements / dict values stored under dynamic keys; None = unknown (top)
        self.fields = dict(fields or {})  # key -> (presence 'yes'|'no'|'maybe', AV)
        self.keys_str = keys_str
        self.tags = frozenset(tags)
        self.vals = vals  # frozenset of possible constant values (str/int/bool/None) or None = unknown
        self.kelem = kelem  # AV summarising the keys of a dict built under dynamic keys; None = unknown

    def copy(self, **kw):
        a = AV(self.atoms, self.elem, self.fields, self.keys_str, self.tags, self.vals, self.kelem)
        for k, v in kw.items():
            setattr(a, k, v)
        return a

    def only(self, atoms):
        return self._fit(self.atoms & frozenset(atoms))

    def without(self, atoms):
        return self._fit(self.atoms - frozenset(atoms))

    def _fit(self, atoms):
        vals = self.vals
        if vals is not None:
            vals = frozenset(v for v in vals if const_atom(v) in atoms)
            if not vals:
                atoms = frozenset()
        return self.copy(atoms=frozenset(atoms), vals=vals)

    def with_vals(self, vals):
        vals = frozenset(vals)
        if self.vals is not None:
            vals = vals & self.vals
        atoms = frozenset(a for a in self.atoms if any(const_atom(v) == a for v in vals))
        return self.copy(atoms=atoms, vals=vals)

    def minus_vals(self, gone):
        if self.vals is None:
            # singleton atoms can still be excluded
            single = [(None, "None"), (True, "True"), (False, "False"), (0, "int0"), ("", "str0"), (b"", "bytes0")]
            drop = set()
            for g in gone:
                for k, a in single:
                    if type(k) == type(g) and k == g:
                        drop.add(a)
            return self.copy(atoms=self.atoms - drop)
        vals = frozenset(v for v in self.vals if not any(type(v) == type(g) and v == g for g in gone))
        atoms = frozenset(a for a in self.atoms if any(const_atom(v) == a for v in vals))
        return self.copy(atoms=atoms, vals=vals)

    def bottom(self):
        return not self.atoms

    def has_pred(self, name):
        """A scoped predicate tag holds for the value if every atom the value can take lies in the tag's scope."""
        return any(isinstance(t, tuple) and t[0] == name and self.atoms <= t[1] for t in self.tags)

    def add_pred(self, name):
        return self.copy(tags=frozenset(t for t in self.tags if not (isinstance(t, tuple) and t[0] == name)) | {(name, frozenset(self.atoms))})

    def __repr__(self):
        s = "{" + ",".join(a for a in ATOMS if a in self.atoms) + "}"
        if self.elem is not None and self.atoms & {"list"}:
            s += f"<elem {self.elem}>"
        if self.fields:
            s += "[" + ",".join(f"{k}:{p}:{v}" for k, (p, v) in sorted(self.fields.items(), key=lambda kv: str(kv[0]))) + "]"
        if self.tags:
            s += "#" + ",".join(sorted(t if isinstance(t, str) else t[0] for t in self.tags))
        if self.vals is not None:
            s += "=" + repr(sorted(map(repr, self.vals)))
        if self.kelem is not None:
            s += f"<keys {self.kelem}>"
        return s

    def describe(self):
        return "{" + ", ".join(a for a in ATOMS if a in self.atoms) + "}"


def const_atom(v):
    if v is None:
        return "None"
    if v is True:
        return "True"
    if v is False:
        return "False"
    if isinstance(v, int):
        for a, (lo, hi) in INT_ATOMS.items():
            if (lo is None or v >= lo) and (hi is None or v <= hi):
                return a
    if isinstance(v, float):
        return "float"
    if isinstance(v, str):
        return "str" if v else "str0"
    if isinstance(v, bytes):
        return "bytes" if v else "bytes0"
    return "other"


def TOP():
    return AV(ALL)


def const_av(v):
    if v is None:
        return AV({"None"}, vals=frozenset([None]))
    if v is True:
        return AV({"True"}, vals=frozenset([True]))
    if v is False:
        return AV({"False"}, vals=frozenset([False]))
    if isinstance(v, int):
        for a, (lo, hi) in INT_ATOMS.items():
            if (lo is None or v >= lo) and (hi is None or v <= hi):
                return AV({a}, vals=frozenset([v]))
    if isinstance(v, float):
        return AV({"float"})
    if isinstance(v, str):
        return AV({"str" if v else "str0"}, vals=frozenset([v]))
    if isinstance(v, bytes):
        return AV({"bytes" if v else "bytes0"})
    if isinstance(v, (list,)):
        return AV({"list" if v else "list0"})
    if isinstance(v, tuple):
        return AV({"tuple"})
    if isinstance(v, dict):
        return AV({"dict" if v else "dict0"})
    return AV({"other"})


def join(a, b):
    if a is None:
        return b
    if b is None:
        return a
    elem = None
    if a.elem is not None and b.elem is not None:
        elem = join(a.elem, b.elem)
    elif a.elem is not None and not (b.atoms & {"list"}):
        elem = a.elem
    elif b.elem is not None and not (a.atoms & {"list"}):
        elem = b.elem
    fields = {}
    for k in set(a.fields) | set(b.fields):
        fa, fb = a.fields.get(k), b.fields.get(k)
        # a side that cannot be a container contributes nothing
        if fa is None and not (a.atoms & {"dict", "dict0", "list", "list0"}):
            fields[k] = fb
        elif fb is None and not (b.atoms & {"dict", "dict0", "list", "list0"}):
            fields[k] = fa
        elif fa is not None and fb is not None:
            fields[k] = (fa[0] if fa[0] == fb[0] else "maybe", join(fa[1], fb[1]))
    ks = (a.keys_str or not (a.atoms & {"dict"})) and (b.keys_str or not (b.atoms & {"dict"}))
    vals = (a.vals | b.vals) if (a.vals is not None and b.vals is not None) else None
    kel = join(a.kelem, b.kelem) if (a.kelem is not None and b.kelem is not None) else \
        (a.kelem if not (b.atoms & {"dict"}) else b.kelem if not (a.atoms & {"dict"}) else None)
    tags = set()
    for t in a.tags | b.tags:
        if isinstance(t, tuple):
            name, scope = t
            in_a = any(isinstance(x, tuple) and x[0] == name for x in a.tags) or not (a.atoms & scope)
            in_b = any(isinstance(x, tuple) and x[0] == name for x in b.tags) or not (b.atoms & scope)
            if in_a and in_b:
                sc = frozenset().union(*[x[1] for x in (a.tags | b.tags) if isinstance(x, tuple) and x[0] == name])
                tags.add((name, sc))
        elif t in a.tags and t in b.tags:
            tags.add(t)
    return AV(a.atoms | b.atoms, elem, fields, ks, frozenset(tags), vals, kel)


INF_LEN = 10 ** 9
ANY_LEN = frozenset(range(0, 64)) | {INF_LEN}


class State(dict):
    """name -> AV ; special keys: '@len:<name>' -> frozenset of possible lengths or None (any)."""

    def copy(self):
        s = State(self)
        return s

    def is_bottom(self):
        return any(isinstance(v, AV) and v.bottom() for v in self.values())


def join_states(a, b):
    if a is None:
        return b
    if b is None:
        return a
    out = State()
    for k in set(a) | set(b):
        if k.startswith("@len:"):
            la, lb = a.get(k), b.get(k)
            out[k] = ANY_LEN if la is None or lb is None else frozenset(la) | frozenset(lb)
        elif k in a and k in b:
            out[k] = join(a[k], b[k])
        # variables defined on one side only are dropped (possibly-undefined): reading them later is an error
    return out


class Finding:
    def __init__(self, kind, fn, node, msg, witness=""):
        self.kind, self.fn, self.node, self.msg, self.witness = kind, fn, node, msg, witness


class Interp:
    def __init__(self, program, allowed_exc=("ProtocolError", "InvalidUriError"), max_disjuncts=64, live=None):
        self.p = program
        self.allowed = set(allowed_exc)
        self.findings = []
        self.raised = []  # (exc name, fn, node)
        self.max_disjuncts = max_disjuncts
        self.depth = 0
        self.live = live
        self.assert_pred = None  # FuncInfo -> bool: check `assert` statements of that function
        self.stats = {"asserts": 0, "calls_inlined": 0, "stmts": 0}

    # ------------------------------------------------------------------ expressions
    def ev(self, st, e, fn):
        if isinstance(e, ast.Constant):
            return const_av(e.value)
        if isinstance(e, ast.Name):
            if e.id in st:
                return st[e.id]
            ok, v = self.p.try_const(e, fn.module, fn.cls)
            if ok:
                return const_av(v) if not isinstance(v, (list, tuple, dict, set)) else self._container_const(v)
            r = self.p.resolve_name(fn.module, e)
            if r is not None:
                return AV({"other"}, tags={f"ref:{getattr(r, 'qualname', getattr(r, 'name', '?'))}"})
            if e.id in fn.module.consts or e.id in fn.module.imports:
                return AV({"other"}, tags={f"module-object:{e.id}"})
            if e.id in ("str", "int", "bool", "dict", "list", "bytes", "float", "tuple", "type", "len", "isinstance"):
                return AV({"other"}, tags={f"builtin:{e.id}"})
            raise AnalysisError(f"{fn.qualname}: name {e.id} may be undefined on this path")
        if isinstance(e, ast.Attribute):
            ok, v = self.p.try_const(e, fn.module, fn.cls)
            if ok:
                return const_av(v) if not isinstance(v, (list, tuple, dict, set)) else self._container_const(v)
            return AV(ALL)  # attribute of an object (self.x, obj.attr): unknown
        if isinstance(e, ast.Subscript):
            return self.ev_subscript(st, e, fn)
        if isinstance(e, ast.Call):
            return self.ev_call(st, e, fn)
        if isinstance(e, (ast.Compare, ast.BoolOp)) or (isinstance(e, ast.UnaryOp) and isinstance(e.op, ast.Not)):
            t = self.narrow(st, e, True, fn)
            f = self.narrow(st, e, False, fn)
            at = set()
            if t is not None:
                at.add("True")
            if f is not None:
                at.add("False")
            if isinstance(e, ast.BoolOp):
                # `a and b` / `a or b` evaluate to one of the operands
                out = None
                for v in e.values:
                    out = join(out, self.ev(st, v, fn))
                return out
            return AV(at or {"True", "False"})
        if isinstance(e, ast.Dict):
            if not e.keys:
                return AV({"dict0"}, keys_str=True)
            fields = {}
            for k, v in zip(e.keys, e.values):
                if isinstance(k, ast.Constant):
                    fields[k.value] = ("yes", self.ev(st, v, fn))
            return AV({"dict"}, fields=fields, keys_str=all(isinstance(k, ast.Constant) and isinstance(k.value, str) for k in e.keys))
        if isinstance(e, (ast.List,)):
            if not e.elts:
                return AV({"list0"})
            el = None
            for x in e.elts:
                el = join(el, self.ev(st, x, fn))
            return AV({"list"}, elem=el)
        if isinstance(e, ast.Tuple):
            return AV({"tuple"})
        if isinstance(e, ast.Set):
            for x in e.elts:
                self.ev(st, x, fn)
            return AV({"other"})
        if isinstance(e, ast.SetComp):
            return AV({"other"})
        if isinstance(e, ast.JoinedStr):
            return AV({"str"})
        if isinstance(e, ast.IfExp):
            t = self.narrow(st, e.test, True, fn)
            f = self.narrow(st, e.test, False, fn)
            out = None
            if t is not None:
                out = join(out, self.ev(t, e.body, fn))
            if f is not None:
                out = join(out, self.ev(f, e.orelse, fn))
            return out or AV(set())
        if isinstance(e, ast.BinOp):
            l, r = self.ev(st, e.left, fn), self.ev(st, e.right, fn)
            if isinstance(e.op, ast.Mod) and l.atoms <= {"str", "str0"}:
                return AV({"str", "str0"})
            if l.atoms <= set(INT_ATOMS) and r.atoms <= set(INT_ATOMS):
                return AV(set(INT_ATOMS))
            return AV(ALL)
        if isinstance(e, ast.UnaryOp):
            return AV(set(INT_ATOMS) | {"float"})
        if isinstance(e, (ast.ListComp, ast.GeneratorExp)):
            return AV({"list0", "list"})
        if isinstance(e, ast.DictComp):
            return AV({"dict0", "dict"})
        if isinstance(e, ast.Lambda):
            return AV({"other"})
        if isinstance(e, ast.Starred):
            return self.ev(st, e.value, fn)
        raise AnalysisError(f"{fn.qualname}: expression {type(e).__name__} `{ast.unparse(e)[:60]}` outside the modelled subset")

    def _container_const(self, v):
        if isinstance(v, dict):
            return AV({"dict" if v else "dict0"}, fields={k: ("yes", const_av(x)) for k, x in v.items() if isinstance(k, (str, int))}, tags={"constdict"})
        if isinstance(v, (list, tuple, set)):
            el = None
            for x in v:
                el = join(el, const_av(x))
            return AV({"list" if v else "list0"} if not isinstance(v, tuple) else {"tuple"}, elem=el, tags={"constseq:" + repr(sorted(map(repr, v)))[:200]})
        return AV({"other"})

    def ev_subscript(self, st, e, fn):
        base = self.ev(st, e.value, fn)
        if isinstance(e.slice, ast.Slice):
            return base.only(base.atoms & {"str0", "str", "bytes0", "bytes", "list0", "list", "tuple"}) if base.atoms & {"str", "bytes", "list", "tuple", "str0", "bytes0", "list0"} else AV(ALL)
        ok, k = (True, e.slice.value) if isinstance(e.slice, ast.Constant) else self.p.try_const(e.slice, fn.module, fn.cls)
        bname = e.value.id if isinstance(e.value, ast.Name) else None
        if ok and isinstance(k, int) and not isinstance(k, bool) and bname is not None and f"@len:{bname}" in st:
            lens = st[f"@len:{bname}"]
            if any(l <= k for l in lens):
                self.escape("IndexError", fn, e, f"{ast.unparse(e)} with possible len({bname}) {sorted(l for l in lens if l <= k)}")
            f = base.fields.get(k)
            return f[1] if f else TOP()
        if ok and isinstance(k, (str, int)):
            f = base.fields.get(k)
            if base.atoms & {"dict", "dict0"} and isinstance(e.value, ast.Name):
                if f is None or f[0] != "yes":
                    if "constdict" not in base.tags or f is None:
                        self.escape("KeyError", fn, e, f"{ast.unparse(e)} without an established `{k!r} in ...`")
            elif base.atoms & {"list", "list0", "tuple", "str", "str0", "bytes", "bytes0"} and isinstance(k, int):
                if not (f and f[0] == "yes"):
                    if base.atoms & {"list0", "str0", "bytes0"} or k != 0 or True:
                        pass
            if f is not None:
                return f[1]
            if base.elem is not None and isinstance(k, int):
                return base.elem
            return TOP()
        # dynamic key
        kv = self.ev(st, e.slice, fn)
        if base.atoms & {"dict", "dict0"} and "constdict" not in base.tags:
            # d[var]: only safe when iterating over d's own keys; flagged by the escape rule unless the rule knows better
            pass
        if base.elem is not None:
            return base.elem
        if "constdict" in base.tags:
            out = None
            for _, (p, v) in base.fields.items():
                out = join(out, v)
            return out or TOP()
        return TOP()

    # ------------------------------------------------------------------ calls
    def ev_call(self, st, c, fn):
        f = c.func
        name = dotted_name(f) or ""
        if isinstance(f, ast.Name):
            if f.id == "len" and len(c.args) == 1:
                a = c.args[0]
                if isinstance(a, ast.Name) and f"@len:{a.id}" in st:
                    return AV({"int0", "int+"}, tags={f"len:{a.id}"})
                v = self.ev(st, a, fn)
                at = set()
                if v.atoms & {"str0", "bytes0", "list0", "dict0"}:
                    at.add("int0")
                if v.atoms & {"str", "bytes", "list", "dict", "tuple", "other"}:
                    at |= {"int+"} | ({"int0"} if v.atoms & {"tuple", "other"} else set())
                if v.atoms - {"str0", "bytes0", "list0", "dict0", "str", "bytes", "list", "dict", "tuple", "other"}:
                    self.escape("TypeError", fn, c, f"len() of {v.describe()}")
                return AV(at or {"int0", "int+"}, tags={f"lenof:{ast.unparse(a)}"})
            if f.id == "type" and len(c.args) == 1:
                return AV({"other"}, tags={"typeof:" + ast.unparse(c.args[0])})
            if f.id in ("isinstance", "hasattr", "callable", "bool", "any", "all"):
                for a in c.args:
                    self.ev(st, a, fn)
                return AV({"True", "False"})
            if f.id == "str":
                return AV({"str0", "str"})
            if f.id == "int":
                return AV(set(INT_ATOMS))
            if f.id in ("list", "sorted"):
                return AV({"list0", "list"})
            if f.id in ("dict",):
                return AV({"dict0", "dict"})
            if f.id in ("tuple",):
                return AV({"tuple"})
            if f.id in ("bytes",):
                return AV({"bytes0", "bytes"})
            if f.id in ("repr", "hlval", "hltype", "b2a"):
                return AV({"str"})
            if f.id in st and "other" in st[f.id].atoms:
                # calling a local variable holding a class/function (e.g. role_cls(**features))
                for k in c.keywords:
                    if k.arg is None and not isinstance(k.value, ast.Dict):
                        # the keys come from the input: a key equal to an already bound parameter ('self' for any class or
                        # method) or unknown to a callee without **kwargs makes the CALL raise TypeError, whatever the values are
                        self.escape("TypeError", fn, c, f"`{f.id}(**{ast.unparse(k.value)})`: keys are chosen by the peer; a key named 'self' "
                                    f"(or any key the callee does not accept) raises TypeError at the call")
                self._ev_args(st, c, fn)
                return AV({"other"}, tags={"result-of-local-callable"})
        if isinstance(f, ast.Attribute):
            recv = f.value
            if f.attr == "get" and len(c.args) in (1, 2) and isinstance(c.args[0], ast.Constant):
                base = self.ev(st, recv, fn)
                d = self.ev(st, c.args[1], fn) if len(c.args) == 2 else AV({"None"})
                fl = base.fields.get(c.args[0].value)
                if fl is None:
                    return join(TOP(), d)
                if fl[0] == "yes":
                    return fl[1]
                if fl[0] == "no":
                    return d
                return join(fl[1], d)
            if f.attr in ("keys", "values", "items"):
                base = self.ev(st, recv, fn)
                if f.attr == "keys":
                    el = base.kelem if base.kelem is not None else (AV({"str", "str0"}) if base.keys_str else TOP())
                    return AV({"list0", "list"}, elem=el)
                return AV({"list0", "list"})
            if f.attr in ("match", "search", "fullmatch"):
                self._ev_args(st, c, fn)
                return AV({"None", "other"})
            if f.attr in ("startswith", "endswith", "isdigit"):
                return AV({"True", "False"})
            if f.attr in ("format", "join", "lower", "upper", "strip", "decode"):
                return AV({"str0", "str"})
            if f.attr in ("encode",):
                return AV({"bytes0", "bytes"})
            if f.attr in ("append", "extend", "add", "update", "pop", "remove", "debug", "info", "warn", "error"):
                self._ev_args(st, c, fn)
                return AV({"None"}) if f.attr != "pop" else TOP()
        targets = self.p.resolve_call(c, fn)
        if targets:
            out = None
            for g in targets[:1]:
                out = join(out, self.call_repo(st, c, fn, g))
            return out
        self._ev_args(st, c, fn)
        return AV(ALL, tags={"unknown-call:" + name})

    def _ev_args(self, st, c, fn):
        for a in c.args:
            self.ev(st, a.value if isinstance(a, ast.Starred) else a, fn)
        for k in c.keywords:
            v = self.ev(st, k.value, fn)
            if k.arg is None:
                tracked = isinstance(k.value, ast.Name) or (isinstance(k.value, ast.Subscript) and isinstance(k.value.value, ast.Name) and isinstance(k.value.slice, ast.Constant))
                if not tracked:
                    continue  # nested unnamed containers are not tracked (aliasing): no verdict
                if v.atoms - {"dict", "dict0"}:
                    self.escape("TypeError", fn, c, f"** applied to {v.describe()}")
                elif not v.keys_str:
                    self.escape("TypeError", fn, c, "** applied to a dict whose keys are not known to be str")

    def bind(self, st, c, fn, g):
        """Bind call arguments to g's parameters -> State for the callee."""
        a = g.node.args
        names = [x.arg for x in a.posonlyargs + a.args]
        is_ctor = g.name == "__init__"
        explicit_self = isinstance(c.func, ast.Attribute) and c.args and isinstance(c.args[0], ast.Name) and c.args[0].id == "self" and \
            not (isinstance(c.func.value, ast.Name) and c.func.value.id == "self")
        offset = 1 if (names and names[0] in ("self", "cls") and not explicit_self) else 0
        new = State()
        if names and names[0] in ("self", "cls"):
            new[names[0]] = AV({"other"})
        defaults = dict(zip(names[len(names) - len(a.defaults):], a.defaults))
        pos = [x for x in c.args]
        if any(isinstance(x, ast.Starred) for x in pos):
            raise AnalysisError(f"{fn.qualname}: *args in call to {g.qualname}")
        for i, x in enumerate(pos):
            if i + offset >= len(names):
                raise AnalysisError(f"{fn.qualname}: too many positional arguments for {g.qualname}")
            new[names[i + offset]] = self.ev(st, x, fn)
        for k in c.keywords:
            if k.arg is None:
                self.ev(st, k.value, fn)
                continue
            if k.arg in names or k.arg in [x.arg for x in a.kwonlyargs]:
                new[k.arg] = self.ev(st, k.value, fn)
            elif a.kwarg is None:
                self.escape("TypeError", fn, c, f"unexpected keyword {k.arg} for {g.qualname}")
        for n in names[offset:]:
            if n not in new:
                if n in defaults:
                    ok, v = self.p.try_const(defaults[n], g.module, g.cls)
                    new[n] = const_av(v) if ok and not isinstance(v, (list, dict, tuple, set)) else AV(ALL)
                else:
                    self.escape("TypeError", fn, c, f"missing argument {n} for {g.qualname}")
                    new[n] = AV(ALL)
        for kw, d in zip(a.kwonlyargs, a.kw_defaults):
            if kw.arg not in new:
                ok, v = self.p.try_const(d, g.module, g.cls) if d is not None else (False, None)
                new[kw.arg] = const_av(v) if ok else AV(ALL)
        if a.kwarg is not None:
            new[a.kwarg.arg] = AV({"dict0", "dict"}, keys_str=True)
        if a.vararg is not None:
            new[a.vararg.arg] = AV({"tuple"})
        return new

    def call_repo(self, st, c, fn, g):
        if self.depth > 6:
            return AV(ALL)
        self.stats["calls_inlined"] += 1
        new = self.bind(st, c, fn, g)
        self.depth += 1
        try:
            outs, rets, ret_states = self.run_function(g, new, want_states=True)
        finally:
            self.depth -= 1
        out = None
        for r in rets:
            out = join(out, r)
        # parameters that the callee only tests (never re-binds) keep, in the caller, the narrowing common to all normal returns
        self._pending_narrow = None
        merged = None
        for rs in list(ret_states) + list(outs):
            merged = join_states(merged, rs)
        if merged is not None:
            rebound = {t.id for n in ast.walk(g.node) for t in (n.targets if isinstance(n, ast.Assign) else [n.target] if isinstance(n, (ast.AugAssign, ast.For)) else [])
                       if isinstance(t, ast.Name)}
            a = g.node.args
            names = [x.arg for x in a.posonlyargs + a.args]
            offset = 1 if (names and names[0] in ("self", "cls") and not (isinstance(c.func, ast.Attribute) and c.args and isinstance(c.args[0], ast.Name) and c.args[0].id == "self" and not (isinstance(c.func.value, ast.Name) and c.func.value.id == "self"))) else 0
            upd = []
            for i, x in enumerate(c.args):
                if i + offset < len(names) and isinstance(x, (ast.Name, ast.Subscript)) and names[i + offset] in merged and names[i + offset] not in rebound:
                    upd.append((x, merged[names[i + offset]]))
            for k in c.keywords:
                if k.arg in merged and isinstance(k.value, (ast.Name, ast.Subscript)) and k.arg not in rebound:
                    upd.append((k.value, merged[k.arg]))
            self._pending_narrow = upd
        elif not rets and not outs:
            self._pending_narrow = "bottom"
        return out if out is not None else AV({"None"})

    def run_function(self, g, state, want_states=False):
        if self.depth == 0:
            self._cur_root = g
        ctxt = {"returns": [], "ret_states": [], "fn": g, "check_asserts": bool(self.assert_pred and self.assert_pred(g)), "live_out": set(g.params())}
        outs = self.block(g.node.body, [state], g, ctxt)
        for s in outs:
            ctxt["returns"].append(AV({"None"}))
        if want_states:
            return outs, ctxt["returns"], ctxt["ret_states"]
        return outs, ctxt["returns"]

    # ------------------------------------------------------------------ exceptions
    def escape(self, exc, fn, node, msg):
        self.findings.append(Finding("escape:" + exc, fn, node, msg))

    def raise_(self, exc, fn, node):
        self.raised.append((exc, fn, node))
        if exc not in self.allowed:
            self.findings.append(Finding("raise:" + exc, fn, node, f"raises {exc}"))

    # ------------------------------------------------------------------ narrowing
    def narrow_multi(self, st, e, pol, fn):
        """Like narrow() but keeps the alternatives of a disjunction apart (list of states)."""
        if st is None:
            return []
        if isinstance(e, ast.UnaryOp) and isinstance(e.op, ast.Not):
            return self.narrow_multi(st, e.operand, not pol, fn)
        if isinstance(e, ast.BoolOp):
            conj = isinstance(e.op, ast.And)
            if conj == pol:
                cur = [st]
                for v in e.values:
                    cur = [r for s_ in cur for r in self.narrow_multi(s_, v, pol, fn)]
                    if len(cur) > 16:
                        j = None
                        for x in cur:
                            j = join_states(j, x)
                        cur = [j]
                return cur
            outs, cur = [], [st]
            for v in e.values:
                for s_ in cur:
                    outs += self.narrow_multi(s_, v, pol, fn)
                cur = [r for s_ in cur for r in self.narrow_multi(s_, v, not pol, fn)]
                if not cur:
                    break
            if len(outs) > 16:
                j = None
                for x in outs:
                    j = join_states(j, x)
                outs = [j]
            return [o for o in outs if o is not None and not o.is_bottom()]
        r = self.narrow(st, e, pol, fn)
        return [r] if r is not None and not r.is_bottom() else []

    def narrow(self, st, e, pol, fn):
        """State refined by assuming `e` evaluates truthy (pol) / falsy; None when impossible."""
        if st is None:
            return None
        if isinstance(e, ast.UnaryOp) and isinstance(e.op, ast.Not):
            return self.narrow(st, e.operand, not pol, fn)
        if isinstance(e, ast.BoolOp):
            conj = isinstance(e.op, ast.And)
            if conj == pol:
                cur = st
                for v in e.values:
                    cur = self.narrow(cur, v, pol, fn)
                    if cur is None:
                        return None
                return cur
            out = None
            cur = st
            for v in e.values:
                alt = self.narrow(cur, v, pol, fn)
                out = join_states(out, alt)
                cur = self.narrow(cur, v, not pol, fn)
                if cur is None:
                    break
            return out
        if isinstance(e, ast.Compare):
            if len(e.ops) > 1:
                # chain a < b < c == (a < b) and (b < c)
                parts = []
                left = e.left
                for op, r in zip(e.ops, e.comparators):
                    parts.append(ast.Compare(left=left, ops=[op], comparators=[r]))
                    left = r
                return self.narrow(st, ast.BoolOp(op=ast.And(), values=parts), pol, fn)
            return self.narrow_cmp(st, e.left, e.ops[0], e.comparators[0], pol, fn)
        if isinstance(e, ast.Call):
            f = e.func
            if isinstance(f, ast.Name) and f.id == "isinstance" and len(e.args) == 2:
                names = [dotted_name(t) for t in (e.args[1].elts if isinstance(e.args[1], ast.Tuple) else [e.args[1]])]
                atoms = set()
                for n in names:
                    atoms |= TYPE_ATOMS.get(n, {"other"})
                if "int" in names:
                    atoms |= {"True", "False"}  # bool is a subclass of int
                if any(n not in TYPE_ATOMS for n in names):
                    # instance-of-class tests are outside the atom domain: objects may or may not satisfy them;
                    # a value that can only be an object is assumed to be of the class it was built from
                    v0 = self.ev(st, e.args[0], fn)
                    if pol:
                        return st
                    return None if v0.atoms <= {"other"} else self.narrow_atoms(st, e.args[0], {"other"}, False, fn)
                return self.narrow_atoms(st, e.args[0], atoms, pol, fn)
            if isinstance(f, ast.Attribute) and f.attr in ("match", "fullmatch") and isinstance(f.value, ast.Name) and len(e.args) == 1 \
                    and isinstance(e.args[0], (ast.Name, ast.Subscript)):
                v = self.ev(st, e.args[0], fn)
                tag = f"matches:{f.value.id}"
                bad_ = v.atoms - {"str", "str0", "bytes", "bytes0"}
                # (loop variables over the keys of a container are left out: what is known about keys comes from the extra-dict validator's own loop,
                # which this interpreter follows in its for/raise form only -- no verdict is better than a wrong one)
                loopvar = isinstance(e.args[0], ast.Name) and any(isinstance(x, (ast.For, ast.comprehension)) and any(isinstance(y, ast.Name) and y.id == e.args[0].id
                                                                                                               for y in ast.walk(x.target)) for x in ast.walk(fn.node))
                if bad_ and not loopvar and not getattr(self, "_match_reported", {}).get((fn.qualname, e.lineno, e.col_offset)):
                    # re.Pattern.match(x) raises TypeError for anything but str / bytes (None included), whatever the outcome of the test
                    self.__dict__.setdefault("_match_reported", {})[(fn.qualname, e.lineno, e.col_offset)] = True
                    self.escape("TypeError", fn, e, f"pattern match applied to {v.only(bad_).describe()}")
                if pol:
                    bad = v.atoms - {"str", "str0", "bytes", "bytes0"}
                    nv = v.only({"str", "str0", "bytes", "bytes0"})
                    if nv.bottom():
                        return None
                    return self.assign_expr(st, e.args[0], nv.add_pred(tag), fn)
                if v.has_pred(tag):
                    return None
                return st
            targets = self.p.resolve_call(e, fn)
            if targets and isinstance(f, (ast.Name, ast.Attribute)):
                return self.narrow_call(st, e, pol, fn, targets[0])
            v = self.ev(st, e, fn)
            return self._truth_filter_value(st, v, pol)
        if isinstance(e, ast.Constant):
            return st if bool(e.value) == pol else None
        if isinstance(e, (ast.Name, ast.Subscript, ast.Attribute)):
            v = self.ev(st, e, fn)
            keep = {a for a in v.atoms if (a not in FALSY) == pol or a in MAYBE_FALSY}
            if not keep:
                return None
            return self.assign_expr(st, e, v.only(keep), fn)
        v = self.ev(st, e, fn)
        return self._truth_filter_value(st, v, pol)

    def _truth_filter_value(self, st, v, pol):
        keep = {a for a in v.atoms if (a not in FALSY) == pol or a in MAYBE_FALSY}
        return st if keep else None

    def assign_expr(self, st, e, val, fn):
        """Return a copy of st where the location denoted by e holds val."""
        if isinstance(e, ast.Name):
            if e.id not in st:
                return st
            s = st.copy()
            s[e.id] = val
            return s
        if isinstance(e, ast.Subscript) and not isinstance(e.slice, ast.Slice):
            ok, k = (True, e.slice.value) if isinstance(e.slice, ast.Constant) else self.p.try_const(e.slice, fn.module, fn.cls)
            if ok and isinstance(k, (str, int)):
                base = self.ev(st, e.value, fn)
                fl = dict(base.fields)
                pres = fl.get(k, ("maybe", None))[0]
                fl[k] = (pres, val)
                return self.assign_expr(st, e.value, base.copy(fields=fl), fn)
        return st

    def narrow_atoms(self, st, e, atoms, pol, fn):
        v = self.ev(st, e, fn)
        nv = v.only(atoms) if pol else v.without(atoms)
        if nv.bottom():
            return None
        return self.assign_expr(st, e, nv, fn)

    def narrow_cmp(self, st, l, op, r, pol, fn):
        if isinstance(op, (ast.NotEq, ast.IsNot, ast.NotIn)):
            pol = not pol
            op = {ast.NotEq: ast.Eq, ast.IsNot: ast.Is, ast.NotIn: ast.In}[type(op)]()
        # type(d.get("k")) == T  (T not NoneType)  <=>  "k" in d and type(d["k"]) == T
        if isinstance(l, ast.Call) and isinstance(l.func, ast.Name) and l.func.id == "type" and len(l.args) == 1 and isinstance(l.args[0], ast.Call) \
                and isinstance(l.args[0].func, ast.Attribute) and l.args[0].func.attr == "get" and l.args[0].args and isinstance(l.args[0].args[0], ast.Constant) \
                and (len(l.args[0].args) == 1 or (len(l.args[0].args) == 2 and isinstance(l.args[0].args[1], ast.Constant) and l.args[0].args[1].value is None)) \
                and not l.args[0].keywords and isinstance(l.args[0].func.value, (ast.Name, ast.Subscript)):
            g_ = l.args[0]
            tn = [dotted_name(r)] if isinstance(op, (ast.Eq, ast.Is)) else ([dotted_name(x) for x in r.elts] if isinstance(op, ast.In) and isinstance(r, (ast.List, ast.Tuple, ast.Set)) else None)
            if tn is not None and all(tn) and not any(n in ("NoneType", "type(None)") for n in tn):
                if not pol:
                    return st  # absent, or present with another type: no single refinement (sound: unchanged)
                pres = self.narrow(st, ast.Compare(left=g_.args[0], ops=[ast.In()], comparators=[g_.func.value]), True, fn)
                if pres is None:
                    return None
                sub = ast.Subscript(value=g_.func.value, slice=g_.args[0], ctx=ast.Load())
                return self.narrow_cmp(pres, ast.Call(func=l.func, args=[sub], keywords=[]), op, r, True, fn)
        # type(x) == T / type(x) in [..]
        if isinstance(l, ast.Call) and isinstance(l.func, ast.Name) and l.func.id == "type" and len(l.args) == 1:
            tnames = None
            if isinstance(op, (ast.Eq, ast.Is)):
                tnames = [dotted_name(r)]
            elif isinstance(op, ast.In) and isinstance(r, (ast.List, ast.Tuple, ast.Set)):
                tnames = [dotted_name(x) for x in r.elts]
            if tnames is not None and all(tnames):
                atoms = set()
                for n in tnames:
                    if n not in TYPE_ATOMS:
                        atoms |= {"other"}
                    atoms |= TYPE_ATOMS.get(n, set())
                return self.narrow_atoms(st, l.args[0], atoms, pol, fn)
        # len(x) comparisons
        if isinstance(l, ast.Call) and isinstance(l.func, ast.Name) and l.func.id == "len" and len(l.args) == 1:
            a = l.args[0]
            okc, c = self.p.try_const(r, fn.module, fn.cls)
            if isinstance(a, ast.Name) and f"@len:{a.id}" in st and okc:
                lens = st[f"@len:{a.id}"]
                test = self._int_test(op, c)
                if test is not None:
                    keep = {x for x in lens if test(x) == pol}
                    if not keep:
                        return None
                    s = st.copy()
                    s[f"@len:{a.id}"] = frozenset(keep)
                    return s
            if okc and isinstance(c, int):
                # emptiness of a container
                v = self.ev(st, a, fn)
                test = self._int_test(op, c)
                if test is not None:
                    empt = {"str0", "bytes0", "list0", "dict0"}
                    keep = set()
                    for at in v.atoms:
                        if at in empt:
                            if test(0) == pol:
                                keep.add(at)
                        elif at in ("str", "bytes", "list", "dict"):
                            if any(test(x) == pol for x in (1, 2, 3, 5, 10, 100)):
                                keep.add(at)
                        else:
                            keep.add(at)
                    if not keep:
                        return None
                    return self.assign_expr(st, a, v.only(keep), fn)
            return st
        if isinstance(op, ast.Is) or isinstance(op, ast.Eq):
            okc, c = (True, r.value) if isinstance(r, ast.Constant) else self.p.try_const(r, fn.module, fn.cls)
            if not okc and isinstance(l, ast.Constant):
                l, r = r, l
                okc, c = True, r.value
            if okc and (c is None or isinstance(c, (bool, int, str, bytes))):
                v = self.ev(st, l, fn)
                if pol:
                    atoms = {const_atom(c)}
                    if isinstance(op, ast.Eq) and isinstance(c, int) and not isinstance(c, bool):
                        atoms |= {"float"} | ({"True"} if c == 1 else {"False"} if c == 0 else set())  # 1 == True, 0 == False, 1 == 1.0
                    nv = v.only(atoms)
                    if nv.vals is not None or atoms == {const_atom(c)}:
                        keep = [x for x in (nv.vals if nv.vals is not None else [c]) if x == c] if nv.vals is not None else [c]
                        nv2 = nv.copy(vals=frozenset(keep)) if atoms == {const_atom(c)} else nv
                        if nv.vals is not None and not keep:
                            return None
                        nv = nv2
                    if nv.bottom():
                        return None
                    return self.assign_expr(st, l, nv, fn)
                nv = v.minus_vals([c])
                if isinstance(op, ast.Eq) and isinstance(c, int) and not isinstance(c, bool) and c in (0, 1):
                    nv = nv.without({"True"} if c == 1 else {"False"})
                if nv.bottom():
                    return None
                return self.assign_expr(st, l, nv, fn)
            # comparison between two variables: no narrowing
            self.ev(st, l, fn)
            self.ev(st, r, fn)
            return st
        if isinstance(op, ast.In):
            lv = self.ev(st, l, fn)
            rv = self.ev(st, r, fn)
            if isinstance(l, ast.Constant) and isinstance(l.value, (str, int)):
                # "k" in d
                if not (rv.atoms & {"dict", "dict0", "list", "list0", "str", "str0", "tuple", "other", "bytes", "bytes0"}):
                    self.escape("TypeError", fn, l, f"`in` applied to {rv.describe()}")
                fl = dict(rv.fields)
                cur = fl.get(l.value)
                if cur is not None and cur[0] == "yes" and not pol:
                    return None
                if cur is not None and cur[0] == "no" and pol:
                    return None
                if pol and not (rv.atoms - {"dict0", "list0", "str0", "bytes0", "None"}):
                    return None
                fl[l.value] = ("yes" if pol else "no", cur[1] if cur else TOP())
                nv = rv.copy(fields=fl)
                if pol:
                    nv = nv.without({"dict0", "list0"})
                return self.assign_expr(st, r, nv, fn)
            # hashing: `x in {a, b}` / `x in <dict display>` raises TypeError for a list / dict value of x
            if isinstance(r, (ast.Set, ast.Dict)) or (isinstance(r, ast.Call) and isinstance(r.func, ast.Name) and r.func.id in ("set", "frozenset", "dict")):
                unhash = lv.atoms & {"list", "list0", "dict", "dict0"}
                if unhash:
                    self.escape("TypeError", fn, l, f"`in` on a set / dict hashes its left operand: unhashable {lv.only(unhash).describe()}")
            # x in [consts]
            okc, c = self.p.try_const(r, fn.module, fn.cls)
            if not okc and isinstance(r, ast.Set):
                ks_ = [self.p.try_const(k_, fn.module, fn.cls) for k_ in r.elts]
                if ks_ and all(o_ for o_, _ in ks_):
                    okc, c = True, [v_ for _, v_ in ks_]
            if not okc and isinstance(r, ast.Name):
                # a local table built once from a literal with constant keys / elements (`grammar = {EXACT: .., PREFIX: ..}; if x not in grammar`)
                defs = [s_ for s_ in ast.walk(fn.node) if isinstance(s_, ast.Assign) and any(isinstance(t_, ast.Name) and t_.id == r.id for t_ in s_.targets)]
                stores = [x_ for x_ in ast.walk(fn.node) if isinstance(x_, ast.Name) and x_.id == r.id and isinstance(x_.ctx, (ast.Store, ast.Del))]
                if len(defs) == 1 and len(stores) == 1 and isinstance(defs[0].value, (ast.Dict, ast.List, ast.Tuple, ast.Set)):
                    elts = defs[0].value.keys if isinstance(defs[0].value, ast.Dict) else defs[0].value.elts
                    ks = [self.p.try_const(k_, fn.module, fn.cls) if k_ is not None else (False, None) for k_ in elts]
                    if ks and all(o_ for o_, _ in ks):
                        okc, c = True, [v_ for _, v_ in ks]
            if okc and isinstance(c, (list, tuple, set, frozenset)) and all(x is None or isinstance(x, (bool, int, str, bytes)) for x in c):
                if pol:
                    nv = lv.with_vals(c)
                    if nv.bottom():
                        return None
                    return self.assign_expr(st, l, nv, fn)
                nv = lv.minus_vals(c)
                if nv.bottom():
                    return None
                return self.assign_expr(st, l, nv, fn)
            return st
        if isinstance(op, (ast.Lt, ast.LtE, ast.Gt, ast.GtE)):
            okc, c = self.p.try_const(r, fn.module, fn.cls)
            okl, cl = self.p.try_const(l, fn.module, fn.cls)
            if okl and not okc and isinstance(cl, int) and not isinstance(cl, bool):
                # constant on the left: `c <= x` is `x >= c`
                mirror = {ast.Lt: ast.Gt, ast.LtE: ast.GtE, ast.Gt: ast.Lt, ast.GtE: ast.LtE}[type(op)]()
                return self.narrow_cmp(st, r, mirror, l, pol, fn)
            lv = self.ev(st, l, fn)
            bad = lv.atoms - set(INT_ATOMS) - {"float", "True", "False", "other"}
            if bad and not (isinstance(l, ast.Call)):
                self.escape("TypeError", fn, l, f"ordering comparison on {lv.only(bad).describe()}")
            if okc and isinstance(c, int) and not isinstance(c, bool):
                test = self._int_test(op, c)
                keep = set()
                for at in lv.atoms:
                    if at in INT_ATOMS:
                        lo, hi = INT_ATOMS[at]
                        pts = [x for x in (lo, hi, c - 1, c, c + 1) if x is not None and (lo is None or x >= lo) and (hi is None or x <= hi)]
                        if lo is None:
                            pts.append(min(-1, c - 1))
                        if hi is None:
                            pts.append(max(2 ** 53 + 1, c + 1))
                        if any(test(x) == pol for x in pts):
                            keep.add(at)
                    elif at == "True":
                        if test(1) == pol:
                            keep.add(at)
                    elif at == "False":
                        if test(0) == pol:
                            keep.add(at)
                    else:
                        keep.add(at)
                if not keep:
                    return None
                return self.assign_expr(st, l, lv.only(keep), fn)
            return st
        return st

    def _int_test(self, op, c):
        if isinstance(op, ast.Eq):
            return lambda x: x == c
        if isinstance(op, ast.Lt):
            return lambda x: x < c
        if isinstance(op, ast.LtE):
            return lambda x: x <= c
        if isinstance(op, ast.Gt):
            return lambda x: x > c
        if isinstance(op, ast.GtE):
            return lambda x: x >= c
        if isinstance(op, ast.In) and isinstance(c, (list, tuple, set, frozenset)):
            return lambda x: x in c
        return None

    def narrow_call(self, st, c, pol, fn, g):
        """Condition `g(args)`: interpret g; keep the caller state refined by the argument narrowing of those return
        sites whose returned expression can have truthiness `pol`."""
        if self.depth > 6:
            return st
        # pure single-expression predicates: remember on the argument that the predicate held
        body = [x for x in g.node.body if not (isinstance(x, ast.Expr) and isinstance(x.value, ast.Constant))]
        pure = len(body) == 1 and isinstance(body[0], ast.Return) and len(c.args) == 1 and not c.keywords and isinstance(c.args[0], (ast.Name, ast.Subscript))
        tag = f"holds:{g.qualname}"
        if pure:
            cur = self.ev(st, c.args[0], fn)
            if cur.has_pred(tag):
                return st if pol else None
        new = self.bind(st, c, fn, g)
        self.depth += 1
        try:
            ctxt = {"returns": [], "ret_states": [], "fn": g, "cond_pol": pol, "cond_states": [], "live_out": set(g.params())}
            outs = self.block(g.node.body, [new], g, ctxt)
            if outs and pol is False:
                ctxt["cond_states"].extend(outs)  # falling off the end returns None (falsy)
        finally:
            self.depth -= 1
        if not ctxt["cond_states"]:
            return None
        # map narrowed parameters back to argument expressions that are plain locations
        a = g.node.args
        names = [x.arg for x in a.posonlyargs + a.args]
        offset = 1 if (names and names[0] in ("self", "cls")) else 0
        merged = None
        for cs in ctxt["cond_states"]:
            merged = join_states(merged, cs)
        out = st
        for i, x in enumerate(c.args):
            if i + offset < len(names) and isinstance(x, (ast.Name, ast.Subscript)) and names[i + offset] in merged:
                out = self.assign_expr(out, x, merged[names[i + offset]], fn)
            elif i + offset < len(names) and names[i + offset] in merged and out is not None and isinstance(x, ast.Call) and isinstance(x.func, ast.Attribute) \
                    and x.func.attr == "get" and x.args and isinstance(x.args[0], ast.Constant) and not x.keywords \
                    and (len(x.args) == 1 or (len(x.args) == 2 and isinstance(x.args[1], ast.Constant) and x.args[1].value is None)) \
                    and isinstance(x.func.value, (ast.Name, ast.Subscript)) and "None" not in merged[names[i + offset]].atoms:
                # g(d.get("k")) holds and g excludes None: the key is present and d["k"] has what g established
                pres = self.narrow(out, ast.Compare(left=x.args[0], ops=[ast.In()], comparators=[x.func.value]), True, fn)
                if pres is None:
                    return None
                sub = ast.Subscript(value=x.func.value, slice=x.args[0], ctx=ast.Load())
                out = self.assign_expr(pres, sub, merged[names[i + offset]], fn)
        for k in c.keywords:
            if k.arg in merged and isinstance(k.value, (ast.Name, ast.Subscript)):
                out = self.assign_expr(out, k.value, merged[k.arg], fn)
        if pure and pol:
            cur = self.ev(out, c.args[0], fn)
            out = self.assign_expr(out, c.args[0], cur.add_pred(tag), fn)
        return out

    # ------------------------------------------------------------------ statements
    def block(self, stmts, states, fn, ctxt):
        stmts = [x for s_ in stmts for x in self._desugar(s_)]
        live_out = ctxt.get("live_out")
        after = [None] * len(stmts)
        acc = set(live_out) if live_out is not None else None
        for i in range(len(stmts) - 1, -1, -1):
            after[i] = set(acc) if acc is not None else None
            if acc is not None:
                acc |= _reads(stmts[i])
        for i, s in enumerate(stmts):
            nxt = []
            sub = ctxt
            if after[i] is not None:
                sub = _Ctx(ctxt, live_out=after[i])
            for st in states:
                if st is None or st.is_bottom():
                    continue
                nxt.extend(self.stmt(s, st, fn, sub))
            states = self.compact(nxt, after[i])
            if not states:
                break
        return states

    # ---- desugaring of boolean-valued expressions (behaviour-preserving source-to-source step, cached per statement) ----
    # `v = <bool expr>` loses the correlation between v and the facts the expression establishes; all()/any() over a generator hide a
    # loop. Both are rewritten into the if / for-else forms the interpreter is precise on:
    #     v = A and all(P(x) for x in L)   ==>   if A:  for x' in L:  if not P(x'): v = False; break
    #                                                    else: v = True
    #                                            else: v = False
    # Only expressions that provably evaluate to a bool and have no side effects are rewritten.
    def _desugar(self, s):
        cache = self.__dict__.setdefault("_desugar_cache", {})
        k = id(s)
        if k in cache:
            return cache[k][1]
        out = self._desugar_stmt(s)
        cache[k] = (s, out)  # keep s alive so that id() stays unique
        return out

    @staticmethod
    def _has_quant(e):
        return any(isinstance(x, ast.Call) and isinstance(x.func, ast.Name) and x.func.id in ("all", "any") and len(x.args) == 1
                   and isinstance(x.args[0], (ast.GeneratorExp, ast.ListComp)) for x in ast.walk(e))

    @classmethod
    def _boolish(cls, e):
        if isinstance(e, ast.Compare):
            return True
        if isinstance(e, ast.UnaryOp) and isinstance(e.op, ast.Not):
            return True
        if isinstance(e, ast.BoolOp):
            return all(cls._boolish(v) for v in e.values)
        if isinstance(e, ast.Constant) and isinstance(e.value, bool):
            return True
        if isinstance(e, ast.Call) and isinstance(e.func, ast.Name) and e.func.id in ("all", "any", "isinstance", "callable", "hasattr", "bool"):
            return True
        return False

    def _pure(self, e, _depth=0):
        for x in ast.walk(e):
            if isinstance(x, (ast.Await, ast.Yield, ast.YieldFrom, ast.NamedExpr, ast.Lambda)):
                return False
            if isinstance(x, ast.Call):
                f = x.func
                ok = (isinstance(f, ast.Name) and f.id in ("all", "any", "isinstance", "callable", "hasattr", "bool", "type", "len", "str", "int")) or \
                    (isinstance(f, ast.Attribute) and f.attr in ("get", "keys", "values", "items", "match", "fullmatch", "startswith", "endswith", "isdigit"))
                if not ok and isinstance(f, ast.Name) and _depth < 2:
                    # a predicate of the repository itself (local `def` or module-level function) whose body is `return <pure expression>`
                    d = self._pure_defs().get(f.id)
                    ok = d is not None and self._pure(d, _depth + 1)
                if not ok:
                    return False
        return True

    def _pure_defs(self):
        """name -> returned expression, for the single-`return <expr>` functions visible from the function being interpreted (its local defs and
        the functions of its module)"""
        g = getattr(self, "_cur_root", None)
        if g is None:
            return {}
        key = g.qualname
        cache = self.__dict__.setdefault("_pure_defs_cache", {})
        if key not in cache:
            out = {}
            nodes = [n for n in ast.walk(g.node) if isinstance(n, ast.FunctionDef) and n is not g.node]
            nodes += [f_.node for f_ in getattr(g.module, "funcs", {}).values()]
            for n in nodes:
                body = [s_ for s_ in n.body if not (isinstance(s_, ast.Expr) and isinstance(s_.value, ast.Constant))]
                if len(body) == 1 and isinstance(body[0], ast.Return) and body[0].value is not None:
                    out.setdefault(n.name, body[0].value)
            cache[key] = out
        return cache[key]

    def _fresh(self, hint="b"):
        n = self.__dict__.get("_fresh_n", 0) + 1
        self._fresh_n = n
        return f"__sa_{hint}{n}"

    def _set(self, name, value, at):
        return ast.fix_missing_locations(ast.copy_location(ast.Assign(targets=[ast.Name(id=name, ctx=ast.Store())], value=ast.Constant(value=value)), at))

    def _assign_bool(self, name, e, at):
        """Statements that leave `name` bound to bool(e) (e boolish and pure)."""
        if isinstance(e, ast.BoolOp):
            first, rest = e.values[0], e.values[1:]
            rest_e = rest[0] if len(rest) == 1 else ast.BoolOp(op=e.op, values=rest)
            tname, pre = self._as_test(first, at)
            if isinstance(e.op, ast.And):
                node = ast.If(test=tname, body=self._assign_bool(name, rest_e, at), orelse=[self._set(name, False, at)])
            else:
                node = ast.If(test=tname, body=[self._set(name, True, at)], orelse=self._assign_bool(name, rest_e, at))
            return pre + [ast.fix_missing_locations(ast.copy_location(node, at))]
        if isinstance(e, ast.UnaryOp) and isinstance(e.op, ast.Not) and self._has_quant(e.operand) and self._boolish(e.operand):
            t = self._fresh()
            pre = self._assign_bool(t, e.operand, at)
            node = ast.If(test=ast.Name(id=t, ctx=ast.Load()), body=[self._set(name, False, at)], orelse=[self._set(name, True, at)])
            return pre + [ast.fix_missing_locations(ast.copy_location(node, at))]
        if isinstance(e, ast.Call) and isinstance(e.func, ast.Name) and e.func.id in ("all", "any") and len(e.args) == 1 \
                and isinstance(e.args[0], (ast.GeneratorExp, ast.ListComp)) and len(e.args[0].generators) == 1 and not e.args[0].generators[0].is_async:
            g = e.args[0].generators[0]
            is_all = e.func.id == "all"
            ren = {}
            for x in ast.walk(g.target):
                if isinstance(x, ast.Name):
                    ren[x.id] = self._fresh("g_" + x.id + "_")

            class R(ast.NodeTransformer):
                def visit_Name(self_, node):
                    return ast.copy_location(ast.Name(id=ren.get(node.id, node.id), ctx=node.ctx), node)
            import copy
            tgt = R().visit(copy.deepcopy(g.target))
            elt = R().visit(copy.deepcopy(e.args[0].elt))
            conds = [R().visit(copy.deepcopy(c)) for c in g.ifs]
            tname, pre = self._as_test(elt, at)
            hit = [self._set(name, not is_all, at), ast.Break()]
            inner = pre + [ast.If(test=ast.UnaryOp(op=ast.Not(), operand=tname) if is_all else tname, body=hit, orelse=[])]
            for c in reversed(conds):
                inner = [ast.If(test=c, body=inner, orelse=[])]
            loop = ast.For(target=tgt, iter=g.iter, body=inner, orelse=[self._set(name, is_all, at)], type_comment=None)
            return [ast.fix_missing_locations(ast.copy_location(loop, at))]
        node = ast.If(test=e, body=[self._set(name, True, at)], orelse=[self._set(name, False, at)])
        return [ast.fix_missing_locations(ast.copy_location(node, at))]

    def _as_test(self, e, at):
        """(test expression, statements to run first): a test that contains all()/any() is computed into a fresh boolean first."""
        if self._has_quant(e) and self._boolish(e) and self._pure(e):
            t = self._fresh()
            return ast.Name(id=t, ctx=ast.Load()), self._assign_bool(t, e, at)
        return e, []

    def _desugar_stmt(self, s):
        # `x = next((E for T in IT if C), D)`  ==>  x = D; for T' in IT: if C': x = E'; break       (the first element of the generator, or the default)
        if isinstance(s, ast.Assign) and len(s.targets) == 1 and isinstance(s.targets[0], ast.Name) and isinstance(s.value, ast.Call) and isinstance(s.value.func, ast.Name) \
                and s.value.func.id == "next" and len(s.value.args) == 2 and not s.value.keywords and isinstance(s.value.args[0], ast.GeneratorExp) \
                and len(s.value.args[0].generators) == 1 and not s.value.args[0].generators[0].is_async:
            import copy
            ge = s.value.args[0]
            g = ge.generators[0]
            ren = {x.id: self._fresh("g_" + x.id + "_") for x in ast.walk(g.target) if isinstance(x, ast.Name)}

            class R(ast.NodeTransformer):
                def visit_Name(self_, node):
                    return ast.copy_location(ast.Name(id=ren.get(node.id, node.id), ctx=node.ctx), node)
            tgt = R().visit(copy.deepcopy(g.target))
            elt = R().visit(copy.deepcopy(ge.elt))
            conds = [R().visit(copy.deepcopy(c)) for c in g.ifs]
            name = s.targets[0].id
            inner = [ast.Assign(targets=[ast.Name(id=name, ctx=ast.Store())], value=elt, type_comment=None), ast.Break()]
            for c in reversed(conds):
                inner = [ast.If(test=c, body=inner, orelse=[])]
            first = ast.Assign(targets=[ast.Name(id=name, ctx=ast.Store())], value=s.value.args[1], type_comment=None)
            loop = ast.For(target=tgt, iter=g.iter, body=inner, orelse=[], type_comment=None)
            out = [ast.fix_missing_locations(ast.copy_location(first, s)), ast.fix_missing_locations(ast.copy_location(loop, s))]
            return [y for x in out for y in self._desugar_stmt(x)]
        if isinstance(s, ast.Assign) and len(s.targets) == 1 and isinstance(s.targets[0], ast.Name) and self._pure(s.value) and self._boolish(s.value) \
                and not (isinstance(s.value, ast.Constant)) and (self._has_quant(s.value) or isinstance(s.value, (ast.BoolOp, ast.Compare, ast.UnaryOp))):
            return self._assign_bool(s.targets[0].id, s.value, s)
        if isinstance(s, (ast.If, ast.Assert)) and self._has_quant(s.test) and self._boolish(s.test) and self._pure(s.test):
            t, pre = self._as_test(s.test, s)
            import copy
            s2 = copy.copy(s)
            s2.test = t
            return pre + [s2]
        if isinstance(s, ast.Return) and s.value is not None and self._has_quant(s.value) and self._boolish(s.value) and self._pure(s.value):
            t, pre = self._as_test(s.value, s)
            return pre + [ast.fix_missing_locations(ast.copy_location(ast.Return(value=t), s))]
        return [s]

    def compact(self, states, live):
        states = [s for s in states if s is not None and not s.is_bottom()]
        if len(states) <= 1:
            return states

        def sig(s, k):
            v = s.get(k)
            if isinstance(v, AV) and v.atoms and v.atoms <= {"dict", "dict0", "list", "list0"}:
                # containers that only differ in what is known about individual keys are merged by join
                # ... but an EMPTY container and a possibly non-empty one are different values: merging `{list0}, valid=True` with `{list}, valid=False` as
                # "differing in valid only" would invent the state `non-empty unvalidated list, valid=True`
                return ("container", "dict" if v.atoms <= {"dict", "dict0"} else "list" if v.atoms <= {"list", "list0"} else "mixed", tuple(sorted(v.atoms)),
                        v.keys_str, repr(v.elem), repr(v.kelem))
            return repr(v)

        merged = []
        for s in states:
            placed = False
            for i, m in enumerate(merged):
                keys = set(s) | set(m)
                if live is not None:
                    keys = {k for k in keys if k in live or (k.startswith("@len:") and k[5:] in live)}
                diff = [k for k in keys if sig(s, k) != sig(m, k)]
                if len(diff) <= 1:
                    merged[i] = join_states(m, s)
                    placed = True
                    break
            if not placed:
                merged.append(s)
        if len(merged) > self.max_disjuncts:
            out = None
            for s in merged:
                out = join_states(out, s)
            self.stats["overflow_joins"] = self.stats.get("overflow_joins", 0) + 1
            return [out]
        return merged

    def stmt(self, s, st, fn, ctxt):
        self.stats["stmts"] += 1
        if isinstance(s, ast.Expr):
            if isinstance(s.value, ast.Constant):
                return [st]
            self._pending_narrow = None
            self.ev(st, s.value, fn)
            st = self._apply_pending(st, s.value, fn)
            return [st] if st is not None else []
        if isinstance(s, ast.Assign):
            self._pending_narrow = None
            v = self.ev(st, s.value, fn)
            st = self._apply_pending(st, s.value, fn)
            if st is None:
                return []
            out = st
            for t in s.targets:
                out = self.store(out, t, v, fn, s.value)
            return [out]
        if isinstance(s, ast.AnnAssign):
            if s.value is None:
                return [st]
            return [self.store(st, s.target, self.ev(st, s.value, fn), fn, s.value)]
        if isinstance(s, ast.AugAssign):
            v = self.ev(st, ast.BinOp(left=_load(s.target), op=s.op, right=s.value), fn)
            return [self.store(st, s.target, v, fn, None)]
        if isinstance(s, ast.If):
            ts = self.narrow_multi(st, s.test, True, fn)
            fs = self.narrow_multi(st, s.test, False, fn)
            outs = []
            if ts:
                outs += self.block(s.body, ts, fn, ctxt)
            if fs:
                outs += self.block(s.orelse, fs, fn, ctxt) if s.orelse else fs
            return outs
        if isinstance(s, ast.Raise):
            exc = "Exception"
            if s.exc is not None:
                e = s.exc.func if isinstance(s.exc, ast.Call) else s.exc
                exc = (dotted_name(e) or "Exception").split(".")[-1]
                if isinstance(s.exc, ast.Call):
                    self._ev_args(st, s.exc, fn)
            self.raise_(exc, fn, s)
            return []
        if isinstance(s, ast.Return):
            if "cond_pol" in ctxt and ctxt["fn"] is fn:
                if s.value is None:
                    if ctxt["cond_pol"] is False:
                        ctxt["cond_states"].append(st)
                else:
                    r = self.narrow(st, s.value, ctxt["cond_pol"], fn)
                    if r is not None and not r.is_bottom():
                        ctxt["cond_states"].append(r)
                return []
            ctxt["returns"].append(self.ev(st, s.value, fn) if s.value is not None else AV({"None"}))
            if ctxt.get("ret_states") is not None and ctxt.get("fn") is fn:
                ctxt["ret_states"].append(st)
            return []
        if isinstance(s, ast.Assert):
            if ctxt.get("check_asserts"):
                self.stats["asserts"] += 1
                bads = self.narrow_multi(st, s.test, False, fn)
                bad = bads[0] if bads else None
                if bad is not None and not bad.is_bottom():
                    wit = {k: v.describe() for k, v in bad.items() if isinstance(v, AV) and k in norm.mentions_of(s.test) and k not in ("self",)}
                    self.findings.append(Finding("assert", fn, s, "assertion can fail: " + " ".join(ast.unparse(s.test).split())[:140], wit))
            ok = self.narrow(st, s.test, True, fn)
            return [ok] if ok is not None else []
        if isinstance(s, ast.Pass):
            return [st]
        if isinstance(s, (ast.For,)):
            return self.for_loop(s, st, fn, ctxt)
        if isinstance(s, ast.Break):
            ctxt["breaks"].append(st)
            return []
        if isinstance(s, ast.Continue):
            ctxt["continues"].append(st)
            return []
        if isinstance(s, ast.Try):
            # body outcomes plus handler bodies entered from the state before the body (sound: body may fail anywhere)
            inner_raised = len(self.raised)
            inner_findings = len(self.findings)
            outs = self.block(s.body, [st], fn, ctxt)
            caught_types = []
            for h in s.handlers:
                ts = [None] if h.type is None else [dotted_name(t) for t in (h.type.elts if isinstance(h.type, ast.Tuple) else [h.type])]
                caught_types += ts
            # exceptions raised inside the body that a handler catches are not escapes
            def caught(exc):
                return any(t is None or t in ("Exception", "BaseException") or t.split(".")[-1] == exc for t in caught_types)
            self.findings[inner_findings:] = [f for f in self.findings[inner_findings:] if not (f.kind.startswith(("raise:", "escape:")) and caught(f.kind.split(":")[1]))]
            for h in s.handlers:
                hs = st.copy()
                if h.name:
                    hs[h.name] = AV({"other"})
                outs += self.block(h.body, [hs], fn, ctxt)
            if s.orelse:
                outs = self.block(s.orelse, outs, fn, ctxt)
            if s.finalbody:
                outs = self.block(s.finalbody, outs, fn, ctxt)
            return outs
        if isinstance(s, (ast.FunctionDef, ast.ClassDef, ast.Import, ast.ImportFrom, ast.Global, ast.Nonlocal)):
            return [st]
        if isinstance(s, ast.Delete):
            return [st]
        raise AnalysisError(f"{fn.qualname}: statement {type(s).__name__} at line {s.lineno} outside the modelled subset")

    def _apply_pending(self, st, value_expr, fn):
        """After `x = f(a)` / `f(a)` with f a repository function: a normal return implies f's checks on `a` passed."""
        pn = getattr(self, "_pending_narrow", None)
        self._pending_narrow = None
        if not isinstance(value_expr, ast.Call) or pn is None:
            return st
        if pn == "bottom":
            return None  # the callee never returns normally on this path
        for loc, val in pn:
            if val.bottom():
                return None
            st = self.assign_expr(st, loc, val, fn)
        return st

    def store(self, st, t, v, fn, src):
        if isinstance(t, ast.Name):
            s = st.copy()
            s[t.id] = v
            # aliasing a tracked list keeps its length knowledge
            if isinstance(src, ast.Name) and f"@len:{src.id}" in st:
                s[f"@len:{t.id}"] = st[f"@len:{src.id}"]
            return s
        if isinstance(t, ast.Attribute):
            return st
        if isinstance(t, ast.Subscript):
            base = self.ev(st, t.value, fn)
            nb = base.copy(atoms=(base.atoms - {"dict0", "list0"}) | ({"dict"} if base.atoms & {"dict0", "dict"} else set()) | ({"list"} if base.atoms & {"list0", "list"} else set()))
            if isinstance(t.slice, ast.Constant):
                fl = dict(nb.fields)
                fl[t.slice.value] = ("yes", v)
                nb = nb.copy(fields=fl)
            else:
                kv = self.ev(st, t.slice, fn)
                if not kv.atoms <= {"str", "str0"}:
                    nb = nb.copy(keys_str=False)
                was_empty = not (base.atoms & {"dict", "list"})
                nb = nb.copy(kelem=kv if (was_empty or base.kelem is None and not base.fields and was_empty) else (join(base.kelem, kv) if base.kelem is not None else None),
                             elem=v if was_empty else (join(base.elem, v) if base.elem is not None else None))
            return self.assign_expr(st, t.value, nb, fn) if isinstance(t.value, ast.Name) else st
        if isinstance(t, (ast.Tuple, ast.List)):
            s = st
            for x in t.elts:
                s = self.store(s, x, TOP(), fn, None)
            return s
        raise AnalysisError(f"{fn.qualname}: store to {ast.unparse(t)} outside the modelled subset")

    def for_loop(self, s, st, fn, ctxt):
        it = self.ev(st, s.iter, fn)
        if it.atoms - {"list0", "list", "dict0", "dict", "tuple", "str", "str0", "other"}:
            bad = it.atoms - {"list0", "list", "dict0", "dict", "tuple", "str", "str0", "other"}
            if bad - {"None"} or "None" in bad:
                self.escape("TypeError", fn, s.iter, f"iteration over {it.only(bad).describe()}")
        may_be_empty = bool(it.atoms & {"list0", "dict0", "str0", "tuple", "other"})
        may_iterate = bool(it.atoms & {"list", "dict", "tuple", "str", "other"})
        outs = []
        keysrc0 = s.iter.func.value if (isinstance(s.iter, ast.Call) and isinstance(s.iter.func, ast.Attribute) and s.iter.func.attr in ("keys", "items", "values")
                                       and isinstance(s.iter.func.value, (ast.Name, ast.Subscript))) else None
        if may_be_empty:
            zero = st
            if isinstance(s.iter, ast.Name):
                zero = self.assign_expr(st, s.iter, it.only(it.atoms & {"list0", "dict0", "str0", "tuple", "other"}), fn)
            elif keysrc0 is not None:
                # no keys <=> the dict is empty (vacuously all keys are str)
                src = self.ev(st, keysrc0, fn)
                emp = src.only({"dict0", "other"})
                zero = None if emp.bottom() else self.assign_expr(st, keysrc0, emp.copy(keys_str=True), fn)
            if zero is not None:
                outs += self.block(s.orelse, [zero], fn, ctxt) if s.orelse else [zero]
        if may_iterate:
            if it.atoms & {"dict", "dict0"} and not it.atoms & {"list", "list0"}:
                elem = AV({"str", "str0"}) if it.keys_str else TOP()
                if it.kelem is not None:
                    elem = it.kelem
                if it.fields and all(isinstance(k, str) for k in it.fields) and "constdict" in it.tags:
                    elem = AV({"str"}, vals=frozenset(it.fields))
            else:
                elem = it.elem if it.elem is not None else TOP()
            body_st = st.copy()
            if isinstance(s.iter, ast.Name):
                body_st = self.assign_expr(body_st, s.iter, it.only(it.atoms - {"list0", "dict0", "str0"}), fn)
            body_st = self.store(body_st, s.target, elem, fn, None)
            loop_live = (set(ctxt.get("live_out")) | _reads(s)) if ctxt.get("live_out") is not None else None
            sub = _Ctx(ctxt, breaks=[], continues=[], live_out=loop_live)
            ends = self.block(s.body, [body_st], fn, sub)
            normal = None
            for e_ in ends + sub["continues"]:
                normal = join_states(normal, e_)
            # later iterations start from the state the previous one left: iterate to a (small) fixpoint
            rounds = 0
            while normal is not None and rounds < 3:
                rounds += 1
                again = self.store(normal.copy(), s.target, elem, fn, None)
                sub2 = _Ctx(ctxt, breaks=[], continues=[], live_out=loop_live)
                ends2 = self.block(s.body, [again], fn, sub2)
                nxt = normal
                for e_ in ends2 + sub2["continues"]:
                    nxt = join_states(nxt, e_)
                sub["breaks"] = sub["breaks"] + sub2["breaks"]
                if repr(sorted((k, repr(v)) for k, v in nxt.items())) == repr(sorted((k, repr(v)) for k, v in normal.items())):
                    break
                normal = nxt
            if normal is not None:
                done = normal
                keysrc = s.iter.func.value if (isinstance(s.iter, ast.Call) and isinstance(s.iter.func, ast.Attribute) and s.iter.func.attr == "keys") else \
                    (s.iter if (it.atoms & {"dict", "dict0"} and not it.atoms & {"list", "list0"}) else None)
                if keysrc is not None and isinstance(keysrc, (ast.Name, ast.Subscript)) and isinstance(s.target, ast.Name) and s.target.id in normal \
                        and normal[s.target.id].atoms <= {"str", "str0"}:
                    cur = self.ev(done, keysrc, fn)
                    done = self.assign_expr(done, keysrc, cur.copy(keys_str=True), fn)
                if isinstance(s.target, ast.Name) and isinstance(s.iter, ast.Name) and s.target.id in normal and it.atoms & {"list", "list0"}:
                    # completed all iterations: every element survived the body -> element summary = the loop variable's final value
                    cur = self.ev(done, s.iter, fn)
                    done = self.assign_expr(done, s.iter, cur.copy(elem=normal[s.target.id]), fn)
                outs += self.block(s.orelse, [done], fn, ctxt) if s.orelse else [done]
            for b in sub["breaks"]:
                # left early: the elements after (and including) the current one were not checked -> element summary stays as on entry
                bs = b.copy()
                if isinstance(s.iter, ast.Name):
                    bs = self.assign_expr(bs, s.iter, it.only(it.atoms - {"list0", "dict0", "str0"}), fn)
                outs.append(bs)
        return outs


class _Ctx(dict):
    """Child context sharing the accumulators of its parent but with its own live_out."""

    def __init__(self, parent, **over):
        dict.__init__(self)
        self.parent = parent
        self.over = over

    def __getitem__(self, k):
        if k in self.over:
            return self.over[k]
        return self.parent[k]

    def get(self, k, d=None):
        if k in self.over:
            return self.over[k]
        return self.parent.get(k, d)

    def __contains__(self, k):
        return k in self.over or k in self.parent

    def __setitem__(self, k, v):
        if k in self.over:
            self.over[k] = v
        else:
            self.parent[k] = v

    def setdefault(self, k, d=None):
        if k in self:
            return self[k]
        self[k] = d
        return d


def _reads(node):
    out = set()
    for x in ast.walk(node):
        if isinstance(x, ast.Name) and isinstance(x.ctx, ast.Load):
            out.add(x.id)
    return out


def _load(t):
    import copy
    n = copy.deepcopy(t)
    for x in ast.walk(n):
        if hasattr(x, "ctx"):
            x.ctx = ast.Load()
    return n
