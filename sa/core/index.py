"""Program index: parse /repo/src/autobahn, classes, MRO, constants, callee resolution.

Static only: nothing is imported or executed from the analysed tree.
"""
import ast
import hashlib
import os

REPO = os.environ.get("VERIF_REPO", "/repo")
SRC = os.path.join(REPO, "src")
PKG = "autobahn"


class AnalysisError(Exception):
    """The checker is blind: an anchor vanished or a construct is outside the modelled subset."""


class FuncInfo:
    def __init__(self, module, cls, node, parent=None):
        self.module = module
        self.cls = cls  # ClassInfo or None
        self.node = node
        self.parent = parent  # enclosing FuncInfo for closures
        self.name = node.name
        self._nested = None

    @property
    def qualname(self):
        if self.parent is not None:
            return self.parent.qualname + ".<locals>." + self.name
        if self.cls is not None:
            return f"{self.cls.qualname}.{self.name}"
        return f"{self.module.name}.{self.name}"

    @property
    def path(self):
        return self.module.relpath

    def loc(self, node=None):
        n = node if node is not None else self.node
        return f"{self.module.relpath}:{getattr(n, 'lineno', self.node.lineno)}"

    def nested_list(self):
        """All closures defined (at any depth, not crossing further defs) in this function, in source order."""
        if self._nested is None:
            out = []
            for n in walk_no_defs(self.node, include_defs=True):
                if isinstance(n, (ast.FunctionDef, ast.AsyncFunctionDef)) and n is not self.node:
                    out.append(FuncInfo(self.module, self.cls, n, parent=self))
            out.sort(key=lambda f: f.node.lineno)
            self._nested = out
        return self._nested

    def nested(self):
        """name -> closure (the first definition of that name; use nested_list() when names repeat)."""
        out = {}
        for f in self.nested_list():
            out.setdefault(f.name, f)
        return out

    def params(self):
        a = self.node.args
        return [x.arg for x in a.posonlyargs + a.args]

    def __repr__(self):
        return f"<Func {self.qualname}>"


class ClassInfo:
    def __init__(self, module, node):
        self.module = module
        self.node = node
        self.name = node.name
        self.qualname = f"{module.name}.{node.name}"
        self.methods = {}
        self.consts = {}  # name -> ast expr (class-level simple assignments)
        self.base_exprs = list(node.bases)
        for st in node.body:
            if isinstance(st, (ast.FunctionDef, ast.AsyncFunctionDef)):
                # keep the last definition, like Python does (property setters overwrite)
                self.methods[st.name] = FuncInfo(module, self, st)
            elif isinstance(st, ast.Assign):
                for t in st.targets:
                    if isinstance(t, ast.Name):
                        self.consts[t.id] = st.value
            elif isinstance(st, ast.AnnAssign) and isinstance(st.target, ast.Name) and st.value is not None:
                self.consts[st.target.id] = st.value

    def loc(self, node=None):
        n = node if node is not None else self.node
        return f"{self.module.relpath}:{n.lineno}"

    def __repr__(self):
        return f"<Class {self.qualname}>"


def _names_loaded(node, name):
    return sum(1 for x in ast.walk(node) if isinstance(x, ast.Name) and x.id == name)


def _in_nested_scope(fn, name):
    """is `name` mentioned inside a nested def / lambda / class of fn (a closure could observe the binding)"""
    for n in ast.walk(fn):
        if n is not fn and isinstance(n, (ast.FunctionDef, ast.AsyncFunctionDef, ast.Lambda, ast.ClassDef)):
            if any(isinstance(x, ast.Name) and x.id == name for x in ast.walk(n)):
                return True
        if isinstance(n, (ast.Global, ast.Nonlocal)) and name in n.names:
            return True
    return False


_MIRROR = {ast.Lt: ast.Gt, ast.Gt: ast.Lt, ast.LtE: ast.GtE, ast.GtE: ast.LtE, ast.Eq: ast.Eq, ast.NotEq: ast.NotEq}


def _constant_like(e):
    if isinstance(e, ast.Constant):
        return True
    if isinstance(e, ast.UnaryOp) and isinstance(e.op, ast.USub) and isinstance(e.operand, ast.Constant):
        return True
    last = e.attr if isinstance(e, ast.Attribute) else (e.id if isinstance(e, ast.Name) else None)
    return last is not None and last.isupper() and len(last) > 1 and all(isinstance(x, (ast.Attribute, ast.Name)) for x in ast.walk(e) if isinstance(x, ast.expr) and not isinstance(x, ast.expr_context))


def _canon_exprs(tree):
    """`CONST <op> x` -> `x <mirrored op> CONST` (one comparison, constant-like left operand, plain right operand: both are pure reads);
    `T = T <op> K` with K a literal -> `T <op>= K` (with a literal operand T is a number / str / bytes: rebinding and in-place update coincide)"""
    for n in ast.walk(tree):
        if isinstance(n, ast.Compare) and len(n.ops) == 1 and type(n.ops[0]) in _MIRROR and _constant_like(n.left) and not _constant_like(n.comparators[0]) \
                and not any(isinstance(x, (ast.Call, ast.Await, ast.NamedExpr, ast.Yield, ast.YieldFrom)) for x in ast.walk(n.comparators[0])):
            n.left, n.comparators[0] = n.comparators[0], n.left
            n.ops[0] = _MIRROR[type(n.ops[0])]()


def canonicalize(tree):
    """Behaviour-preserving normalisation of a parsed module, applied before any rule looks at it, so that the rules see ONE spelling of
    constructs that maintainers move between freely.  Each step is an identity of Python's semantics (no call is added, removed or
    reordered; positions of the surviving nodes are kept):
      * `if not C: A else: B`            -> `if C: B else: A`
      * `t = E; return t` (t used nowhere else in the function) -> `return E`
      * `if A and B: X` without else -> `if A: (if B: X)`
      * `if (x := E) ...:` -> `x = E; if x ...:` when the walrus is the first thing the test evaluates
      * `x = E1 if C else E2` as a statement (one Name / attribute target)          -> `if C: x = E1 else: x = E2`
      * `t = <comparison / boolean expr>; if t ...:` (t bound once, read once, there) -> `if <expr> ...:`
      * `if not A or not B: Y else: X` -> `if A and B: X else: Y`
      * `a, b = X, Y` (plain locals, Y does not read a) -> `a = X; b = Y`
    """
    def fix_blocks(owner_fn, node):
        for fld in ("body", "orelse", "finalbody"):
            blk = getattr(node, fld, None)
            if isinstance(blk, list) and blk and isinstance(blk[0], ast.stmt):
                setattr(node, fld, fix_block(owner_fn, blk))
        if isinstance(node, ast.Try):
            for h in node.handlers:
                h.body = fix_block(owner_fn, h.body)
        if hasattr(ast, "Match") and isinstance(node, ast.Match):
            for c in node.cases:
                c.body = fix_block(owner_fn, c.body)

    def split_parallel(owner_fn, blk):
        """a, b = X, Y  ->  a = X; b = Y   when that is the same program: plain local names as targets, no later value mentions an earlier target, and
        (when a value contains a call) no target is visible to a nested scope that the call could run"""
        out = []
        for st in blk:
            if isinstance(st, ast.Assign) and len(st.targets) == 1 and isinstance(st.targets[0], ast.Tuple) and isinstance(st.value, ast.Tuple) and \
                    len(st.targets[0].elts) == len(st.value.elts) >= 2 and all(isinstance(t, ast.Name) for t in st.targets[0].elts) and \
                    not any(isinstance(v, ast.Starred) for v in st.value.elts):
                names = [t.id for t in st.targets[0].elts]
                later_reads = any(isinstance(x, ast.Name) and x.id in names[:j] for j, v in enumerate(st.value.elts) for x in ast.walk(v))
                has_call = any(isinstance(x, (ast.Call, ast.Await, ast.Yield, ast.YieldFrom, ast.NamedExpr)) for v in st.value.elts for x in ast.walk(v))
                nested = owner_fn is None or (has_call and any(_in_nested_scope(owner_fn, n_) for n_ in names))
                if len(set(names)) == len(names) and not later_reads and not nested:
                    for t, v in zip(st.targets[0].elts, st.value.elts):
                        out.append(ast.copy_location(ast.Assign(targets=[t], value=v, type_comment=None), v))
                    continue
            out.append(st)
        return out

    def fix_block(owner_fn, blk):
        out = []
        blk = split_parallel(owner_fn, blk)
        for st in blk:
            fn_here = st if isinstance(st, (ast.FunctionDef, ast.AsyncFunctionDef)) else owner_fn
            if isinstance(st, (ast.FunctionDef, ast.AsyncFunctionDef, ast.ClassDef)):
                fix_blocks(fn_here if not isinstance(st, ast.ClassDef) else None, st)
                out.append(st)
                continue
            fix_blocks(owner_fn, st)
            if isinstance(st, ast.If) and out and owner_fn is not None:
                # t = E; if t <rest>: ..  ->  if E <rest>: ..   (a named boolean: t is bound once, read once -- as the first thing this test evaluates -- and
                # not visible to a nested scope; E is evaluated at the same point either way)
                prev = out[-1]
                if isinstance(prev, ast.Assign) and len(prev.targets) == 1 and isinstance(prev.targets[0], ast.Name) and isinstance(prev.value, (ast.Compare, ast.BoolOp, ast.UnaryOp)):
                    nm = prev.targets[0].id
                    cur, par, fld = st.test, st, "test"
                    for _ in range(4):
                        if isinstance(cur, ast.BoolOp):
                            par, fld, cur = cur, 0, cur.values[0]
                        elif isinstance(cur, ast.UnaryOp) and isinstance(cur.op, ast.Not):
                            par, fld, cur = cur, "operand", cur.operand
                        else:
                            break
                    if isinstance(cur, ast.Name) and cur.id == nm and _names_loaded(owner_fn, nm) == 2 and not _in_nested_scope(owner_fn, nm) \
                            and nm not in {a_.arg for a_ in owner_fn.args.posonlyargs + owner_fn.args.args + owner_fn.args.kwonlyargs}:
                        if fld == 0:
                            par.values[0] = prev.value
                        else:
                            setattr(par, fld, prev.value)
                        out.pop()
            if isinstance(st, ast.If):
                # if (x := E) <rest>: ..  ->  x = E; if x <rest>: ..   (the walrus is the first thing the test evaluates)
                holder, field = None, None
                cur, fld, par = st.test, "test", st
                for _ in range(6):
                    if isinstance(cur, ast.NamedExpr):
                        holder, field = par, fld
                        break
                    if isinstance(cur, ast.Compare):
                        par, fld, cur = cur, "left", cur.left
                    elif isinstance(cur, ast.BoolOp):
                        par, fld, cur = cur, 0, cur.values[0]
                    elif isinstance(cur, ast.UnaryOp) and isinstance(cur.op, ast.Not):
                        par, fld, cur = cur, "operand", cur.operand
                    else:
                        break
                if holder is not None and isinstance(cur.target, ast.Name):
                    pre = ast.copy_location(ast.Assign(targets=[ast.Name(id=cur.target.id, ctx=ast.Store())], value=cur.value, type_comment=None), cur)
                    repl = ast.copy_location(ast.Name(id=cur.target.id, ctx=ast.Load()), cur)
                    if field == 0:
                        holder.values[0] = repl
                    else:
                        setattr(holder, field, repl)
                    out.append(pre)
                # if not C: A else: B  ->  if C: B else: A
                if st.orelse and isinstance(st.test, ast.UnaryOp) and isinstance(st.test.op, ast.Not):
                    st.test = st.test.operand
                    st.body, st.orelse = st.orelse, st.body
                # if not A or not B: Y else: X  ->  if A and B: X else: Y     (De Morgan; every operand negated)
                if st.orelse and isinstance(st.test, ast.BoolOp) and isinstance(st.test.op, ast.Or) and \
                        all(isinstance(v, ast.UnaryOp) and isinstance(v.op, ast.Not) for v in st.test.values):
                    st.test = ast.copy_location(ast.BoolOp(op=ast.And(), values=[v.operand for v in st.test.values]), st.test)
                    st.body, st.orelse = st.orelse, st.body
                # if A and B: X (no else)  ->  if A: (if B: X)      [one test per condition: the CFG rules see each of them]
                if not st.orelse and isinstance(st.test, ast.BoolOp) and isinstance(st.test.op, ast.And) and len(st.test.values) >= 2:
                    vals = st.test.values
                    inner_body = st.body
                    for v in reversed(vals[1:]):
                        inner_body = [ast.copy_location(ast.If(test=v, body=inner_body, orelse=[]), v)]
                    st.test = vals[0]
                    st.body = inner_body
            if isinstance(st, ast.Assign) and len(st.targets) == 1 and isinstance(st.value, ast.IfExp) and \
                    (isinstance(st.targets[0], ast.Name) or (isinstance(st.targets[0], ast.Attribute) and isinstance(st.targets[0].value, ast.Name))):
                import copy
                t2 = copy.deepcopy(st.targets[0])
                a1 = ast.copy_location(ast.Assign(targets=[st.targets[0]], value=st.value.body, type_comment=None), st.value.body)
                a2 = ast.copy_location(ast.Assign(targets=[t2], value=st.value.orelse, type_comment=None), st.value.orelse)
                st = ast.copy_location(ast.If(test=st.value.test, body=[a1], orelse=[a2]), st)
                fix_blocks(owner_fn, st)
            if isinstance(st, ast.Assign) and len(st.targets) == 1 and isinstance(st.value, ast.BinOp) and isinstance(st.value.right, (ast.Constant, ast.JoinedStr)) and \
                    (isinstance(st.targets[0], ast.Name) or (isinstance(st.targets[0], ast.Attribute) and isinstance(st.targets[0].value, ast.Name))) and \
                    ast.dump(st.value.left).replace("Load()", "X").replace("Store()", "X") == ast.dump(st.targets[0]).replace("Load()", "X").replace("Store()", "X"):
                st = ast.copy_location(ast.AugAssign(target=st.targets[0], op=st.value.op, value=st.value.right), st)
            if isinstance(st, ast.Return) and isinstance(st.value, ast.Name) and out and owner_fn is not None:
                prev = out[-1]
                nm = st.value.id
                if isinstance(prev, ast.Assign) and len(prev.targets) == 1 and isinstance(prev.targets[0], ast.Name) and prev.targets[0].id == nm \
                        and _names_loaded(prev.value, nm) == 0 and not _in_nested_scope(owner_fn, nm):
                    out.pop()
                    st = ast.copy_location(ast.Return(value=prev.value), st)
            out.append(st)
        return out
    fix_blocks(None, tree)
    _canon_exprs(tree)
    ast.fix_missing_locations(tree)
    return tree


class Module:
    def __init__(self, name, path, relpath, source):
        self.name = name
        self.path = path
        self.relpath = relpath
        self.source = source
        self.tree = ast.parse(source, filename=path)
        if os.environ.get("VERIF_NO_CANON") != "1":
            canonicalize(self.tree)
        self.classes = {}
        self.funcs = {}
        self.consts = {}
        self.imports = {}  # local name -> dotted target ("autobahn.x.Y" or "struct")
        self._scan()
        try:
            from .tiny import NODE_MODULE, NODE_CLASS
            for n_ in ast.walk(self.tree):
                if isinstance(n_, ast.stmt):
                    NODE_MODULE[id(n_)] = self
            cdefs = {c_.name: c_ for c_ in ast.walk(self.tree) if isinstance(c_, ast.ClassDef)}
            for c_ in cdefs.values():
                chain, todo = [], [c_]
                while todo and len(chain) < 8:
                    k_ = todo.pop(0)
                    if k_ in chain:
                        continue
                    chain.append(k_)
                    todo += [cdefs[b_.id] for b_ in k_.bases if isinstance(b_, ast.Name) and b_.id in cdefs]
                for n_ in ast.walk(c_):
                    if isinstance(n_, ast.stmt) and n_ is not c_:
                        NODE_CLASS.setdefault(id(n_), chain)
        except ImportError:
            pass

    def _scan(self):
        def scan_body(body):
            for st in body:
                if isinstance(st, ast.ClassDef):
                    self.classes[st.name] = ClassInfo(self, st)
                elif isinstance(st, (ast.FunctionDef, ast.AsyncFunctionDef)):
                    self.funcs[st.name] = FuncInfo(self, None, st)
                elif isinstance(st, ast.Assign):
                    for t in st.targets:
                        if isinstance(t, ast.Name):
                            self.consts[t.id] = st.value
                        elif isinstance(t, ast.Tuple) and isinstance(st.value, ast.Tuple) and len(t.elts) == len(st.value.elts):
                            for t2, v2 in zip(t.elts, st.value.elts):   # A, B = "a", "b"
                                if isinstance(t2, ast.Name):
                                    self.consts[t2.id] = v2
                elif isinstance(st, ast.AnnAssign) and isinstance(st.target, ast.Name) and st.value is not None:
                    self.consts[st.target.id] = st.value
                elif isinstance(st, ast.Import):
                    for a in st.names:
                        if a.asname:
                            self.imports[a.asname] = a.name
                        else:
                            self.imports[a.name.split(".")[0]] = a.name.split(".")[0]
                elif isinstance(st, ast.ImportFrom):
                    base = st.module or ""
                    if st.level:
                        parts = self.name.split(".")
                        # a package __init__ counts as the package itself
                        if not self.path.endswith("__init__.py"):
                            parts = parts[:-1]
                        up = st.level - 1
                        anchor = parts[: len(parts) - up] if up else parts
                        base = ".".join(anchor + ([st.module] if st.module else []))
                    for a in st.names:
                        self.imports[a.asname or a.name] = f"{base}.{a.name}"
                elif isinstance(st, (ast.If, ast.Try)):
                    # conditional imports / definitions at module level
                    for sub in ("body", "orelse", "finalbody"):
                        scan_body(getattr(st, sub, []) or [])
                    for h in getattr(st, "handlers", []) or []:
                        scan_body(h.body)

        scan_body(self.tree.body)


def walk_no_defs(node, include_defs=False):
    """ast.walk that does not descend into nested function/class/lambda bodies.

    With include_defs the nested def nodes themselves are yielded (but not entered).
    """
    stack = list(ast.iter_child_nodes(node))
    while stack:
        n = stack.pop()
        if isinstance(n, (ast.FunctionDef, ast.AsyncFunctionDef, ast.ClassDef, ast.Lambda)):
            if include_defs:
                yield n
            continue
        yield n
        stack.extend(ast.iter_child_nodes(n))


class Program:
    def __init__(self, src=SRC, pkg=PKG):
        self.src = src
        self.modules = {}
        self.digest = hashlib.sha256()
        root = os.path.join(src, pkg)
        if not os.path.isdir(root):
            raise AnalysisError(f"source tree {root} not found")
        for dp, dn, fn in os.walk(root):
            dn.sort()
            for f in sorted(fn):
                if not f.endswith(".py"):
                    continue
                p = os.path.join(dp, f)
                rel = os.path.relpath(p, src)
                name = rel[:-3].replace(os.sep, ".")
                if name.endswith(".__init__"):
                    name = name[: -len(".__init__")]
                with open(p, "rb") as fh:
                    raw = fh.read()
                self.digest.update(raw)
                try:
                    self.modules[name] = Module(name, p, os.path.join("src", rel), raw.decode("utf8"))
                except SyntaxError as e:
                    raise AnalysisError(f"cannot parse {rel}: {e}")
        self._mro = {}
        self._subclasses = None

    # ---- lookup -----------------------------------------------------------------
    def module(self, name):
        m = self.modules.get(name)
        if m is None:
            raise AnalysisError(f"anchor module {name} not found")
        return m

    def cls(self, qual):
        mod, _, cn = qual.rpartition(".")
        c = self.module(mod).classes.get(cn)
        if c is None:
            raise AnalysisError(f"anchor class {qual} not found")
        return c

    def func(self, qual):
        """'pkg.mod.func', 'pkg.mod.Class.method' or '...method.<locals>.closure'."""
        if ".<locals>." in qual:
            outer, _, inner = qual.partition(".<locals>.")
            f = self.func(outer)
            for part in inner.split(".<locals>."):
                nf = f.nested().get(part)
                if nf is None:
                    raise AnalysisError(f"anchor closure {qual} not found")
                f = nf
            return f
        head, _, last = qual.rpartition(".")
        if head in self.modules:
            f = self.modules[head].funcs.get(last)
            if f is None:
                raise AnalysisError(f"anchor function {qual} not found")
            return f
        mod, _, cn = head.rpartition(".")
        if mod in self.modules and cn in self.modules[mod].classes:
            f = self.modules[mod].classes[cn].methods.get(last)
            if f is None:
                raise AnalysisError(f"anchor method {qual} not found")
            return f
        raise AnalysisError(f"anchor {qual} not found")

    def has_func(self, qual):
        try:
            self.func(qual)
            return True
        except AnalysisError:
            return False

    # ---- names ------------------------------------------------------------------
    def resolve_name(self, module, expr):
        """Resolve a Name/Attribute expression used in `module` to a ClassInfo/FuncInfo/Module or None."""
        dotted = dotted_name(expr)
        if dotted is None:
            return None
        parts = dotted.split(".")
        head = parts[0]
        if head in module.classes and len(parts) == 1:
            return module.classes[head]
        if head in module.funcs and len(parts) == 1:
            return module.funcs[head]
        if head in module.classes and len(parts) == 2:
            return module.classes[head].methods.get(parts[1])
        target = module.imports.get(head)
        if target is None:
            return None
        full = ".".join([target] + parts[1:])
        return self._lookup_dotted(full)

    def _lookup_dotted(self, full, depth=0):
        if depth > 6:
            return None
        parts = full.split(".")
        for i in range(len(parts), 0, -1):
            mn = ".".join(parts[:i])
            if mn in self.modules:
                m = self.modules[mn]
                rest = parts[i:]
                if not rest:
                    return m
                obj = None
                if rest[0] in m.classes:
                    obj = m.classes[rest[0]]
                    if len(rest) == 1:
                        return obj
                    if len(rest) == 2:
                        return obj.methods.get(rest[1])
                    return None
                if rest[0] in m.funcs and len(rest) == 1:
                    return m.funcs[rest[0]]
                if rest[0] in m.imports:  # re-export
                    return self._lookup_dotted(".".join([m.imports[rest[0]]] + rest[1:]), depth + 1)
                return None
        return None

    # ---- class hierarchy ----------------------------------------------------------
    def bases(self, c):
        out = []
        for b in c.base_exprs:
            r = self.resolve_name(c.module, b)
            if isinstance(r, ClassInfo):
                out.append(r)
        return out

    def mro(self, c):
        if c.qualname in self._mro:
            return self._mro[c.qualname]
        seqs = [self.mro(b)[:] for b in self.bases(c)] + [self.bases(c)[:]]
        res = [c]
        while True:
            seqs = [s for s in seqs if s]
            if not seqs:
                break
            cand = None
            for s in seqs:
                cand = s[0]
                if not any(cand in t[1:] for t in seqs):
                    break
                cand = None
            if cand is None:
                raise AnalysisError(f"inconsistent MRO for {c.qualname}")
            res.append(cand)
            for s in seqs:
                if s and s[0] is cand:
                    del s[0]
        self._mro[c.qualname] = res
        return res

    def lookup_method(self, c, name, after=None):
        """First definition of `name` along mro(c); with `after`, start after that class (super())."""
        m = self.mro(c)
        if after is not None and after in m:
            m = m[m.index(after) + 1:]
        for k in m:
            if name in k.methods:
                return k.methods[name]
        return None

    def subclasses(self, c):
        if self._subclasses is None:
            self._subclasses = {}
            for m in self.modules.values():
                for k in m.classes.values():
                    for b in self.mro(k)[1:]:
                        self._subclasses.setdefault(b.qualname, []).append(k)
        return self._subclasses.get(c.qualname, [])

    def all_classes(self):
        for m in self.modules.values():
            yield from m.classes.values()

    def all_functions(self, modules=None):
        for mn, m in self.modules.items():
            if modules is not None and mn not in modules:
                continue
            yield from m.funcs.values()
            for c in m.classes.values():
                yield from c.methods.values()

    # ---- constants ----------------------------------------------------------------
    def class_const(self, c, name, _depth=0):
        """Evaluate class constant `name` (searching the MRO) to a python value or raise KeyError."""
        for k in self.mro(c):
            if name in k.consts:
                return self.eval_const(k.consts[name], k.module, k, _depth + 1)
        raise KeyError(name)

    def eval_const(self, expr, module, cls=None, _depth=0):
        """Evaluate a literal-ish expression: literals, names of module/class constants,
        Class.CONST, tuples/lists/sets/dicts of these, unary minus, + - * ** << | on ints."""
        if _depth > 12:
            raise KeyError("depth")
        ev = lambda e: self.eval_const(e, module, cls, _depth + 1)
        if isinstance(expr, ast.Constant):
            return expr.value
        if isinstance(expr, (ast.List, ast.Tuple)):
            v = [ev(e) for e in expr.elts]
            return v if isinstance(expr, ast.List) else tuple(v)
        if isinstance(expr, ast.Set):
            return set(ev(e) for e in expr.elts)
        if isinstance(expr, ast.Dict):
            return {ev(k): ev(v) for k, v in zip(expr.keys, expr.values)}
        if isinstance(expr, ast.UnaryOp) and isinstance(expr.op, ast.USub):
            return -ev(expr.operand)
        if isinstance(expr, ast.BinOp):
            l, r = ev(expr.left), ev(expr.right)
            ops = {ast.Add: lambda a, b: a + b, ast.Sub: lambda a, b: a - b, ast.Mult: lambda a, b: a * b,
                   ast.Pow: lambda a, b: a ** b, ast.LShift: lambda a, b: a << b, ast.BitOr: lambda a, b: a | b,
                   ast.FloorDiv: lambda a, b: a // b, ast.Mod: lambda a, b: a % b,
                   ast.BitAnd: lambda a, b: a & b, ast.RShift: lambda a, b: a >> b, ast.BitXor: lambda a, b: a ^ b}
            f = ops.get(type(expr.op))
            if f is None:
                raise KeyError("op")
            return f(l, r)
        if isinstance(expr, ast.Name):
            if cls is not None:
                for k in self.mro(cls):
                    if expr.id in k.consts:
                        return self.eval_const(k.consts[expr.id], k.module, k, _depth + 1)
            if expr.id in module.consts:
                return self.eval_const(module.consts[expr.id], module, None, _depth + 1)
            tgt = module.imports.get(expr.id)
            if tgt:
                mod, _, nm = tgt.rpartition(".")
                if mod in self.modules and nm in self.modules[mod].consts:
                    m2 = self.modules[mod]
                    return self.eval_const(m2.consts[nm], m2, None, _depth + 1)
            raise KeyError(expr.id)
        if isinstance(expr, ast.Attribute):
            base = expr.value
            if isinstance(base, ast.Name) and base.id in ("self", "cls") and cls is not None:
                return self.class_const(cls, expr.attr, _depth + 1)
            r = self.resolve_name(module, base)
            if isinstance(r, ClassInfo):
                return self.class_const(r, expr.attr, _depth + 1)
            if isinstance(r, Module) and expr.attr in r.consts:
                return self.eval_const(r.consts[expr.attr], r, None, _depth + 1)
            raise KeyError(ast.unparse(expr))
        raise KeyError(type(expr).__name__)

    def try_const(self, expr, module, cls=None):
        try:
            return True, self.eval_const(expr, module, cls)
        except (KeyError, TypeError, ValueError, ZeroDivisionError, OverflowError):
            return False, None

    # ---- call resolution --------------------------------------------------------------
    def resolve_call(self, call, fn, receiver_cls=None):
        """Resolve an ast.Call made inside FuncInfo fn. Returns a list of FuncInfo (possibly empty).

        self.m(...)   -> definition along mro(receiver_cls or fn.cls); plus overrides in subclasses
                         when receiver_cls is None (class-hierarchy analysis)
        Class.m(self) -> direct
        name(...)     -> module function / imported function / closure / class ctor (__init__)
        super().m()   -> next along the MRO
        """
        f = call.func
        out = []
        if isinstance(f, ast.Attribute):
            v = f.value
            if isinstance(v, ast.Name) and v.id in ("self", "cls") and fn.cls is not None:
                if receiver_cls is not None:
                    m = self.lookup_method(receiver_cls, f.attr)
                    return [m] if m else []
                seen = set()
                m = self.lookup_method(fn.cls, f.attr)
                if m:
                    out.append(m)
                    seen.add(m.qualname)
                for sub in self.subclasses(fn.cls):
                    m2 = self.lookup_method(sub, f.attr)
                    if m2 and m2.qualname not in seen:
                        seen.add(m2.qualname)
                        out.append(m2)
                return out
            if isinstance(v, ast.Call) and isinstance(v.func, ast.Name) and v.func.id == "super" and fn.cls is not None:
                m = self.lookup_method(receiver_cls or fn.cls, f.attr, after=fn.cls)
                return [m] if m else []
            r = self.resolve_name(fn.module, f)
            if isinstance(r, FuncInfo):
                return [r]
            if isinstance(r, ClassInfo):
                m = self.lookup_method(r, "__init__")
                return [m] if m else []
            return []
        if isinstance(f, ast.Name):
            p = fn
            while p is not None:
                if f.id in p.nested():
                    return [p.nested()[f.id]]
                p = p.parent
            r = self.resolve_name(fn.module, f)
            if isinstance(r, FuncInfo):
                return [r]
            if isinstance(r, ClassInfo):
                m = self.lookup_method(r, "__init__")
                return [m] if m else []
        return out


def dotted_name(expr):
    parts = []
    while isinstance(expr, ast.Attribute):
        parts.append(expr.attr)
        expr = expr.value
    if isinstance(expr, ast.Name):
        parts.append(expr.id)
        return ".".join(reversed(parts))
    return None


def calls_in(node, include_nested=False):
    it = ast.walk(node) if include_nested else walk_no_defs(node)
    for n in it:
        if isinstance(n, ast.Call):
            yield n


def call_name(call):
    """'self.foo', 'txaio.resolve', 'foo' ... or None."""
    return dotted_name(call.func)


def kwarg(call, name, pos=None):
    for k in call.keywords:
        if k.arg == name:
            return k.value
    if pos is not None and len(call.args) > pos:
        a = call.args[pos]
        if not isinstance(a, ast.Starred):
            return a
    return None
