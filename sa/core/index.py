"""Program index: parse /repo/src/autobahn, classes, MRO, constants, callee resolution.

Static only: nothing is imported or executed from the analysed tree.
"""
import ast
import hashlib
import os

REPO = os.environ.get("VERIF_REPO", "/repo")
SRC = os.path.join(REPO, "src")
PKG = "autobahn"


class AnalysisError(Exception):
    """The checker is blind: an anchor vanished or a construct is outside the modelled subset."""


class FuncInfo:
    def __init__(self, module, cls, node, parent=None):
        self.module = module
        self.cls = cls  # ClassInfo or None
        self.node = node
        self.parent = parent  # enclosing FuncInfo for closures
        self.name = node.name
        self._nested = None

    @property
    def qualname(self):
        if self.parent is not None:
            return self.parent.qualname + ".<locals>." + self.name
        if self.cls is not None:
            return f"{self.cls.qualname}.{self.name}"
        return f"{self.module.name}.{self.name}"

    @property
    def path(self):
        return self.module.relpath

    def loc(self, node=None):
        n = node if node is not None else self.node
        return f"{self.module.relpath}:{getattr(n, 'lineno', self.node.lineno)}"

    def nested_list(self):
        """All closures defined (at any depth, not crossing further defs) in this function, in source order."""
        if self._nested is None:
            out = []
            for n in walk_no_defs(self.node, include_defs=True):
                if isinstance(n, (ast.FunctionDef, ast.AsyncFunctionDef)) and n is not self.node:
                    out.append(FuncInfo(self.module, self.cls, n, parent=self))
            out.sort(key=lambda f: f.node.lineno)
            self._nested = out
        return self._nested

    def nested(self):
        """name -> closure (the first definition of that name; use nested_list() when names repeat)."""
        out = {}
        for f in self.nested_list():
            out.setdefault(f.name, f)
        return out

    def params(self):
        a = self.node.args
        return [x.arg for x in a.posonlyargs + a.args]

    def __repr__(self):
        return f"<Func {self.qualname}>"


class ClassInfo:
    def __init__(self, module, node):
        self.module = module
        self.node = node
        self.name = node.name
        self.qualname = f"{module.name}.{node.name}"
        self.methods = {}
        self.consts = {}  # name -> ast expr (class-level simple assignments)
        self.base_exprs = list(node.bases)
        for st in node.body:
            if isinstance(st, (ast.FunctionDef, ast.AsyncFunctionDef)):
                # keep the last definition, like Python does (property setters overwrite)
                self.methods[st.name] = FuncInfo(module, self, st)
            elif isinstance(st, ast.Assign):
                for t in st.targets:
                    if isinstance(t, ast.Name):
                        self.consts[t.id] = st.value
            elif isinstance(st, ast.AnnAssign) and isinstance(st.target, ast.Name) and st.value is not None:
                self.consts[st.target.id] = st.value

    def loc(self, node=None):
        n = node if node is not None else self.node
        return f"{self.module.relpath}:{n.lineno}"

    def __repr__(self):
        return f"<Class {self.qualname}>"


class Module:
    def __init__(self, name, path, relpath, source):
        self.name = name
        self.path = path
        self.relpath = relpath
        self.source = source
        self.tree = ast.parse(source, filename=path)
        self.classes = {}
        self.funcs = {}
        self.consts = {}
        self.imports = {}  # local name -> dotted target ("autobahn.x.Y" or "struct")
        self._scan()

    def _scan(self):
        def scan_body(body):
            for st in body:
                if isinstance(st, ast.ClassDef):
                    self.classes[st.name] = ClassInfo(self, st)
                elif isinstance(st, (ast.FunctionDef, ast.AsyncFunctionDef)):
                    self.funcs[st.name] = FuncInfo(self, None, st)
                elif isinstance(st, ast.Assign):
                    for t in st.targets:
                        if isinstance(t, ast.Name):
                            self.consts[t.id] = st.value
                elif isinstance(st, ast.AnnAssign) and isinstance(st.target, ast.Name) and st.value is not None:
                    self.consts[st.target.id] = st.value
                elif isinstance(st, ast.Import):
                    for a in st.names:
                        if a.asname:
                            self.imports[a.asname] = a.name
                        else:
                            self.imports[a.name.split(".")[0]] = a.name.split(".")[0]
                elif isinstance(st, ast.ImportFrom):
                    base = st.module or ""
                    if st.level:
                        parts = self.name.split(".")
                        # a package __init__ counts as the package itself
                        if not self.path.endswith("__init__.py"):
                            parts = parts[:-1]
                        up = st.level - 1
                        anchor = parts[: len(parts) - up] if up else parts
                        base = ".".join(anchor + ([st.module] if st.module else []))
                    for a in st.names:
                        self.imports[a.asname or a.name] = f"{base}.{a.name}"
                elif isinstance(st, (ast.If, ast.Try)):
                    # conditional imports / definitions at module level
                    for sub in ("body", "orelse", "finalbody"):
                        scan_body(getattr(st, sub, []) or [])
                    for h in getattr(st, "handlers", []) or []:
                        scan_body(h.body)

        scan_body(self.tree.body)


def walk_no_defs(node, include_defs=False):
    """ast.walk that does not descend into nested function/class/lambda bodies.

    With include_defs the nested def nodes themselves are yielded (but not entered).
    """
    stack = list(ast.iter_child_nodes(node))
    while stack:
        n = stack.pop()
        if isinstance(n, (ast.FunctionDef, ast.AsyncFunctionDef, ast.ClassDef, ast.Lambda)):
            if include_defs:
                yield n
            continue
        yield n
        stack.extend(ast.iter_child_nodes(n))


class Program:
    def __init__(self, src=SRC, pkg=PKG):
        self.src = src
        self.modules = {}
        self.digest = hashlib.sha256()
        root = os.path.join(src, pkg)
        if not os.path.isdir(root):
            raise AnalysisError(f"source tree {root} not found")
        for dp, dn, fn in os.walk(root):
            dn.sort()
            for f in sorted(fn):
                if not f.endswith(".py"):
                    continue
                p = os.path.join(dp, f)
                rel = os.path.relpath(p, src)
                name = rel[:-3].replace(os.sep, ".")
                if name.endswith(".__init__"):
                    name = name[: -len(".__init__")]
                with open(p, "rb") as fh:
                    raw = fh.read()
                self.digest.update(raw)
                try:
                    self.modules[name] = Module(name, p, os.path.join("src", rel), raw.decode("utf8"))
                except SyntaxError as e:
                    raise AnalysisError(f"cannot parse {rel}: {e}")
        self._mro = {}
        self._subclasses = None

    # ---- lookup -----------------------------------------------------------------
    def module(self, name):
        m = self.modules.get(name)
        if m is None:
            raise AnalysisError(f"anchor module {name} not found")
        return m

    def cls(self, qual):
        mod, _, cn = qual.rpartition(".")
        c = self.module(mod).classes.get(cn)
        if c is None:
            raise AnalysisError(f"anchor class {qual} not found")
        return c

    def func(self, qual):
        """'pkg.mod.func', 'pkg.mod.Class.method' or '...method.<locals>.closure'."""
        if ".<locals>." in qual:
            outer, _, inner = qual.partition(".<locals>.")
            f = self.func(outer)
            for part in inner.split(".<locals>."):
                nf = f.nested().get(part)
                if nf is None:
                    raise AnalysisError(f"anchor closure {qual} not found")
                f = nf
            return f
        head, _, last = qual.rpartition(".")
        if head in self.modules:
            f = self.modules[head].funcs.get(last)
            if f is None:
                raise AnalysisError(f"anchor function {qual} not found")
            return f
        mod, _, cn = head.rpartition(".")
        if mod in self.modules and cn in self.modules[mod].classes:
            f = self.modules[mod].classes[cn].methods.get(last)
            if f is None:
                raise AnalysisError(f"anchor method {qual} not found")
            return f
        raise AnalysisError(f"anchor {qual} not found")

    def has_func(self, qual):
        try:
            self.func(qual)
            return True
        except AnalysisError:
            return False

    # ---- names ------------------------------------------------------------------
    def resolve_name(self, module, expr):
        """Resolve a Name/Attribute expression used in `module` to a ClassInfo/FuncInfo/Module or None."""
        dotted = dotted_name(expr)
        if dotted is None:
            return None
        parts = dotted.split(".")
        head = parts[0]
        if head in module.classes and len(parts) == 1:
            return module.classes[head]
        if head in module.funcs and len(parts) == 1:
            return module.funcs[head]
        if head in module.classes and len(parts) == 2:
            return module.classes[head].methods.get(parts[1])
        target = module.imports.get(head)
        if target is None:
            return None
        full = ".".join([target] + parts[1:])
        return self._lookup_dotted(full)

    def _lookup_dotted(self, full, depth=0):
        if depth > 6:
            return None
        parts = full.split(".")
        for i in range(len(parts), 0, -1):
            mn = ".".join(parts[:i])
            if mn in self.modules:
                m = self.modules[mn]
                rest = parts[i:]
                if not rest:
                    return m
                obj = None
                if rest[0] in m.classes:
                    obj = m.classes[rest[0]]
                    if len(rest) == 1:
                        return obj
                    if len(rest) == 2:
                        return obj.methods.get(rest[1])
                    return None
                if rest[0] in m.funcs and len(rest) == 1:
                    return m.funcs[rest[0]]
                if rest[0] in m.imports:  # re-export
                    return self._lookup_dotted(".".join([m.imports[rest[0]]] + rest[1:]), depth + 1)
                return None
        return None

    # ---- class hierarchy ----------------------------------------------------------
    def bases(self, c):
        out = []
        for b in c.base_exprs:
            r = self.resolve_name(c.module, b)
            if isinstance(r, ClassInfo):
                out.append(r)
        return out

    def mro(self, c):
        if c.qualname in self._mro:
            return self._mro[c.qualname]
        seqs = [self.mro(b)[:] for b in self.bases(c)] + [self.bases(c)[:]]
        res = [c]
        while True:
            seqs = [s for s in seqs if s]
            if not seqs:
                break
            cand = None
            for s in seqs:
                cand = s[0]
                if not any(cand in t[1:] for t in seqs):
                    break
                cand = None
            if cand is None:
                raise AnalysisError(f"inconsistent MRO for {c.qualname}")
            res.append(cand)
            for s in seqs:
                if s and s[0] is cand:
                    del s[0]
        self._mro[c.qualname] = res
        return res

    def lookup_method(self, c, name, after=None):
        """First definition of `name` along mro(c); with `after`, start after that class (super())."""
        m = self.mro(c)
        if after is not None and after in m:
            m = m[m.index(after) + 1:]
        for k in m:
            if name in k.methods:
                return k.methods[name]
        return None

    def subclasses(self, c):
        if self._subclasses is None:
            self._subclasses = {}
            for m in self.modules.values():
                for k in m.classes.values():
                    for b in self.mro(k)[1:]:
                        self._subclasses.setdefault(b.qualname, []).append(k)
        return self._subclasses.get(c.qualname, [])

    def all_classes(self):
        for m in self.modules.values():
            yield from m.classes.values()

    def all_functions(self, modules=None):
        for mn, m in self.modules.items():
            if modules is not None and mn not in modules:
                continue
            yield from m.funcs.values()
            for c in m.classes.values():
                yield from c.methods.values()

    # ---- constants ----------------------------------------------------------------
    def class_const(self, c, name, _depth=0):
        """Evaluate class constant `name` (searching the MRO) to a python value or raise KeyError."""
        for k in self.mro(c):
            if name in k.consts:
                return self.eval_const(k.consts[name], k.module, k, _depth + 1)
        raise KeyError(name)

    def eval_const(self, expr, module, cls=None, _depth=0):
        """Evaluate a literal-ish expression: literals, names of module/class constants,
        Class.CONST, tuples/lists/sets/dicts of these, unary minus, + - * ** << | on ints."""
        if _depth > 12:
            raise KeyError("depth")
        ev = lambda e: self.eval_const(e, module, cls, _depth + 1)
        if isinstance(expr, ast.Constant):
            return expr.value
        if isinstance(expr, (ast.List, ast.Tuple)):
            v = [ev(e) for e in expr.elts]
            return v if isinstance(expr, ast.List) else tuple(v)
        if isinstance(expr, ast.Set):
            return set(ev(e) for e in expr.elts)
        if isinstance(expr, ast.Dict):
            return {ev(k): ev(v) for k, v in zip(expr.keys, expr.values)}
        if isinstance(expr, ast.UnaryOp) and isinstance(expr.op, ast.USub):
            return -ev(expr.operand)
        if isinstance(expr, ast.BinOp):
            l, r = ev(expr.left), ev(expr.right)
            ops = {ast.Add: lambda a, b: a + b, ast.Sub: lambda a, b: a - b, ast.Mult: lambda a, b: a * b,
                   ast.Pow: lambda a, b: a ** b, ast.LShift: lambda a, b: a << b, ast.BitOr: lambda a, b: a | b,
                   ast.FloorDiv: lambda a, b: a // b, ast.Mod: lambda a, b: a % b,
                   ast.BitAnd: lambda a, b: a & b, ast.RShift: lambda a, b: a >> b, ast.BitXor: lambda a, b: a ^ b}
            f = ops.get(type(expr.op))
            if f is None:
                raise KeyError("op")
            return f(l, r)
        if isinstance(expr, ast.Name):
            if cls is not None:
                for k in self.mro(cls):
                    if expr.id in k.consts:
                        return self.eval_const(k.consts[expr.id], k.module, k, _depth + 1)
            if expr.id in module.consts:
                return self.eval_const(module.consts[expr.id], module, None, _depth + 1)
            tgt = module.imports.get(expr.id)
            if tgt:
                mod, _, nm = tgt.rpartition(".")
                if mod in self.modules and nm in self.modules[mod].consts:
                    m2 = self.modules[mod]
                    return self.eval_const(m2.consts[nm], m2, None, _depth + 1)
            raise KeyError(expr.id)
        if isinstance(expr, ast.Attribute):
            base = expr.value
            if isinstance(base, ast.Name) and base.id in ("self", "cls") and cls is not None:
                return self.class_const(cls, expr.attr, _depth + 1)
            r = self.resolve_name(module, base)
            if isinstance(r, ClassInfo):
                return self.class_const(r, expr.attr, _depth + 1)
            if isinstance(r, Module) and expr.attr in r.consts:
                return self.eval_const(r.consts[expr.attr], r, None, _depth + 1)
            raise KeyError(ast.unparse(expr))
        raise KeyError(type(expr).__name__)

    def try_const(self, expr, module, cls=None):
        try:
            return True, self.eval_const(expr, module, cls)
        except (KeyError, TypeError, ValueError, ZeroDivisionError, OverflowError):
            return False, None

    # ---- call resolution --------------------------------------------------------------
    def resolve_call(self, call, fn, receiver_cls=None):
        """Resolve an ast.Call made inside FuncInfo fn. Returns a list of FuncInfo (possibly empty).

        self.m(...)   -> definition along mro(receiver_cls or fn.cls); plus overrides in subclasses
                         when receiver_cls is None (class-hierarchy analysis)
        Class.m(self) -> direct
        name(...)     -> module function / imported function / closure / class ctor (__init__)
        super().m()   -> next along the MRO
        """
        f = call.func
        out = []
        if isinstance(f, ast.Attribute):
            v = f.value
            if isinstance(v, ast.Name) and v.id in ("self", "cls") and fn.cls is not None:
                if receiver_cls is not None:
                    m = self.lookup_method(receiver_cls, f.attr)
                    return [m] if m else []
                seen = set()
                m = self.lookup_method(fn.cls, f.attr)
                if m:
                    out.append(m)
                    seen.add(m.qualname)
                for sub in self.subclasses(fn.cls):
                    m2 = self.lookup_method(sub, f.attr)
                    if m2 and m2.qualname not in seen:
                        seen.add(m2.qualname)
                        out.append(m2)
                return out
            if isinstance(v, ast.Call) and isinstance(v.func, ast.Name) and v.func.id == "super" and fn.cls is not None:
                m = self.lookup_method(receiver_cls or fn.cls, f.attr, after=fn.cls)
                return [m] if m else []
            r = self.resolve_name(fn.module, f)
            if isinstance(r, FuncInfo):
                return [r]
            if isinstance(r, ClassInfo):
                m = self.lookup_method(r, "__init__")
                return [m] if m else []
            return []
        if isinstance(f, ast.Name):
            p = fn
            while p is not None:
                if f.id in p.nested():
                    return [p.nested()[f.id]]
                p = p.parent
            r = self.resolve_name(fn.module, f)
            if isinstance(r, FuncInfo):
                return [r]
            if isinstance(r, ClassInfo):
                m = self.lookup_method(r, "__init__")
                return [m] if m else []
        return out


def dotted_name(expr):
    parts = []
    while isinstance(expr, ast.Attribute):
        parts.append(expr.attr)
        expr = expr.value
    if isinstance(expr, ast.Name):
        parts.append(expr.id)
        return ".".join(reversed(parts))
    return None


def calls_in(node, include_nested=False):
    it = ast.walk(node) if include_nested else walk_no_defs(node)
    for n in it:
        if isinstance(n, ast.Call):
            yield n


def call_name(call):
    """'self.foo', 'txaio.resolve', 'foo' ... or None."""
    return dotted_name(call.func)


def kwarg(call, name, pos=None):
    for k in call.keywords:
        if k.arg == name:
            return k.value
    if pos is not None and len(call.args) > pos:
        a = call.args[pos]
        if not isinstance(a, ast.Starred):
            return a
    return None
