"""Def-use term extraction (value numbering over the AST): the value a function returns / stores, as a term over its
parameters and over calls to library primitives.

Local variable names disappear (a use is replaced by the term of its reaching definition), branches merge into
('phi', cond, a, b), calls to functions of the analysed repository are inlined, spellings of the same primitive are
normalised (hmac.new(k, m, hashlib.sha256).digest() == hmac.digest(k, m, 'sha256'), f-strings == str.format == '+'),
commutative operators are ordered and constants folded.  Nothing is executed: library primitives stay opaque symbols.

Terms are nested tuples:
  ('c', value) ('p', name) ('g', dotted) ('call', fn_term, args, kwargs) ('m', base, name, args, kwargs)
  ('attr', base, name) ('idx', base, i) ('slice', base, lo, hi) ('op', sym, a, b) ('un', sym, a) ('cmp', sym, a, b)
  ('phi', cond, a, b) ('cat', parts...) ('fmt', term, spec) ('list', items...) ('dict', ((k, v), ...)) ('unknown', why)
"""
import ast
import string

from .index import AnalysisError, walk_no_defs

COMMUTATIVE = {"+num", "*", "&", "|", "^"}
BINOPS = {ast.Add: "+", ast.Sub: "-", ast.Mult: "*", ast.FloorDiv: "//", ast.Mod: "%", ast.BitAnd: "&", ast.BitOr: "|",
          ast.BitXor: "^", ast.LShift: "<<", ast.RShift: ">>", ast.Pow: "**", ast.Div: "/"}
CMPOPS = {ast.Eq: "==", ast.NotEq: "!=", ast.Lt: "<", ast.LtE: "<=", ast.Gt: ">", ast.GtE: ">=", ast.In: "in", ast.NotIn: "not in",
          ast.Is: "is", ast.IsNot: "is not"}


class Outcome:
    def __init__(self, kind, conds, term, node):
        self.kind, self.conds, self.term, self.node = kind, tuple(conds), term, node

    def __repr__(self):
        return f"<{self.kind} if {self.conds}: {show(self.term)}>"


def show(t, depth=0):
    if not isinstance(t, tuple) or not t:
        return repr(t)
    k = t[0]
    if k == "c":
        return repr(t[1])
    if k in ("p", "g"):
        return t[1]
    if depth > 6:
        return "..."
    if k == "call":
        return f"{show(t[1], depth + 1)}({', '.join([show(a, depth + 1) for a in t[2]] + [f'{n}={show(v, depth + 1)}' for _, n, v in t[3]])})"
    if k == "m":
        return f"{show(t[1], depth + 1)}.{t[2]}({', '.join([show(a, depth + 1) for a in t[3]] + [f'{n}={show(v, depth + 1)}' for _, n, v in t[4]])})"
    if k == "attr":
        return f"{show(t[1], depth + 1)}.{t[2]}"
    if k == "idx":
        return f"{show(t[1], depth + 1)}[{show(t[2], depth + 1)}]"
    if k == "slice":
        return f"{show(t[1], depth + 1)}[{show(t[2], depth + 1)}:{show(t[3], depth + 1)}]"
    if k in ("op", "cmp"):
        return f"({show(t[2], depth + 1)} {t[1]} {show(t[3], depth + 1)})"
    if k == "phi":
        return f"phi({show(t[1], depth + 1)} ? {show(t[2], depth + 1)} : {show(t[3], depth + 1)})"
    if k == "cat":
        return "cat(" + ", ".join(show(x, depth + 1) for x in t[1:]) + ")"
    return k + "(" + ", ".join(show(x, depth + 1) for x in t[1:]) + ")"


class TermEval:
    """Evaluate one function. `inline(call_ast, fn) -> FuncInfo | None` decides which repo callees are inlined."""

    def __init__(self, program, fn, args=None, inline=None, depth=0, outer_env=None, self_env=None):
        self.p = program
        self.fn = fn
        self.inline = inline
        self.depth = depth
        self.env = {}
        self.outer = outer_env or {}
        self.outcomes = []
        self.effects = []  # (conds, call term) for expression statements
        self._post = None
        self.guards = []  # asserted / raise-guard conditions seen on the way (conds, kind)
        a = fn.node.args
        params = [x.arg for x in a.posonlyargs + a.args + a.kwonlyargs]
        if a.vararg:
            params.append(a.vararg.arg)
        if a.kwarg:
            params.append(a.kwarg.arg)
        for nm in params:
            self.env[nm] = ("p", nm)
        # defaults
        pos = a.posonlyargs + a.args
        for prm, d in zip(pos[len(pos) - len(a.defaults):], a.defaults):
            self.env[prm.arg] = ("p", prm.arg)
        self.defaults = {prm.arg: d for prm, d in zip(pos[len(pos) - len(a.defaults):], a.defaults)}
        self.defaults.update({k.arg: d for k, d in zip(a.kwonlyargs, a.kw_defaults) if d is not None})
        if args:
            self.env.update(args)
        if self_env:
            self.env.update(self_env)

    # ------------------------------------------------------------------ expressions
    def resolve_global(self, name):
        m = self.fn.module
        imp = getattr(m, "imports", {})
        if name in imp:
            return ("g", imp[name])
        return ("g", name)

    def ev(self, e):
        if e is None:
            return ("c", None)
        if isinstance(e, ast.Constant):
            return ("c", e.value)
        if isinstance(e, ast.Name):
            if e.id in self.env:
                return self.env[e.id]
            if e.id in self.outer:
                return self.outer[e.id]
            return self.resolve_global(e.id)
        if isinstance(e, ast.Attribute):
            txt = _text(e)
            if txt is not None and txt in self.env:
                return self.env[txt]
            b = self.ev(e.value)
            if b[0] == "g":
                return ("g", b[1] + "." + e.attr)
            return ("attr", b, e.attr)
        if isinstance(e, ast.Subscript):
            b = self.ev(e.value)
            if isinstance(e.slice, ast.Slice):
                return ("slice", b, self.ev(e.slice.lower), self.ev(e.slice.upper)) if e.slice.step is None else ("unknown", "stepped slice")
            i = self.ev(e.slice)
            if b[0] == "list" and i[0] == "c" and isinstance(i[1], int) and -len(b) + 1 <= i[1] < len(b) - 1:
                return b[1:][i[1]]
            if b[0] == "dict" and i[0] == "c":
                for k, v in b[1]:
                    if k == i:
                        return v
            return ("idx", b, i)
        if isinstance(e, ast.BinOp):
            l, r = self.ev(e.left), self.ev(e.right)
            sym = BINOPS.get(type(e.op), "?")
            return mk_op(sym, l, r)
        if isinstance(e, ast.UnaryOp):
            v = self.ev(e.operand)
            sym = {ast.USub: "-", ast.Not: "not", ast.Invert: "~", ast.UAdd: "+"}[type(e.op)]
            if v[0] == "c" and sym == "-" and isinstance(v[1], (int, float)):
                return ("c", -v[1])
            return ("un", sym, v)
        if isinstance(e, ast.BoolOp):
            vs = [self.ev(v) for v in e.values]
            out = vs[0]
            for v in vs[1:]:
                out = ("op", "and" if isinstance(e.op, ast.And) else "or", out, v)
            return out
        if isinstance(e, ast.Compare):
            l = self.ev(e.left)
            out = None
            for op, rn in zip(e.ops, e.comparators):
                r = self.ev(rn)
                c = ("cmp", CMPOPS[type(op)], l, r)
                out = c if out is None else ("op", "and", out, c)
                l = r
            return out
        if isinstance(e, ast.IfExp):
            c = self.ev(e.test)
            a, b = self.ev(e.body), self.ev(e.orelse)
            return a if a == b else ("phi", c, a, b)
        if isinstance(e, (ast.List, ast.Tuple, ast.Set)):
            out = []
            for x in e.elts:
                v = self.ev(x)
                if v[0] == "star" and v[1][0] == "list":
                    out.extend(v[1][1:])  # (*[a, b], c) == (a, b, c)
                else:
                    out.append(v)
            return ("list",) + tuple(out)
        if isinstance(e, ast.Dict):
            return ("dict", tuple((self.ev(k), self.ev(v)) for k, v in zip(e.keys, e.values) if k is not None))
        if isinstance(e, ast.JoinedStr):
            parts = []
            for v in e.values:
                if isinstance(v, ast.Constant):
                    parts.append(("c", v.value))
                else:
                    spec = ""
                    if v.format_spec is not None:
                        sp = self.ev(v.format_spec)
                        spec = sp[1] if sp[0] == "c" else (sp[1][1] if sp[0] == "cat" and len(sp) == 2 and sp[1][0] == "c" else "?")
                    conv = {-1: "", 115: "!s", 114: "!r", 97: "!a"}.get(v.conversion, "?")
                    parts.append(("fmt", self.ev(v.value), conv + spec))
            return mk_cat(parts)
        if isinstance(e, ast.Call):
            return self.call(e)
        if isinstance(e, ast.Lambda):
            return ("unknown", "lambda")
        if isinstance(e, (ast.GeneratorExp, ast.ListComp, ast.SetComp)) and len(e.generators) == 1 and not e.generators[0].is_async:
            # ('comp', element term, iterated term, filter terms): the bound variable denotes ('elem', iterated), as in a for loop
            g = e.generators[0]
            it = self.ev(g.iter)
            saved = dict(self.env)
            try:
                self.assign(g.target, ("elem", it))
                elt = self.ev(e.elt)
                ifs = tuple(self.ev(c) for c in g.ifs)
            finally:
                self.env = saved
            return ("comp", elt, it, ifs)
        if isinstance(e, (ast.GeneratorExp, ast.ListComp, ast.SetComp, ast.DictComp)):
            return ("unknown", "comprehension@%d" % e.lineno)
        if isinstance(e, ast.Starred):
            return ("star", self.ev(e.value))
        if isinstance(e, ast.Await):
            return ("await", self.ev(e.value))
        return ("unknown", type(e).__name__)

    def call(self, e):
        args = tuple(self.ev(a) for a in e.args)
        kwargs = tuple(sorted(("kw", (k.arg or "**"), self.ev(k.value)) for k in e.keywords))
        # "template".format(...)
        if isinstance(e.func, ast.Attribute) and e.func.attr == "format":
            base = self.ev(e.func.value)
            if base[0] == "c" and isinstance(base[1], str):
                try:
                    parts = []
                    auto = 0
                    kw = {k: v for _, k, v in kwargs}
                    for lit, field, spec, conv in string.Formatter().parse(base[1]):
                        if lit:
                            parts.append(("c", lit))
                        if field is None:
                            continue
                        if field == "":
                            v = args[auto]
                            auto += 1
                        elif field.isdigit():
                            v = args[int(field)]
                        else:
                            head = field.split(".")[0].split("[")[0]
                            v = kw[head]
                            for part in field.split(".")[1:]:
                                v = ("attr", v, part)
                        parts.append(("fmt", v, ("!" + conv if conv else "") + (spec or "")))
                    return mk_cat(parts)
                except (KeyError, IndexError, ValueError):
                    pass
        if isinstance(e.func, ast.Attribute):
            txt = _text(e.func)
            base = self.ev(e.func.value)
            if base[0] != "g":
                callee = self._inline_target(e)
                if callee is not None:
                    return self._inline(callee, e, args, kwargs, bound_self=base)
                return ("m", base, e.func.attr, args, kwargs)
            f = ("g", base[1] + "." + e.func.attr)
        else:
            f = self.ev(e.func)
        callee = self._inline_target(e)
        if callee is not None:
            return self._inline(callee, e, args, kwargs)
        return ("call", f, args, kwargs)

    def _inline_target(self, e):
        if self.inline is None or self.depth > 6:
            return None
        return self.inline(e, self.fn)

    def _inline(self, callee, e, args, kwargs, bound_self=None):
        a = callee.node.args
        names = [x.arg for x in a.posonlyargs + a.args]
        bind = {}
        if callee.cls is not None and callee.parent is None and names and names[0] in ("self", "cls") and not _is_static(callee):
            bind[names[0]] = bound_self if bound_self is not None else ("p", names[0])
            names = names[1:]
        if any(x[0] == "star" for x in args) or any(k == "**" for _, k, _v in kwargs):
            return ("call", ("g", callee.qualname), args, kwargs)
        for nm, v in zip(names, args):
            bind[nm] = v
        for _, k, v in kwargs:
            bind[k] = v
        sub = TermEval(self.p, callee, inline=self.inline, depth=self.depth + 1, outer_env=self.env if callee.parent is not None else None)
        for nm, d in sub.defaults.items():
            if nm not in bind:
                bind[nm] = sub.ev(d)
        sub.env.update(bind)
        sub.run()
        rets = [o for o in sub.outcomes if o.kind == "return"]
        for o in sub.outcomes:
            if o.kind == "raise":
                self.guards.append((o.conds, "raise-in:" + callee.name))
        if not rets:
            return ("c", None)
        t = rets[-1].term
        for o in reversed(rets[:-1]):
            cond = o.conds[-1][0] if o.conds else ("unknown", "path")
            pol = o.conds[-1][1] if o.conds else True
            t = ("phi", cond, o.term, t) if pol else ("phi", cond, t, o.term)
        return t

    # ------------------------------------------------------------------ statements
    def run(self):
        self.block(self.fn.node.body, [])
        return self

    def block(self, stmts, conds):
        """returns False when the block always leaves the function"""
        conds = list(conds)
        for st in stmts:
            self._post = None
            if not self.stmt(st, conds):
                return False
            if self._post is not None:
                conds.append(self._post)  # the other branch of an `if` left the function
                self._post = None
        return True

    def _piece(self, aug, it, loop):
        """term of the right-hand side of an accumulating `w += E` inside `loop` (the loop variable denotes an element of `it`)"""
        saved = dict(self.env)
        try:
            self.assign(loop.target, ("elem", it))
            return self.ev(aug.value)
        finally:
            self.env = saved

    def assign(self, t, v):
        if isinstance(t, ast.Name):
            self.env[t.id] = v
        elif isinstance(t, ast.Attribute):
            txt = _text(t)
            if txt is not None:
                self.env[txt] = v
        elif isinstance(t, (ast.Tuple, ast.List)):
            for i, x in enumerate(t.elts):
                if v[0] == "list" and len(v) - 1 == len(t.elts):
                    self.assign(x, v[1 + i])
                else:
                    self.assign(x, ("idx", v, ("c", i)))
        elif isinstance(t, ast.Subscript):
            txt = _text(t.value)
            if txt is not None:
                self.env[txt] = ("setitem", self.ev(t.value), self.ev(t.slice), v)

    def stmt(self, st, conds):
        if isinstance(st, ast.Assign):
            v = self.ev(st.value)
            for t in st.targets:
                self.assign(t, v)
            return True
        if isinstance(st, ast.AnnAssign):
            if st.value is not None:
                self.assign(st.target, self.ev(st.value))
            return True
        if isinstance(st, ast.AugAssign):
            cur = self.ev(st.target)
            self.assign(st.target, mk_op(BINOPS.get(type(st.op), "?"), cur, self.ev(st.value)))
            return True
        if isinstance(st, ast.Return):
            self.outcomes.append(Outcome("return", conds, self.ev(st.value), st))
            return False
        if isinstance(st, ast.Raise):
            self.outcomes.append(Outcome("raise", conds, self.ev(st.exc) if st.exc is not None else ("c", None), st))
            return False
        if isinstance(st, ast.Assert) and const_truth(self.ev(st.test)) is False:
            self.outcomes.append(Outcome("raise", conds, ("g", "AssertionError"), st))
            return False
        if isinstance(st, ast.Assert):
            self.guards.append((tuple(conds) + ((self.ev(st.test), True),), "assert"))
            return True
        if isinstance(st, ast.Expr):
            if isinstance(st.value, ast.Call):
                c = st.value
                # incremental hashing: `h = H(); h.update(a); h.update(b)` denotes the same digest object as `H(a + b)` (hashlib / hmac contract)
                if isinstance(c.func, ast.Attribute) and c.func.attr == "update" and isinstance(c.func.value, ast.Name) and len(c.args) == 1 and not c.keywords:
                    cur = self.env.get(c.func.value.id)
                    if cur is not None and cur[0] == "call" and cur[1][0] == "g" and (cur[1][1].startswith("hashlib.") or cur[1][1] in ("hmac.new", "hmac.HMAC")) and not cur[3]:
                        arg = self.ev(c.args[0])
                        if cur[1][1].startswith("hashlib.") and cur[1][1] != "hashlib.new":
                            data = cur[2][0] if cur[2] else None
                            new = arg if data is None else mk_op("+", data, arg)
                            self.env[c.func.value.id] = ("call", cur[1], (new,), ())
                            return True
                self.effects.append((tuple(conds), self.ev(st.value), st))
            return True
        if isinstance(st, (ast.Pass, ast.Import, ast.ImportFrom, ast.Global, ast.Nonlocal)):
            return True
        if isinstance(st, (ast.FunctionDef, ast.AsyncFunctionDef, ast.ClassDef)):
            return True
        if isinstance(st, ast.If):
            c = self.ev(st.test)
            k = const_truth(c)
            if k is not None:
                return self.block(st.body if k else st.orelse, conds)
            saved = dict(self.env)
            live_t = self.block(st.body, conds + [(c, True)])
            env_t = self.env
            self.env = dict(saved)
            live_f = self.block(st.orelse, conds + [(c, False)])
            env_f = self.env
            post = None
            if live_t and live_f:
                self.env = _merge(c, env_t, env_f)
            elif live_t:
                self.env = env_t
                post = (c, True)
            elif live_f:
                self.env = env_f
                post = (c, False)
            else:
                return False
            self._post = post
            return True
        if isinstance(st, (ast.For, ast.AsyncFor)):
            it = self.ev(st.iter)
            if it[0] == "list" and all(x[0] == "c" for x in it[1:]) and len(it) <= 9 and not st.orelse:
                for x in it[1:]:
                    self.assign(st.target, x)
                    saved = dict(self.env)
                    if not self.block(st.body, conds + [(("cmp", "iter", ("c", x[1]), it), True)]):
                        self.env = saved  # the body left on this element; later elements run only if it did not
                return True
            # generic loop: variables written inside become unknown; raises inside are guards
            written = _written(st)
            self.assign(st.target, ("elem", it))
            saved = dict(self.env)
            # pure accumulation `w += E` (the only kind of write to w in the loop): afterwards w = w_before + repeat(E...)
            adds = {}
            other = set()
            for x in ast.walk(ast.Module(body=st.body + st.orelse, type_ignores=[])):
                if isinstance(x, ast.AugAssign) and isinstance(x.op, ast.Add) and isinstance(x.target, ast.Name):
                    adds.setdefault(x.target.id, []).append(x)
                elif isinstance(x, (ast.Assign, ast.AnnAssign, ast.AugAssign, ast.NamedExpr, ast.For, ast.With, ast.ExceptHandler)):
                    tg = x.targets if isinstance(x, ast.Assign) else ([x.target] if isinstance(x, (ast.AnnAssign, ast.AugAssign, ast.NamedExpr, ast.For)) else [])
                    for t_ in tg:
                        for y in ast.walk(t_):
                            if isinstance(y, ast.Name):
                                other.add(y.id)
            self.block(st.body, conds + [(("loop", it), True)])
            body_env = self.env
            self.env = saved
            for w in written:
                if w in adds and w not in other and w in saved and w not in (n.id for n in ast.walk(st.target) if isinstance(n, ast.Name)):
                    pieces = tuple(TermEval._piece(self, a_, it, st) for a_ in adds[w])
                    self.env[w] = mk_op("+", saved[w], ("repeat", it) + pieces)
                else:
                    self.env[w] = ("unknown", f"loop-carried {w}")
            return True
        if isinstance(st, ast.While):
            written = _written(st)
            saved = dict(self.env)
            self.block(st.body, conds + [(("loop", self.ev(st.test)), True)])
            self.env = saved
            for w in written:
                self.env[w] = ("unknown", f"loop-carried {w}")
            return True
        if isinstance(st, ast.Try):
            saved = dict(self.env)
            live = self.block(st.body, conds)
            env_b = self.env
            envs = [env_b] if live else []
            for h in st.handlers:
                self.env = dict(saved)
                for w in _written(ast.Module(body=st.body, type_ignores=[])):
                    self.env[w] = ("unknown", f"maybe-written before exception {w}")
                if h.name:
                    self.env[h.name] = ("exc", _text(h.type) or "?")
                if self.block(h.body, conds + [(("exc", _text(h.type) if h.type is not None else "*"), True)]):
                    envs.append(self.env)
            if not envs:
                return False
            env = envs[0]
            for other in envs[1:]:
                env = _merge(("exc", "handled"), other, env)
            self.env = env
            if live and st.orelse:
                if not self.block(st.orelse, conds):
                    return False
            if st.finalbody:
                return self.block(st.finalbody, conds)
            return True
        if isinstance(st, (ast.With, ast.AsyncWith)):
            for i in st.items:
                if i.optional_vars is not None:
                    self.assign(i.optional_vars, ("m", self.ev(i.context_expr), "__enter__", (), ()))
            return self.block(st.body, conds)
        if isinstance(st, ast.Delete):
            return True
        if isinstance(st, (ast.Break, ast.Continue)):
            return False
        raise AnalysisError(f"terms: statement {type(st).__name__} at line {st.lineno} not modelled")


def const_truth(c):
    """True/False when the test term is decided by constants alone, else None."""
    if c[0] == "c":
        return bool(c[1])
    if c[0] == "un" and c[1] == "not":
        k = const_truth(c[2])
        return None if k is None else not k
    if c[0] == "cmp" and c[1] in ("is", "is not", "==", "!="):
        a, b = c[2], c[3]
        same = None
        if a[0] == "c" and b[0] == "c":
            same = (a[1] is b[1]) if c[1].startswith("is") and (a[1] is None or b[1] is None or isinstance(a[1], bool)) else (a[1] == b[1] and type(a[1]) == type(b[1]))
        elif {a[0], b[0]} == {"c", "g"}:
            same = False  # a literal is never a module-level object
        if same is None:
            return None
        return same if c[1] in ("is", "==") else not same
    if c[0] == "op" and c[1] in ("and", "or"):
        x, y = const_truth(c[2]), const_truth(c[3])
        if c[1] == "and":
            return False if x is False or y is False else (True if x and y else None)
        return True if x or y else (False if x is False and y is False else None)
    return None


def _is_static(fn):
    return any(isinstance(d, ast.Name) and d.id == "staticmethod" for d in fn.node.decorator_list)


def _written(node):
    out = set()
    for x in ast.walk(node):
        tg = []
        if isinstance(x, ast.Assign):
            tg = x.targets
        elif isinstance(x, (ast.AugAssign, ast.AnnAssign)):
            tg = [x.target]
        elif isinstance(x, (ast.For, ast.AsyncFor)):
            tg = [x.target]
        for t in tg:
            for y in ast.walk(t):
                if isinstance(y, ast.Name):
                    out.add(y.id)
                elif isinstance(y, ast.Attribute):
                    tx = _text(y)
                    if tx:
                        out.add(tx)
    return out


def _merge(c, a, b):
    out = {}
    for k in set(a) | set(b):
        va, vb = a.get(k), b.get(k)
        if va == vb:
            out[k] = va
        elif va is None or vb is None:
            if "." in k:
                # an attribute path not assigned on one branch keeps its value from before the branch
                parts = k.split(".")
                init = ("p", parts[0])
                for a_ in parts[1:]:
                    init = ("attr", init, a_)
                out[k] = ("phi", c, va or init, vb or init)
            else:
                out[k] = ("phi", c, va or ("unknown", "unset"), vb or ("unknown", "unset"))
        else:
            out[k] = ("phi", c, va, vb)
    return out


def _text(e):
    if isinstance(e, ast.Name):
        return e.id
    if isinstance(e, ast.Attribute):
        b = _text(e.value)
        return None if b is None else b + "." + e.attr
    return None


def mk_cat(parts):
    flat = []
    for p in parts:
        if p[0] == "cat":
            flat.extend(p[1:])
        elif p[0] == "fmt" and p[2] in ("", "!s") and p[1][0] == "cat":
            flat.extend(p[1][1:])
        elif p[0] == "fmt" and p[2] in ("", "!s") and p[1][0] == "c" and isinstance(p[1][1], str):
            flat.append(p[1])
        else:
            flat.append(p)
    out = []
    for p in flat:
        if p[0] == "c" and isinstance(p[1], (str, bytes)) and out and out[-1][0] == "c" and type(out[-1][1]) == type(p[1]):
            out[-1] = ("c", out[-1][1] + p[1])
        elif p[0] == "c" and p[1] in ("", b""):
            continue
        else:
            out.append(p)
    if len(out) == 1 and out[0][0] == "c":
        return out[0]
    return ("cat",) + tuple(out)


def mk_op(sym, l, r):
    if l[0] == "c" and r[0] == "c":
        try:
            a, b = l[1], r[1]
            if isinstance(a, (int, float, str, bytes)) and not isinstance(a, bool) and type(a) == type(b) or \
                    (isinstance(a, (int, float)) and isinstance(b, (int, float)) and not isinstance(a, bool) and not isinstance(b, bool)):
                v = {"+": lambda: a + b, "-": lambda: a - b, "*": lambda: a * b, "//": lambda: a // b, "%": lambda: a % b,
                     "&": lambda: a & b, "|": lambda: a | b, "^": lambda: a ^ b, "<<": lambda: a << b, ">>": lambda: a >> b,
                     "**": lambda: a ** b if abs(b) < 64 else None}.get(sym, lambda: None)()
                if v is not None:
                    return ("c", v)
        except Exception:
            pass
    if sym == "+":
        # string concatenation is a cat, numeric addition commutes
        def stringish(t):
            return (t[0] == "c" and isinstance(t[1], (str, bytes))) or t[0] in ("cat", "fmt")
        if stringish(l) or stringish(r):
            return mk_cat([l if stringish(l) else ("fmt", l, "+"), r if stringish(r) else ("fmt", r, "+")])

        def numeric(t):
            return (t[0] == "c" and isinstance(t[1], (int, float)) and not isinstance(t[1], bool)) or \
                (t[0] == "op" and t[1] in ("-", "*", "//", "%", "&", "|", "^", "<<", ">>", "**"))
        if numeric(l) or numeric(r):
            return ("op", "+", *sorted([l, r], key=repr))
        return ("op", "+", l, r)  # operand types unknown: concatenation does not commute
    if sym in ("*", "&", "|", "^"):
        return ("op", sym, *sorted([l, r], key=repr))
    return ("op", sym, l, r)


def rewrite(t, f):
    """Bottom-up rewriting: f(term) -> term (or the same term)."""
    if not isinstance(t, tuple):
        return t
    new = tuple(rewrite(x, f) if isinstance(x, tuple) else x for x in t)
    if not new or not isinstance(new[0], str) or new[0] == "kw":
        return new  # argument tuples / keyword entries are containers, not terms
    return f(new)


def subterms(t):
    if isinstance(t, tuple):
        if t and isinstance(t[0], str) and t[0] != "kw":
            yield t
        for x in t:
            if isinstance(x, tuple):
                yield from subterms(x)


def eval_bool(t, atom):
    """Truth value of a boolean term given `atom(term) -> bool | None` for its leaves (None = not a leaf: descend).
    Supports and/or/not, phi, comparisons of leaves with the constants True/False/None and `is`/`==`."""
    v = atom(t)
    if v is not None:
        return v
    k = t[0]
    if k == "c":
        return bool(t[1])
    if k == "un" and t[1] == "not":
        return not eval_bool(t[2], atom)
    if k == "op" and t[1] == "and":
        return eval_bool(t[2], atom) and eval_bool(t[3], atom)
    if k == "op" and t[1] == "or":
        return eval_bool(t[2], atom) or eval_bool(t[3], atom)
    if k == "phi":
        return eval_bool(t[2], atom) if eval_bool(t[1], atom) else eval_bool(t[3], atom)
    if k == "cmp" and t[1] in ("is", "is not", "==", "!=") and (t[2][0] == "c" or t[3][0] == "c"):
        other, const = (t[3], t[2]) if t[2][0] == "c" else (t[2], t[3])
        same = eval_bool(other, atom) is const[1] if isinstance(const[1], bool) else None
        if same is None:
            raise AnalysisError(f"terms: cannot evaluate {show(t)}")
        return same if t[1] in ("is", "==") else not same
    raise AnalysisError(f"terms: cannot evaluate boolean term {show(t)[:120]}")
