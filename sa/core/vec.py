"""Vectorised abstract interpreter for loop-free guard cascades over a FINITE input domain.

Every variable is a numpy array indexed by the cells of the domain (e.g. 65 536 header values x 64 receiver
contexts). Statements are interpreted under an activity mask, so one pass computes the complete decision
table `cell -> verdict` of the cascade -- exhaustively, without running the analysed program: `self.*`
reads are answered by a hook from the symbolic cell description, calls by a hook that records events.

Supported subset: Assign/AugAssign to names, stores to self attributes (recorded), If/elif/else, Return, Raise,
Pass, expression statements (calls), and expressions built from names, constants, & | ^ >> << + - * // %,
comparisons (chains, in / not in over constant collections, is / is not None), and/or/not, IfExp, calls via hook.
Anything else raises AnalysisError naming the construct.
"""
import ast

import numpy as np

from .index import AnalysisError
from . import norm


class Opaque:
    """A value the interpreter does not model (strings, objects). Only allowed where it does not decide a branch."""

    def __init__(self, what=""):
        self.what = what

    def __repr__(self):
        return f"<opaque {self.what}>"


class OptVec:
    """Per-cell Optional: `present` is a bool array; only identity tests against None and truthiness are modelled."""

    def __init__(self, present, what=""):
        self.present = present
        self.what = what


class SliceVal:
    """`buf[lower:upper]` with evaluated bounds (arrays / ints / None)."""

    def __init__(self, base, lower, upper):
        self.base, self.lower, self.upper = base, lower, upper


class Vec:
    def __init__(self, n, resolver, attr_hook, call_hook, store_hook=None):
        self.n = n
        self.res = resolver
        self.attr_hook = attr_hook  # (text, node, mask) -> value | NotImplemented
        self.call_hook = call_hook  # (call, mask, interp) -> value | NotImplemented
        self.store_hook = store_hook  # (text, value, mask, interp) -> None
        self.env = {}
        self.active = np.ones(n, dtype=bool)
        self.returned = np.zeros(n, dtype=bool)
        self.retval = {}  # label -> mask for constant returns
        self.raised = np.zeros(n, dtype=bool)
        self.events = []
        self.steps = 0

    # ---- helpers --------------------------------------------------------------------
    def arr(self, v, dtype=None):
        if isinstance(v, np.ndarray):
            return v
        if isinstance(v, bool):
            return np.full(self.n, v, dtype=bool)
        if isinstance(v, int):
            if abs(v) >= 2 ** 62:
                return np.full(self.n, v, dtype=object)
            return np.full(self.n, v, dtype=np.int64)
        raise AnalysisError(f"value {v!r} cannot be used arithmetically in the cascade")

    def truth(self, v):
        if isinstance(v, np.ndarray):
            if v.dtype == bool:
                return v
            return v != 0
        if isinstance(v, OptVec):
            return v.present
        if isinstance(v, Opaque):
            raise AnalysisError(f"branch decided by an unmodelled value {v!r}")
        if v is None:
            return np.zeros(self.n, dtype=bool)
        if isinstance(v, (bool, int)):
            return np.full(self.n, bool(v), dtype=bool)
        if isinstance(v, (bytes, str, list, tuple)):
            return np.full(self.n, bool(v), dtype=bool)
        raise AnalysisError(f"cannot take truth value of {v!r}")

    # ---- statements -----------------------------------------------------------------
    def run(self, stmts, mask=None):
        if mask is None:
            mask = self.active.copy()
        for st in stmts:
            mask = mask & self.active
            if not mask.any():
                return
            self.stmt(st, mask)

    def stmt(self, st, mask):
        self.steps += 1
        if isinstance(st, ast.If):
            c = self.truth(self.eval(st.test, mask))
            self.run(st.body, mask & c)
            if st.orelse:
                self.run(st.orelse, mask & ~c & self.active)
            return
        if isinstance(st, ast.Assign):
            v = self.eval(st.value, mask)
            for t in st.targets:
                self.assign(t, v, mask)
            return
        if isinstance(st, ast.AnnAssign):
            if st.value is not None:
                self.assign(st.target, self.eval(st.value, mask), mask)
            return
        if isinstance(st, ast.AugAssign):
            if isinstance(st.target, ast.Name):
                cur = self.eval(ast.Name(id=st.target.id, ctx=ast.Load()), mask)
            elif isinstance(st.target, ast.Attribute):
                # `x.a op= v` is `x.a = x.a op v` (the receiver is a plain name in the code analysed: evaluated once either way)
                import copy
                load = copy.deepcopy(st.target)
                load.ctx = ast.Load()
                cur = self.eval(ast.copy_location(load, st), mask)
            else:
                raise AnalysisError(f"augmented assignment to {ast.unparse(st.target)} not modelled")
            v = self.binop(st.op, cur, self.eval(st.value, mask))
            self.assign(st.target, v, mask)
            return
        if isinstance(st, ast.Return):
            label = "None"
            if st.value is not None:
                if isinstance(st.value, ast.Constant):
                    label = repr(st.value.value)
                else:
                    try:
                        v = self.eval(st.value, mask)
                    except AnalysisError:
                        v = Opaque("return")
                    label = "expr:" + ast.unparse(st.value)
                    self.events.append(("return-expr", mask.copy(), v, st))
            self.retval[label] = self.retval.get(label, np.zeros(self.n, dtype=bool)) | mask
            self.returned |= mask
            self.active &= ~mask
            return
        if isinstance(st, ast.Raise):
            self.events.append(("raise", mask.copy(), ast.unparse(st), st))
            self.raised |= mask
            self.active &= ~mask
            return
        if isinstance(st, ast.Pass):
            return
        if isinstance(st, ast.Expr):
            if isinstance(st.value, ast.Constant):
                return
            self.eval(st.value, mask)
            return
        raise AnalysisError(f"statement kind {type(st).__name__} at line {st.lineno} is outside the cascade subset")

    def assign(self, t, v, mask):
        if isinstance(t, ast.Name):
            old = self.env.get(t.id)
            if isinstance(v, np.ndarray) or isinstance(v, (bool, int)) and not isinstance(old, Opaque):
                va = self.arr(v)
                if isinstance(old, np.ndarray):
                    if old.dtype != va.dtype:
                        if old.dtype == object or va.dtype == object:
                            old, va = old.astype(object), va.astype(object)
                        else:
                            old, va = old.astype(np.int64), va.astype(np.int64)
                    self.env[t.id] = np.where(mask, va, old)
                else:
                    self.env[t.id] = va.copy()
                    self.env.setdefault("__partial__", {})[t.id] = mask.copy()
            else:
                self.env[t.id] = v
            return
        if isinstance(t, ast.Attribute):
            if self.store_hook is not None:
                self.store_hook(norm.text(t), v, mask, self)
                return
        if isinstance(t, (ast.Tuple, ast.List)) and isinstance(v, (list, tuple)) and len(v) == len(t.elts):
            for tt, vv in zip(t.elts, v):
                self.assign(tt, vv, mask)
            return
        raise AnalysisError(f"store to {ast.unparse(t)} not modelled")

    # ---- expressions -----------------------------------------------------------------
    def eval(self, e, mask):
        if isinstance(e, ast.Constant):
            return e.value
        if isinstance(e, ast.Name):
            if e.id in self.env:
                return self.env[e.id]
            r = self.attr_hook(e.id, e, mask)
            if r is not NotImplemented:
                return r
            ok, v = self.res.const(e)
            if ok:
                return v
            raise AnalysisError(f"name {e.id} has no value in the cascade")
        if isinstance(e, (ast.Attribute, ast.Subscript)):
            r = self.attr_hook(norm.text(e), e, mask)
            if r is not NotImplemented:
                return r
            if isinstance(e, ast.Attribute):
                ok, v = self.res.const(e)
                if ok:
                    return v
            if isinstance(e, ast.Subscript):
                okt, tab = (self.res.program.try_const(e.value, self.res.module, self.res.cls) if isinstance(e.value, ast.Name) and hasattr(self.res, "program") else (False, None))
                if okt and isinstance(tab, (dict, tuple, list)) and not isinstance(e.slice, ast.Slice):
                    r = self._table_lookup(tab, self.eval(e.slice, mask), None, False)
                    if r is not NotImplemented:
                        return r
                base = self.eval(e.value, mask)
                if isinstance(base, (list, tuple)) and isinstance(e.slice, ast.Constant):
                    return base[e.slice.value]
            raise AnalysisError(f"read of {ast.unparse(e)} not modelled")
        if isinstance(e, ast.BoolOp):
            m = mask.copy()
            if isinstance(e.op, ast.And):
                res = np.ones(self.n, dtype=bool)
                for v in e.values:
                    x = self.truth(self.eval(v, m))
                    res &= x
                    m &= x
                return res
            res = np.zeros(self.n, dtype=bool)
            for v in e.values:
                x = self.truth(self.eval(v, m))
                res |= x
                m &= ~x
            return res
        if isinstance(e, ast.UnaryOp):
            v = self.eval(e.operand, mask)
            if isinstance(e.op, ast.Not):
                return ~self.truth(v)
            if isinstance(e.op, ast.USub):
                return -self.arr(v) if isinstance(v, np.ndarray) else -v
            if isinstance(e.op, ast.Invert):
                return ~self.arr(v)
        if isinstance(e, ast.BinOp):
            return self.binop(e.op, self.eval(e.left, mask), self.eval(e.right, mask))
        if isinstance(e, ast.Compare):
            left = self.eval(e.left, mask)
            res = np.ones(self.n, dtype=bool)
            for op, rn in zip(e.ops, e.comparators):
                right = self.eval(rn, mask)
                res &= self.compare(op, left, right, e)
                left = right
            return res
        if isinstance(e, ast.IfExp):
            c = self.truth(self.eval(e.test, mask))
            a = self.eval(e.body, mask & c)
            b = self.eval(e.orelse, mask & ~c)
            if isinstance(a, Opaque) or isinstance(b, Opaque):
                return Opaque("ifexp")
            return np.where(c, self.arr(a), self.arr(b))
        if isinstance(e, ast.Call):
            r = self.call_hook(e, mask, self)
            if r is NotImplemented:
                r = self._generic_call(e, mask)
            if r is NotImplemented:
                raise AnalysisError(f"call {ast.unparse(e)[:80]} not modelled in the cascade")
            return r
        if isinstance(e, (ast.List, ast.Tuple, ast.Set)):
            return [self.eval(x, mask) for x in e.elts]
        if isinstance(e, ast.JoinedStr):
            return Opaque("f-string")
        raise AnalysisError(f"expression {ast.unparse(e)[:80]} outside the cascade subset")

    def _table_lookup(self, table, key, default, have_default):
        """vectorised TABLE[key] / TABLE.get(key, default) for a constant table (dict / tuple / list of plain values)"""
        items = list(table.items()) if isinstance(table, dict) else list(enumerate(table))
        if not all(isinstance(k, int) and not isinstance(k, bool) and isinstance(v, (int, bool)) for k, v in items):
            return NotImplemented
        if not isinstance(key, np.ndarray):
            if isinstance(key, (int, np.integer)):
                d = dict(items)
                if key in d:
                    return d[key]
                if have_default:
                    return default
            return NotImplemented
        if not have_default:
            if not np.isin(key, [k for k, _ in items]).all():
                return NotImplemented   # a miss would raise KeyError / IndexError on some cell
            default = 0
        if isinstance(default, np.ndarray):
            out = default.copy()
        elif isinstance(default, (int, bool, np.integer)):
            out = np.full(self.n, int(default), dtype=np.int64)
        else:
            return NotImplemented
        for k, v in items:
            out = np.where(key == k, int(v), out)
        return out

    def _generic_call(self, e, mask):
        """calls the rule's hook does not know: lookups in constant tables of the module and calls to *expression helpers* (module-level functions /
        static methods whose body is `[t = <expr>;]* return <expr>` over their parameters) are evaluated in place"""
        f = e.func
        if isinstance(f, ast.Name) and f.id == "divmod" and len(e.args) == 2 and not e.keywords:
            a_, b_ = self.eval(e.args[0], mask), self.eval(e.args[1], mask)
            return [self.binop(ast.FloorDiv(), a_, b_), self.binop(ast.Mod(), a_, b_)]
        if isinstance(f, ast.Attribute) and f.attr == "get" and 1 <= len(e.args) <= 2 and not e.keywords:
            ok, tab = self.res.const(f.value)
            if not ok and isinstance(f.value, ast.Name) and f.value.id.startswith("_"):
                ok, tab = self.res.program.try_const(f.value, self.res.module, self.res.cls)
            if ok and isinstance(tab, dict):
                key = self.eval(e.args[0], mask)
                dflt = self.eval(e.args[1], mask) if len(e.args) == 2 else None
                if len(e.args) == 2:
                    return self._table_lookup(tab, key, dflt, True)
            return NotImplemented
        target = None
        prog = getattr(self.res, "program", None)
        if prog is not None and isinstance(f, ast.Name):
            target = getattr(self.res.module, "funcs", {}).get(f.id)
        elif prog is not None and isinstance(f, ast.Attribute) and isinstance(f.value, ast.Name) and f.value.id in ("self", "cls") and self.res.cls is not None:
            m_ = prog.lookup_method(self.res.cls, f.attr)
            if m_ is not None and any(isinstance(d, ast.Name) and d.id == "staticmethod" for d in m_.node.decorator_list):
                target = m_
        if target is None or e.keywords or getattr(self, "_inl_depth", 0) > 3:
            return NotImplemented
        a = target.node.args
        if a.vararg or a.kwarg or a.kwonlyargs or len(a.args) != len(e.args):
            return NotImplemented
        body = [s_ for s_ in target.node.body if not (isinstance(s_, ast.Expr) and isinstance(s_.value, ast.Constant))]
        if not body or not isinstance(body[-1], ast.Return) or body[-1].value is None or \
                not all(isinstance(s_, ast.Assign) and len(s_.targets) == 1 and isinstance(s_.targets[0], ast.Name) for s_ in body[:-1]):
            return NotImplemented
        saved = dict(self.env)
        self._inl_depth = getattr(self, "_inl_depth", 0) + 1
        try:
            vals = [self.eval(x, mask) for x in e.args]
            for prm, v in zip(a.args, vals):
                self.env[prm.arg] = v
            for s_ in body[:-1]:
                self.env[s_.targets[0].id] = self.eval(s_.value, mask)
            return self.eval(body[-1].value, mask)
        finally:
            self._inl_depth -= 1
            self.env.clear()
            self.env.update(saved)

    def binop(self, op, a, b):
        if isinstance(a, Opaque) or isinstance(b, Opaque):
            return Opaque("binop")
        if not isinstance(a, np.ndarray) and not isinstance(b, np.ndarray):
            if isinstance(a, (bytes, str)) or isinstance(b, (bytes, str)):
                return Opaque("bytes")
            f = {ast.Add: lambda x, y: x + y, ast.Sub: lambda x, y: x - y, ast.Mult: lambda x, y: x * y,
                 ast.BitAnd: lambda x, y: x & y, ast.BitOr: lambda x, y: x | y, ast.BitXor: lambda x, y: x ^ y,
                 ast.RShift: lambda x, y: x >> y, ast.LShift: lambda x, y: x << y, ast.FloorDiv: lambda x, y: x // y,
                 ast.Mod: lambda x, y: x % y, ast.Pow: lambda x, y: x ** y}.get(type(op))
            if f is None:
                raise AnalysisError(f"operator {type(op).__name__} not modelled")
            return f(a, b)
        A, B = self.arr(a), self.arr(b)
        if A.dtype == bool:
            A = A.astype(np.int64)
        if B.dtype == bool:
            B = B.astype(np.int64)
        f = {ast.Add: np.add, ast.Sub: np.subtract, ast.Mult: np.multiply, ast.BitAnd: np.bitwise_and,
             ast.BitOr: np.bitwise_or, ast.BitXor: np.bitwise_xor, ast.RShift: np.right_shift,
             ast.LShift: np.left_shift, ast.FloorDiv: np.floor_divide, ast.Mod: np.mod, ast.Pow: np.power}.get(type(op))
        if f is None:
            raise AnalysisError(f"operator {type(op).__name__} not modelled")
        if A.dtype == object or B.dtype == object:
            pyf = {ast.Add: lambda x, y: x + y, ast.Sub: lambda x, y: x - y, ast.Mult: lambda x, y: x * y,
                   ast.BitAnd: lambda x, y: x & y, ast.BitOr: lambda x, y: x | y, ast.RShift: lambda x, y: x >> y,
                   ast.LShift: lambda x, y: x << y, ast.Pow: lambda x, y: x ** y}.get(type(op))
            return np.array([pyf(int(x), int(y)) for x, y in zip(A, B)], dtype=object)
        return f(A, B)

    def compare(self, op, a, b, e):
        if isinstance(op, (ast.Is, ast.IsNot)):
            if b is None or a is None:
                other = a if b is None else b
                if isinstance(other, OptVec):
                    r = ~other.present
                elif isinstance(other, np.ndarray):
                    # arrays model ints/bools here; a separate hook models Optional values
                    r = np.zeros(self.n, dtype=bool)
                elif isinstance(other, Opaque):
                    raise AnalysisError(f"identity test on unmodelled value in {ast.unparse(e)}")
                else:
                    r = np.full(self.n, other is None, dtype=bool)
                return r if isinstance(op, ast.Is) else ~r
            raise AnalysisError(f"identity comparison {ast.unparse(e)} not modelled")
        if isinstance(op, (ast.In, ast.NotIn)):
            if isinstance(b, (list, tuple, set, frozenset)) and all(isinstance(x, (int, bool)) for x in b):
                r = np.isin(self.arr(a), np.array(list(b), dtype=np.int64)) if len(b) else np.zeros(self.n, dtype=bool)
                return r if isinstance(op, ast.In) else ~r
            raise AnalysisError(f"membership test {ast.unparse(e)} over a non-constant collection")
        if isinstance(a, Opaque) or isinstance(b, Opaque):
            raise AnalysisError(f"comparison on an unmodelled value in {ast.unparse(e)}")
        A, B = self.arr(a), self.arr(b)
        if A.dtype == object or B.dtype == object:
            pf = {ast.Eq: lambda x, y: x == y, ast.NotEq: lambda x, y: x != y, ast.Lt: lambda x, y: x < y,
                  ast.LtE: lambda x, y: x <= y, ast.Gt: lambda x, y: x > y, ast.GtE: lambda x, y: x >= y}[type(op)]
            return np.array([pf(int(x), int(y)) for x, y in zip(A, B)], dtype=bool)
        f = {ast.Eq: np.equal, ast.NotEq: np.not_equal, ast.Lt: np.less, ast.LtE: np.less_equal,
             ast.Gt: np.greater, ast.GtE: np.greater_equal}.get(type(op))
        if f is None:
            raise AnalysisError(f"comparison {ast.unparse(e)} not modelled")
        return f(A, B)
