"""Normalisation of expressions and branch conditions into comparable atoms.

A fact is a tuple (kind, lhs, rhs, polarity):
  ('eq',    text, key, pol)    lhs == rhs
  ('lt',    key,  key, pol)    a < b
  ('in',    text, key, pol)    lhs in collection (key = ('c', frozenset) when constant)
  ('is',    text, key, pol)    identity (None tests)
  ('truth', text, None, pol)   bool(lhs)
  ('isinst',text, type_text, pol)
key = ('c', value) for constants, ('e', text) for other expressions.
Equivalent spellings map to the same fact: a != b == not(a == b); a > b == b < a; a >= b == not(a < b);
`not x`, `x not in`, `x is not` flip the polarity; constants are resolved through class/module constants.
"""
import ast

_MENTIONS = {}


class Resolver:
    """Resolves constant expressions in the context of a function (module + class)."""

    def __init__(self, program, module, cls=None):
        self.program = program
        self.module = module
        self.cls = cls

    def const(self, expr):
        if isinstance(expr, ast.Constant):
            return True, expr.value
        if isinstance(expr, (ast.Name,)) and expr.id in ("self", "cls"):
            return False, None
        if isinstance(expr, ast.Attribute) and isinstance(expr.value, ast.Name) and expr.value.id == "self":
            # instance attribute, only class-level UPPERCASE names are constants
            if not expr.attr.isupper():
                return False, None
        if isinstance(expr, (ast.Name, ast.Attribute)) and not _last(expr).replace("_", "").isupper():
            return False, None
        ok, v = self.program.try_const(expr, self.module, self.cls)
        return ok, v


def _last(expr):
    return expr.attr if isinstance(expr, ast.Attribute) else getattr(expr, "id", "")


def text(expr):
    return ast.unparse(expr)


def _hashable(v):
    if isinstance(v, (list, tuple)):
        return tuple(_hashable(x) for x in v)
    if isinstance(v, (set, frozenset)):
        return frozenset(_hashable(x) for x in v)
    if isinstance(v, dict):
        return tuple(sorted((repr(k), _hashable(x)) for k, x in v.items()))
    return v


def key(expr, resolver=None):
    if isinstance(expr, ast.Constant):
        return ("c", expr.value)
    if isinstance(expr, (ast.List, ast.Tuple, ast.Set)):
        vals = []
        for e in expr.elts:
            k = key(e, resolver)
            if k[0] != "c":
                return ("e", text(expr))
            vals.append(k[1])
        return ("c", tuple(vals))
    if isinstance(expr, ast.UnaryOp) and isinstance(expr.op, ast.USub) and isinstance(expr.operand, ast.Constant):
        return ("c", -expr.operand.value)
    if resolver is not None and isinstance(expr, (ast.Name, ast.Attribute, ast.BinOp)):
        ok, v = resolver.const(expr) if not isinstance(expr, ast.BinOp) else resolver.program.try_const(
            expr, resolver.module, resolver.cls)
        if ok:
            try:
                hv = _hashable(v)
                hash(hv)
                return ("c", hv)
            except TypeError:
                pass
    return ("e", text(expr))


def mentions_of(*exprs):
    out = set()
    for e in exprs:
        if e is None:
            continue
        for n in ast.walk(e):
            if isinstance(n, ast.Name):
                out.add(n.id)
            elif isinstance(n, ast.Attribute):
                try:
                    out.add(ast.unparse(n))
                except Exception:
                    pass
            elif isinstance(n, ast.Subscript):
                out.add(ast.unparse(n))
    return frozenset(out)


def _mk(fact, *exprs):
    if fact not in _MENTIONS:
        _MENTIONS[fact] = mentions_of(*exprs)
    else:
        _MENTIONS[fact] = _MENTIONS[fact] | mentions_of(*exprs)
    return fact


def mentions(fact):
    return _MENTIONS.get(fact, frozenset())


def fact_killed(fact, kills):
    if "*" in kills:
        return True
    for m in mentions(fact):
        for k in kills:
            if m == k or m.startswith(k + ".") or m.startswith(k + "["):
                return True
            if k == "*self" and (m == "self" or m.startswith("self.")):
                return True
    return False


def atoms(expr, pol=True, resolver=None):
    """Facts known when `expr` evaluated to `pol` (a conjunction; compound leftovers kept whole)."""
    if isinstance(expr, ast.UnaryOp) and isinstance(expr.op, ast.Not):
        return atoms(expr.operand, not pol, resolver)
    if isinstance(expr, ast.BoolOp):
        conj = isinstance(expr.op, ast.And)
        if conj == pol:
            out = []
            for v in expr.values:
                out.extend(atoms(v, pol, resolver))
            return out
        # `x == A or x == B or x in (C, D)` (and the De Morgan dual under `not`): one membership fact, same as `x in (A, B, C, D)`
        subs = [atoms(v, pol, resolver) for v in expr.values]
        if all(len(sub) == 1 and sub[0][0] in ("eq", "in") and sub[0][3] is True and isinstance(sub[0][2], tuple) and sub[0][2][0] == "c" for sub in subs) \
                and len({sub[0][1] for sub in subs}) == 1:
            vals = set()
            try:
                for sub in subs:
                    if sub[0][0] == "eq":
                        vals.add(sub[0][2][1])
                    else:
                        vals |= set(sub[0][2][1])
                return [_mk(("in", subs[0][0][1], ("c", frozenset(vals)), True), expr)]
            except TypeError:
                pass
        # disjunctive knowledge: keep as one opaque fact over the canonical forms of its parts
        parts = []
        for v in expr.values:
            sub = atoms(v, pol, resolver)
            parts.append(tuple(sorted(map(repr, sub))))
        f = ("any", tuple(sorted(parts)), None, True)
        return [_mk(f, expr)]
    if isinstance(expr, ast.Compare):
        out = []
        left = expr.left
        pieces = []
        for op, right in zip(expr.ops, expr.comparators):
            pieces.append((left, op, right))
            left = right
        if len(pieces) > 1 and not pol:
            sub = [tuple(sorted(map(repr, _cmp(l, o, r, True, resolver)))) for l, o, r in pieces]
            return [_mk(("any", tuple(sorted(sub)), None, False), expr)]
        for l, o, r in pieces:
            out.extend(_cmp(l, o, r, pol, resolver))
        return out
    if isinstance(expr, ast.Call) and isinstance(expr.func, ast.Name) and expr.func.id == "isinstance" and len(
            expr.args) == 2:
        return [_mk(("isinst", text(expr.args[0]), text(expr.args[1]), pol), expr)]
    if isinstance(expr, ast.Constant):
        return []
    return [_mk(("truth", text(expr), None, pol), expr)]


def _cmp(l, op, r, pol, resolver):
    kl, kr = key(l, resolver), key(r, resolver)
    if isinstance(op, (ast.Eq, ast.NotEq)):
        if isinstance(op, ast.NotEq):
            pol = not pol
        # constant on the right
        if kl[0] == "c" and kr[0] != "c":
            l, r, kl, kr = r, l, kr, kl
        elif kl[0] != "c" and kr[0] != "c" and text(l) > text(r):
            l, r, kl, kr = r, l, kr, kl
        return [_mk(("eq", text(l), kr, pol), l, r)]
    if isinstance(op, (ast.Is, ast.IsNot)):
        if isinstance(op, ast.IsNot):
            pol = not pol
        if kl[0] == "c" and kr[0] != "c":
            l, r, kl, kr = r, l, kr, kl
        return [_mk(("is", text(l), kr, pol), l, r)]
    if isinstance(op, (ast.In, ast.NotIn)):
        if isinstance(op, ast.NotIn):
            pol = not pol
        if kr[0] == "c" and isinstance(kr[1], (tuple, frozenset)):
            kr = ("c", frozenset(kr[1]))
            if len(kr[1]) == 1:
                return [_mk(("eq", text(l), ("c", next(iter(kr[1]))), pol), l, r)]
        return [_mk(("in", text(l), kr, pol), l, r)]
    if isinstance(op, ast.Lt):
        return [_mk(("lt", kl, kr, pol), l, r)]
    if isinstance(op, ast.Gt):
        return [_mk(("lt", kr, kl, pol), l, r)]
    if isinstance(op, ast.GtE):
        return [_mk(("lt", kl, kr, not pol), l, r)]
    if isinstance(op, ast.LtE):
        return [_mk(("lt", kr, kl, not pol), l, r)]
    return [_mk(("truth", text(ast.Compare(left=l, ops=[op], comparators=[r])), None, pol), l, r)]


def assign_fact(target, value, resolver=None):
    k = key(value, resolver)
    if k[0] != "c":
        return None
    t = text(target)
    if k[1] is None:
        return _mk(("is", t, k, True), target)
    return _mk(("eq", t, k, True), target)


def values_allowed(facts, lhs, domain):
    """Subset of `domain` (finite) that variable text `lhs` can take given the facts."""
    dom = set(domain)
    for f in facts or ():
        kind, a, b, pol = f
        if kind == "eq" and a == lhs and b[0] == "c":
            dom = {v for v in dom if (v == b[1]) == pol}
        elif kind == "in" and a == lhs and b[0] == "c":
            dom = {v for v in dom if (v in b[1]) == pol}
        elif kind == "is" and a == lhs and b[0] == "c":
            dom = {v for v in dom if (v is b[1] or v == b[1]) == pol}
        elif kind == "lt":
            if a == ("e", lhs) and b[0] == "c":
                dom = {v for v in dom if v is not None and (v < b[1]) == pol}
            elif b == ("e", lhs) and a[0] == "c":
                dom = {v for v in dom if v is not None and (a[1] < v) == pol}
    return dom


def is_truthy_known(facts, lhs):
    """True/False/None: truthiness of expression text `lhs` known from facts."""
    for f in facts or ():
        kind, a, b, pol = f
        if kind == "truth" and a == lhs:
            return pol
        if kind == "is" and a == lhs and b == ("c", None) and pol:
            return False
    return None


def not_none_known(facts, lhs):
    for f in facts or ():
        kind, a, b, pol = f
        if kind == "is" and a == lhs and b == ("c", None) and not pol:
            return True
        if kind == "truth" and a == lhs and pol:
            return True
        if kind == "eq" and a == lhs and b[0] == "c" and b[1] is not None and pol:
            return True
    return False
