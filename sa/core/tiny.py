"""Cell-wise abstract evaluation of straight-line + if/else code over a SMALL finite domain of sizes.

Values are Python ints / bools or `Buf(lo, hi)`: a slice [lo, hi) of one named input buffer whose length is a cell
parameter. Only the arithmetic of lengths and slice bounds is modelled (what a buffer contains is irrelevant), so the
result for a handful of sizes 0..N decides index-agreement questions ("the cut and the remainder use the same index") for
all sizes: every expression in the subset is piecewise linear in the sizes with breakpoints at equalities between them.
Nothing of the analysed program is executed; unsupported constructs raise AnalysisError.
"""
import ast

from .index import AnalysisError
from . import norm


NODE_MODULE = {}   # id(statement node of a loaded module) -> Module: lets the evaluator find the module the evaluated code lives in
NODE_CLASS = {}    # id(statement node inside a class) -> [ClassDef of the class, ClassDefs of its bases defined in the same module]


class TinyRaise(Exception):
    """The evaluated code would raise this (built-in) exception on the cell."""


class Buf:
    __slots__ = ("lo", "hi")

    def __init__(self, lo, hi):
        self.lo, self.hi = lo, hi

    def __len__(self):
        return max(0, self.hi - self.lo)

    def __eq__(self, o):
        return isinstance(o, Buf) and (len(self) == 0 and len(o) == 0 or (self.lo, self.hi) == (o.lo, o.hi))

    def __hash__(self):
        return hash((self.lo, self.hi)) if len(self) else 0

    def __repr__(self):
        return f"buf[{self.lo}:{self.hi}]"

    def slice(self, lo, hi):
        n = len(self)
        lo = 0 if lo is None else (max(0, n + lo) if lo < 0 else min(lo, n))
        hi = n if hi is None else (max(0, n + hi) if hi < 0 else min(hi, n))
        return Buf(self.lo + lo, self.lo + max(lo, hi))


_PYTYPES = {"list": list, "dict": dict, "int": int, "bool": bool, "str": str, "bytes": bytes, "tuple": tuple, "float": float, "set": set,
            "object": object, "bytearray": bytearray, "memoryview": memoryview}


def _pytype(v):
    """The Python type of a model value: byte strings known by length are `bytes`; an opaque object has the class given as its
    `pytype` attribute (a Sym standing for a class, or a Python type) -- without one its type is unknown (checker blind)."""
    if isinstance(v, Buf):
        return bytes
    if isinstance(v, Sym):
        if "pytype" in v.attrs:
            return v.attrs["pytype"]
        raise AnalysisError(f"tiny: type of opaque object {v.name}")
    return type(v)


_STR_METHODS = {"startswith", "endswith", "lower", "upper", "strip", "lstrip", "rstrip", "isdigit", "split", "rsplit", "find", "rfind", "replace", "join",
                "partition", "rpartition", "count", "encode", "decode", "title", "splitlines", "format", "index", "isalnum", "isalpha", "zfill"}


def _to_py(v):
    """model value -> Python value for a pure string operation (the empty string is modelled as the empty buffer)"""
    if isinstance(v, Buf) and len(v) == 0:
        return ""
    if isinstance(v, list):
        return [_to_py(x) for x in v]
    return v


def _from_py(v):
    if isinstance(v, (str, bytes)) and len(v) == 0:
        return Buf(0, 0)
    if isinstance(v, (list, tuple)):
        return [_from_py(x) for x in v]
    return v


class _LazyIter:
    """for-loop view of an iterator object: element i is fetched when the loop reaches it"""

    def __init__(self, it):
        self.it, self.buf = it, []

    def more(self, i):
        while len(self.buf) <= i:
            try:
                self.buf.append(next(self.it))
            except StopIteration:
                return False
        return True

    def __getitem__(self, i):
        return self.buf[i]


def _hk(v):
    """a tuple value (a list in this model) as a dict key: a real tuple, recursively"""
    return tuple(_hk(x) for x in v) if isinstance(v, list) else v


def _const_eval(node):
    """literal value of a constant expression: a literal display, or integer arithmetic over literals (`2**53`, `1 << 24`, `16 * 1024`)"""
    try:
        return ast.literal_eval(node)
    except (ValueError, TypeError, SyntaxError):
        pass
    import operator as _op
    ops = {ast.Add: _op.add, ast.Sub: _op.sub, ast.Mult: _op.mul, ast.Pow: _op.pow, ast.LShift: _op.lshift, ast.RShift: _op.rshift, ast.BitOr: _op.or_, ast.BitAnd: _op.and_,
           ast.FloorDiv: _op.floordiv, ast.Mod: _op.mod}

    def go(n):
        if isinstance(n, ast.Constant) and isinstance(n.value, int) and not isinstance(n.value, bool):
            return n.value
        if isinstance(n, ast.BinOp) and type(n.op) in ops:
            a, b = go(n.left), go(n.right)
            if isinstance(n.op, (ast.Pow, ast.LShift)) and not (0 <= b <= 4096):
                raise ValueError("exponent")
            return ops[type(n.op)](a, b)
        if isinstance(n, ast.UnaryOp) and isinstance(n.op, (ast.USub, ast.UAdd, ast.Invert)):
            v = go(n.operand)
            return -v if isinstance(n.op, ast.USub) else (~v if isinstance(n.op, ast.Invert) else v)
        raise ValueError("not a constant expression")
    try:
        return go(node)
    except (ValueError, ZeroDivisionError, TypeError):
        raise ValueError("not a constant expression")


class Tiny:
    def __init__(self, env, calls=None, default_call=None, model_types=False, opaque_globals=False, inline_self=None, model_strings=False, local_defs=False):
        self.model_strings = model_strings  # opt-in: pure str/bytes operations on the model's own constants (split, find, slicing, int(), join ...)
        self.local_defs = local_defs  # opt-in: a `def` inside the evaluated code can be called by name (its body is evaluated on the cell)
        self.inline_self = inline_self  # opt-in: method name -> ast.FunctionDef of a method of the same object, evaluated in place (own locals, shared self)
        self.opaque_globals = opaque_globals  # opt-in: a dotted global the rule did not bind (module.Class.CONST) is an opaque object
        self.model_types = model_types  # opt-in: type()/isinstance()/builtin type names answered from the Python type of the model value
        self.env = dict(env)  # text -> value
        # `obj.attr` cells given without the object itself (msg.request, msg.args ...): the object exists too, holding exactly those attributes, so that
        # code which hands the whole object to a helper (`_args_of(handler, msg)`) reads the same cells through the helper's parameter
        roots = {}
        for k_ in self.env:
            if k_.count(".") == 1 and "(" not in k_ and "[" not in k_:
                r_, a_ = k_.split(".")
                if r_.isidentifier() and a_.isidentifier() and r_ != "self" and r_ not in self.env and not r_[:1].isupper():
                    roots.setdefault(r_, {})[a_] = self.env[k_]
        for r_, attrs_ in roots.items():
            self.env[r_] = Sym(r_, **attrs_)
        self.calls = calls or {}  # text of call -> value
        self.default_call = default_call  # (function text, evaluated args) -> value, for calls not listed in `calls`
        self.trace = []  # (text of call, evaluated args) for calls seen in expression statements / values

    def ev(self, e):
        if isinstance(e, ast.Constant):
            if e.value in (b"", ""):
                return Buf(0, 0)
            if isinstance(e.value, (int, bool, str)) or e.value is None:
                return e.value
            if self.model_strings and isinstance(e.value, (bytes, float)):
                return e.value
            raise AnalysisError(f"tiny: constant {e.value!r}")
        if isinstance(e, (ast.List, ast.Tuple)):
            out_ = []
            for x in e.elts:
                if isinstance(x, ast.Starred):   # (*a, b): the elements of a, in place
                    v_ = self.ev(x.value)
                    if isinstance(v_, (int, float)) or v_ is None:
                        raise TinyRaise("TypeError")
                    if not isinstance(v_, (list, tuple)):
                        raise AnalysisError(f"tiny: unpacking of {ast.unparse(x.value)[:40]}")
                    out_.extend(v_)
                else:
                    out_.append(self.ev(x))
            return out_
        if isinstance(e, ast.Dict):
            # a tuple display as key is a tuple (hashable), not the list the model uses for tuple values
            return {(_hk(self.ev(k)) if isinstance(k, ast.Tuple) else self.ev(k)): self.ev(v) for k, v in zip(e.keys, e.values) if k is not None}
        if isinstance(e, ast.Set):
            try:
                return {self.ev(x) for x in e.elts}
            except TypeError:
                raise TinyRaise("TypeError")
        if isinstance(e, (ast.Name, ast.Attribute)):
            t = norm.text(e)
            if t in self.env:
                return self.env[t]
            if isinstance(e, ast.Attribute):
                try:
                    base = self.ev(e.value)
                except AnalysisError:
                    base = None
                if isinstance(base, Sym) and e.attr in base.attrs:
                    return base.attrs[e.attr]
                if isinstance(base, dict) and e.attr == "get":
                    # d.get as a value (handed to map(), stored in a local): a callable that looks up in that dict
                    def _bound_get(*a_, _d=base):
                        if not 1 <= len(a_) <= 2:
                            raise TinyRaise("TypeError")
                        try:
                            return _d.get(*a_)
                        except TypeError:
                            raise TinyRaise("TypeError")
                    return Sym("<bound dict.get>", methods={"__call__": _bound_get})
                if isinstance(base, Sym) and e.attr in base.methods and callable(base.methods[e.attr]):
                    return Sym(f"<bound {base.name}.{e.attr}>", methods={"__call__": base.methods[e.attr]})
            if self.model_types and isinstance(e, ast.Name) and t in _PYTYPES:
                return _PYTYPES[t]
            if isinstance(e, ast.Attribute) and isinstance(e.value, ast.Name) and e.value.id == "self" and getattr(self, "klass", None) is not None:
                # a class-level table / constant given as a literal (`_NAMES = ("a", "b")` in the class body, read as self._NAMES)
                for k_ in self.klass:
                    for st_ in k_.body:
                        if isinstance(st_, ast.Assign) and len(st_.targets) == 1 and isinstance(st_.targets[0], ast.Name) and st_.targets[0].id == e.attr:
                            sv_ = st_.value
                            if isinstance(sv_, ast.Call) and norm.text(sv_.func) in ("struct.Struct", "Struct") and len(sv_.args) == 1 and not sv_.keywords \
                                    and isinstance(sv_.args[0], ast.Constant) and isinstance(sv_.args[0].value, str) and self.default_call is not None:
                                # a precompiled struct format: S.pack(a, ..) is struct.pack(fmt, a, ..) etc. -- answered by the rule's oracle under those names
                                import struct as _struct
                                fmt_ = sv_.args[0].value
                                dc_ = self.default_call
                                return Sym(f"struct.Struct({fmt_!r})", format=fmt_, size=_struct.calcsize(fmt_), methods={
                                    "pack": lambda *a_: dc_("struct.pack", [fmt_] + list(a_)),
                                    "unpack": lambda b_: dc_("struct.unpack", [fmt_, b_]),
                                    "unpack_from": lambda b_, off_=0: dc_("struct.unpack_from", [fmt_, b_, off_])})
                            try:
                                v_ = _const_eval(st_.value)
                            except (ValueError, TypeError, SyntaxError):
                                # a display over other constants of the module / class (`{FRAME_TYPE_DATA: "stringReceived", ...}`): evaluated like any expression
                                if isinstance(sv_, (ast.Dict, ast.Tuple, ast.List, ast.Set)) and getattr(self, "_cc_depth", 0) < 3:
                                    self._cc_depth = getattr(self, "_cc_depth", 0) + 1
                                    try:
                                        return self.ev(sv_)
                                    except (AnalysisError, TinyRaise):
                                        continue
                                    finally:
                                        self._cc_depth -= 1
                                continue
                            if isinstance(v_, (tuple, list, dict, set, frozenset, int, str, bytes, bool)) or v_ is None:
                                return _from_py(list(v_) if isinstance(v_, tuple) else v_) if self.model_strings else (list(v_) if isinstance(v_, tuple) else v_)
            if isinstance(e, ast.Attribute) and isinstance(e.value, ast.Name) and e.value.id == "self" and getattr(self, "klass", None) is not None:
                # a @property of the class the evaluated code lives in (or of a base in the same module): its body is evaluated in place
                for k_ in self.klass:
                    for st_ in k_.body:
                        if isinstance(st_, ast.FunctionDef) and st_.name == e.attr and any(isinstance(d_, ast.Name) and d_.id == "property" for d_ in st_.decorator_list) \
                                and len(st_.args.args) == 1 and not st_.args.vararg and not st_.args.kwarg:
                            return self._call_inline(st_, [], {})
            if isinstance(e, ast.Name) and getattr(self, "module", None) is not None and t in getattr(self.module, "consts", {}):
                # a module-level table / constant given as a literal
                try:
                    return _from_py(_const_eval(self.module.consts[t])) if self.model_strings else _const_eval(self.module.consts[t])
                except (ValueError, TypeError, SyntaxError):
                    mv_ = self.module.consts[t]
                    if isinstance(mv_, (ast.Dict, ast.Tuple, ast.List, ast.Set)) and getattr(self, "_cc_depth", 0) < 3:
                        # a module-level table over other names of the module (`{(True, "last"): _PAT_A, ...}`): evaluated like any display
                        self._cc_depth = getattr(self, "_cc_depth", 0) + 1
                        try:
                            return self.ev(mv_)
                        except (AnalysisError, TinyRaise):
                            pass
                        finally:
                            self._cc_depth -= 1
            if self.opaque_globals and t:
                root = t.split(".")[0].split("[")[0].split("(")[0]
                if root != "self" and root not in self.env and isinstance(e, ast.Attribute):
                    return Sym(f"<{t}>")
            raise AnalysisError(f"tiny: reads {t}")
        if isinstance(e, ast.Subscript):
            if norm.text(e) in self.env:
                return self.env[norm.text(e)]
            b = self.ev(e.value)
            if isinstance(b, (list, tuple)) and not isinstance(e.slice, ast.Slice):
                k = self.ev(e.slice)
                if not isinstance(k, int):
                    raise TinyRaise("TypeError")
                try:
                    return b[k]
                except IndexError:
                    raise TinyRaise("IndexError")
            if isinstance(b, dict) and not isinstance(e.slice, ast.Slice):
                k = self.ev(e.slice)
                if isinstance(e.slice, ast.Tuple):
                    k = _hk(k)   # d[a, b]: the key is the tuple (a, b) (tuples are lists in this model; as keys they are tuples again)
                try:
                    if k not in b:
                        raise TinyRaise("KeyError")
                except TypeError:  # unhashable key
                    raise TinyRaise("TypeError")
                return b[k]
            if isinstance(b, (list, tuple)) and isinstance(e.slice, ast.Slice):
                lo, hi, stp = [None if x is None else self.ev(x) for x in (e.slice.lower, e.slice.upper, e.slice.step)]
                if all(x is None or (isinstance(x, int) and not isinstance(x, bool)) for x in (lo, hi, stp)) and stp != 0:
                    return list(b[slice(lo, hi, stp)])
            if self.model_strings and (isinstance(b, (str, bytes)) or (isinstance(b, Buf) and len(b) == 0)):
                sv = "" if isinstance(b, Buf) else b
                if isinstance(e.slice, ast.Slice):
                    lo, hi, stp = [None if x is None else self.ev(x) for x in (e.slice.lower, e.slice.upper, e.slice.step)]
                    if all(x is None or (isinstance(x, int) and not isinstance(x, bool)) for x in (lo, hi, stp)) and stp != 0:
                        return _from_py(sv[slice(lo, hi, stp)])
                else:
                    k = self.ev(e.slice)
                    if isinstance(k, int):
                        try:
                            return sv[k]
                        except IndexError:
                            raise TinyRaise("IndexError")
                    raise TinyRaise("TypeError")
            if isinstance(b, Buf) and isinstance(e.slice, ast.Slice) and e.slice.step is None:
                lo = self.ev(e.slice.lower) if e.slice.lower is not None else None
                hi = self.ev(e.slice.upper) if e.slice.upper is not None else None
                return b.slice(lo, hi)
            raise AnalysisError(f"tiny: subscript {ast.unparse(e)}")
        if isinstance(e, ast.BinOp) and isinstance(e.op, (ast.Mod, ast.LShift, ast.RShift, ast.BitOr, ast.BitAnd, ast.BitXor, ast.FloorDiv, ast.Pow)):
            l, r = self.ev(e.left), self.ev(e.right)
            if isinstance(e.op, ast.BitXor) and (isinstance(l, Sym) or isinstance(r, Sym)):
                return ("xor", l, r)  # symbolic octets
            if isinstance(l, int) and isinstance(r, int):
                import operator
                return {ast.Mod: operator.mod, ast.LShift: operator.lshift, ast.RShift: operator.rshift, ast.BitOr: operator.or_, ast.BitAnd: operator.and_,
                        ast.BitXor: operator.xor, ast.FloorDiv: operator.floordiv, ast.Pow: operator.pow}[type(e.op)](l, r)
            raise AnalysisError(f"tiny: operator on {l!r}, {r!r}")
        if isinstance(e, ast.BinOp) and isinstance(e.op, ast.Div):
            l, r = self.ev(e.left), self.ev(e.right)
            if isinstance(l, (int, float)) and isinstance(r, (int, float)) and not isinstance(l, bool) and not isinstance(r, bool):
                if r == 0:
                    raise TinyRaise("ZeroDivisionError")
                return l / r
            raise AnalysisError(f"tiny: division of {l!r} by {r!r}")
        if isinstance(e, ast.BinOp) and isinstance(e.op, (ast.Add, ast.Sub, ast.Mult)):
            l, r = self.ev(e.left), self.ev(e.right)
            if isinstance(l, Buf) and isinstance(r, Buf) and isinstance(e.op, ast.Add):
                if l.hi == r.lo or len(l) == 0 or len(r) == 0:
                    return Buf(l.lo if len(l) else r.lo, r.hi if len(r) else l.hi)
                raise AnalysisError("tiny: concatenation of non-adjacent slices")
            if self.model_strings and isinstance(e.op, ast.Add) and (isinstance(l, (str, bytes)) or isinstance(r, (str, bytes))):
                l = (type(r)() if isinstance(r, (str, bytes)) else "") if isinstance(l, Buf) and len(l) == 0 else l
                r = (type(l)() if isinstance(l, (str, bytes)) else "") if isinstance(r, Buf) and len(r) == 0 else r
                if type(l) is type(r):
                    return _from_py(l + r)
                raise TinyRaise("TypeError")
            try:
                return l + r if isinstance(e.op, ast.Add) else (l - r if isinstance(e.op, ast.Sub) else l * r)
            except TypeError:
                raise AnalysisError(f"tiny: arithmetic on {l!r}, {r!r}")
        if isinstance(e, ast.Compare) and len(e.ops) >= 1:
            vals = [self.ev(e.left)] + [self.ev(c) for c in e.comparators]
            for op, a, b in zip(e.ops, vals, vals[1:]):
                if not isinstance(op, (ast.In, ast.NotIn)):
                    a = len(a) if isinstance(a, Buf) else a
                    b = len(b) if isinstance(b, Buf) else b
                if isinstance(op, (ast.In, ast.NotIn)):
                    if self.model_strings:
                        if isinstance(b, Buf) and len(b) == 0:
                            b = type(a)() if isinstance(a, (str, bytes)) else ""
                        if isinstance(a, Buf) and len(a) == 0 and isinstance(b, (str, bytes)):
                            a = type(b)()
                    try:
                        r = (a in b) if isinstance(op, ast.In) else (a not in b)
                    except TypeError:  # unhashable key tested against a dict / set
                        raise TinyRaise("TypeError")
                elif isinstance(op, (ast.Is, ast.IsNot)):
                    r = (a is b) if isinstance(op, ast.Is) else (a is not b)
                else:
                    import operator
                    fop = {ast.Eq: operator.eq, ast.NotEq: operator.ne, ast.Lt: operator.lt, ast.LtE: operator.le, ast.Gt: operator.gt, ast.GtE: operator.ge}[type(op)]
                    try:
                        r = fop(a, b)
                    except TypeError:
                        raise TinyRaise("TypeError")
                if not r:
                    return False
            return True
        if isinstance(e, ast.BoolOp):
            # Python value semantics: `a or b` is a if a is truthy else b
            v = None
            for x in e.values:
                v = self.ev(x)
                if self.truth(v) != isinstance(e.op, ast.And):
                    return v
            return v
        if isinstance(e, ast.UnaryOp) and isinstance(e.op, ast.Not):
            return not self.truth(self.ev(e.operand))
        if isinstance(e, ast.UnaryOp) and isinstance(e.op, ast.USub):
            v_ = self.ev(e.operand)
            if not isinstance(v_, (int, float)):
                raise AnalysisError(f"tiny: negation of {v_!r}")
            return -v_
        if isinstance(e, ast.JoinedStr):
            if not self.model_strings:
                # without the string model a text is opaque -- except an f-string made of literal pieces and plain str / int values only (an attribute
                # or key name built from a prefix: f"{peer}_max_window_bits"), which is that string
                try:
                    pieces = []
                    for part in e.values:
                        if isinstance(part, ast.Constant):
                            pieces.append(str(part.value))
                        else:
                            v0 = self.ev(part.value)
                            if not (isinstance(v0, (str, int)) and not isinstance(v0, bool) and part.conversion == -1 and part.format_spec is None) or v0 == "<text>":
                                raise AnalysisError("opaque")
                            pieces.append(str(v0))
                    if pieces and all(isinstance(part, ast.Constant) for part in e.values):
                        return "<text>"
                    return "".join(pieces)
                except (AnalysisError, TinyRaise):
                    return "<text>"
            out = []
            for part in e.values:
                if isinstance(part, ast.Constant):
                    out.append(str(part.value))
                else:
                    v = _to_py(self.ev(part.value))
                    if isinstance(v, (str, int)) and not isinstance(v, bool) and part.conversion == -1 and part.format_spec is None:
                        out.append(str(v))
                    else:
                        out.append(f"<{v!r}>")  # formatting of anything else is not modelled: an opaque piece of text
            return _from_py("".join(out))
        if isinstance(e, ast.GeneratorExp) and len(e.generators) == 1 and not e.generators[0].is_async and isinstance(e.generators[0].target, ast.Name):
            src_ = self.ev(e.generators[0].iter)
            if hasattr(src_, "__next__"):
                # a generator expression over an (endless) iterator handed in by the rule, kept as a value (`usable = (t for t in gen if ...)`; `next(usable)`):
                # a lazy Python generator; the loop variable is bound only while an element is being judged
                def _lazy(src=src_, g=e.generators[0], elt=e.elt):
                    pulled = 0
                    for item in src:
                        pulled += 1
                        if pulled > 4096:
                            raise AnalysisError("tiny: generator over an endless iterator does not terminate")
                        had, old_ = g.target.id in self.env, self.env.get(g.target.id)
                        self.env[g.target.id] = item
                        try:
                            ok_ = all(self.truth(self.ev(c)) for c in g.ifs)
                            val_ = self.ev(elt) if ok_ else None
                        finally:
                            if had:
                                self.env[g.target.id] = old_
                            else:
                                self.env.pop(g.target.id, None)
                        if ok_:
                            yield val_
                return _lazy()
            return list(self._comp(e, _seq0=src_))
        if isinstance(e, (ast.GeneratorExp, ast.ListComp)) and not any(g_.is_async for g_ in e.generators):
            return list(self._comp(e))
        if isinstance(e, ast.SetComp) and not any(g_.is_async for g_ in e.generators):
            try:
                return set(self._comp(e))
            except TypeError:
                raise TinyRaise("TypeError")
        if isinstance(e, ast.DictComp) and not any(g_.is_async for g_ in e.generators):
            pair = ast.copy_location(ast.Tuple(elts=[e.key, e.value], ctx=ast.Load()), e)
            try:
                return {k_: v_ for k_, v_ in self._comp(ast.copy_location(ast.ListComp(elt=pair, generators=e.generators), e))}
            except TypeError:
                raise TinyRaise("TypeError")
        if isinstance(e, ast.IfExp):
            return self.ev(e.body) if self.truth(self.ev(e.test)) else self.ev(e.orelse)
        if isinstance(e, ast.NamedExpr) and isinstance(e.target, ast.Name):
            v = self.ev(e.value)
            self.env[e.target.id] = v
            return v
        if isinstance(e, ast.Lambda):
            return Sym("lambda")  # an opaque callable: what it does when called later is outside the cell
        if isinstance(e, ast.Call) and isinstance(e.func, ast.Call) and isinstance(e.func.func, ast.Name) and e.func.func.id == "getattr" and len(e.func.args) == 2 \
                and not e.func.keywords and "getattr" not in self.calls:
            # getattr(x, <name known on the cell>)(...) is the method call x.<name>(...)
            nm_ = self.ev(e.func.args[1])
            if isinstance(nm_, str) and nm_.isidentifier():
                call2 = ast.copy_location(ast.Call(func=ast.copy_location(ast.Attribute(value=e.func.args[0], attr=nm_, ctx=ast.Load()), e.func), args=e.args, keywords=e.keywords), e)
                return self.ev(call2)
        if isinstance(e, ast.Call):
            t = norm.text(e)
            f = norm.text(e.func)
            if isinstance(e.func, ast.Attribute):
                try:
                    recv = self.ev(e.func.value)
                except AnalysisError:
                    recv = None
                if self.model_strings and isinstance(recv, int) and not isinstance(recv, bool) and e.func.attr in ("to_bytes", "bit_length") and not e.keywords:
                    ia = [_to_py(self.ev(a)) for a in e.args]
                    try:
                        return _from_py(getattr(recv, e.func.attr)(*ia))
                    except (OverflowError, TypeError, ValueError) as ex:
                        raise TinyRaise(type(ex).__name__)
                if isinstance(recv, int) and not isinstance(recv, bool) and e.func.attr == "to_bytes":
                    return ("octets", recv)
                if isinstance(recv, list) and e.func.attr in ("tobytes", "tolist") and not e.args:
                    return list(recv)
                if isinstance(recv, Buf) and len(recv) == 0 and e.func.attr == "join" and len(e.args) == 1:
                    parts = self.ev(e.args[0])
                    if isinstance(parts, list) and not parts:
                        return Buf(0, 0)
                    if isinstance(parts, list) and parts and all(isinstance(x, Buf) for x in parts):
                        return Buf(0, sum(len(x) for x in parts))  # only the length of a concatenation is modelled
                    if isinstance(parts, list):
                        return ("joined", parts)
                if isinstance(recv, str) and e.func.attr in ("startswith", "endswith", "lower", "upper", "strip", "lstrip", "rstrip", "isdigit") and not e.keywords:
                    sargs = [self.ev(a) for a in e.args]
                    if all(isinstance(x, (str, int)) and not isinstance(x, bool) for x in sargs):
                        return getattr(recv, e.func.attr)(*sargs)  # a pure function of the model's own name constants
                if self.model_strings and (isinstance(recv, (str, bytes)) or (isinstance(recv, Buf) and len(recv) == 0)) and e.func.attr in _STR_METHODS and not e.keywords:
                    sargs = [_to_py(self.ev(a)) for a in e.args]
                    if e.func.attr == "format" and not (isinstance(recv, str) and all(isinstance(x, (str, int)) and not isinstance(x, bool) for x in sargs)):
                        return "<text>"
                    rv = recv
                    if isinstance(rv, Buf):
                        rv = b"" if any(isinstance(x, bytes) for x in sargs) or e.func.attr == "decode" else ""
                    if all(isinstance(x, (str, bytes, int)) or x is None or (isinstance(x, (list, tuple)) and all(isinstance(y, (str, bytes)) for y in x)) for x in sargs):
                        try:
                            return _from_py(getattr(rv, e.func.attr)(*sargs))
                        except (TypeError, ValueError, UnicodeError) as ex:
                            raise TinyRaise(type(ex).__name__)
                if isinstance(recv, Sym) and e.func.attr in recv.methods:
                    args = [self.ev(a) for a in e.args]
                    kwargs = {k.arg: self.ev(k.value) for k in e.keywords if k.arg is not None}
                    self.trace.append((f"{recv.name}.{e.func.attr}", args, kwargs))
                    return recv.methods[e.func.attr](*args, **kwargs)
            if f in ("any", "all") and len(e.args) == 1 and isinstance(e.args[0], (ast.GeneratorExp, ast.ListComp)):
                for v in self._comp(e.args[0]):  # lazily, like the builtin
                    if self.truth(v) == (f == "any"):
                        return f == "any"
                return f != "any"
            if f == "enumerate" and 1 <= len(e.args) <= 2 and not e.keywords and f not in self.calls:
                seq_ = self.ev(e.args[0])
                start_ = self.ev(e.args[1]) if len(e.args) == 2 else 0
                if isinstance(seq_, dict):
                    seq_ = list(seq_)
                if isinstance(seq_, (list, tuple)) and isinstance(start_, int):
                    return [[start_ + i_, x_] for i_, x_ in enumerate(seq_)]
            if f == "zip" and len(e.args) == 2:
                a_, b_ = self.ev(e.args[0]), self.ev(e.args[1])
                if isinstance(a_, (list, tuple)) and isinstance(b_, (list, tuple)):
                    return [list(x) for x in zip(a_, b_)]
            if f in ("range", "xrange") and 1 <= len(e.args) <= 3 and not e.keywords:
                vals = [self.ev(a) for a in e.args]
                if all(isinstance(v, int) for v in vals) and len(range(*vals)) <= 4096:
                    return list(range(*vals))
            if f == "next" and len(e.args) == 1 and isinstance(e.args[0], ast.GeneratorExp) and not any(g_.is_async for g_ in e.args[0].generators):
                # next(x for x in it if c): the first element that passes, pulled lazily (the source may be an endless iterator)
                gen_ = self._comp(e.args[0])
                try:
                    return next(gen_)
                except StopIteration:
                    raise TinyRaise("StopIteration")
                finally:
                    gen_.close()
            if f == "next" and len(e.args) == 1:
                it = self.ev(e.args[0])
                if hasattr(it, "__next__"):
                    try:
                        return next(it)
                    except StopIteration:
                        raise TinyRaise("StopIteration")
            if self.model_types and f == "type" and len(e.args) == 1 and not e.keywords and "type" not in self.calls and t not in self.calls:
                try:
                    return _pytype(self.ev(e.args[0]))
                except AnalysisError:
                    pass  # type of an opaque object: left to the rule's call oracle below
            if self.model_types and f == "isinstance" and len(e.args) == 2 and not e.keywords and "isinstance" not in self.calls and t not in self.calls:
                try:
                    v, T = self.ev(e.args[0]), self.ev(e.args[1])
                    Ts = tuple(T) if isinstance(T, (list, tuple)) else (T,)
                    if all(isinstance(x, type) or isinstance(x, Sym) for x in Ts):
                        tv = _pytype(v)
                        return any((isinstance(x, type) and isinstance(tv, type) and issubclass(tv, x)) or (x is tv) for x in Ts)
                except AnalysisError:
                    pass  # classes / objects outside the model: left to the rule's call oracle below
            if f == "len" and len(e.args) == 1:
                v = self.ev(e.args[0])
                if isinstance(v, (Buf, list, dict, tuple, str, set, bytes)):
                    return len(v)
            if self.model_strings and f in ("int", "str") and len(e.args) == 1 and not e.keywords and f not in self.calls:
                v = _to_py(self.ev(e.args[0]))
                if isinstance(v, (str, int, float)) and not isinstance(v, bool):
                    try:
                        return _from_py(int(v) if f == "int" else str(v))
                    except ValueError:
                        raise TinyRaise("ValueError")
            if self.model_strings and f == "sorted" and len(e.args) == 1 and not e.keywords:
                v = self.ev(e.args[0])
                if isinstance(v, dict):
                    v = list(v)
                if isinstance(v, (list, tuple, set)) and all(isinstance(x, (int, str)) for x in v):
                    try:
                        return sorted(v)
                    except TypeError:
                        raise TinyRaise("TypeError")
            if f == "bool" and len(e.args) == 1 and not e.keywords and "bool" not in self.calls and self.model_types:
                return self.truth(self.ev(e.args[0]))
            if f == "setattr" and len(e.args) == 3 and not e.keywords and "setattr" not in self.calls:
                nm = self.ev(e.args[1])
                if isinstance(nm, str) and nm.isidentifier():
                    # setattr(x, "name", v) with a known name is the attribute store x.name = v
                    self._run([ast.copy_location(ast.Assign(targets=[ast.copy_location(ast.Attribute(value=e.args[0], attr=nm, ctx=ast.Store()), e)], value=e.args[2], type_comment=None), e)])
                    return None
            if f == "getattr" and len(e.args) == 2 and not e.keywords:
                nm = self.ev(e.args[1])
                if isinstance(nm, str) and nm.isidentifier():
                    # getattr(x, "name") with a known name is the attribute read x.name
                    return self.ev(ast.copy_location(ast.Attribute(value=e.args[0], attr=nm, ctx=ast.Load()), e))
            if f in ("min", "max") and e.args:
                return (min if f == "min" else max)(self.ev(a) for a in e.args)
            if f in ("bytes", "bytearray", "memoryview") and len(e.args) == 1:
                v = self.ev(e.args[0])
                return list(v) if isinstance(v, (list, tuple)) else v
            if f == "divmod" and len(e.args) == 2 and not e.keywords and "divmod" not in self.calls:
                a_, b_ = self.ev(e.args[0]), self.ev(e.args[1])
                if isinstance(a_, int) and isinstance(b_, int):
                    if b_ == 0:
                        raise TinyRaise("ZeroDivisionError")
                    return list(divmod(a_, b_))
                raise AnalysisError("tiny: divmod of non-integers")
            if f == "map" and len(e.args) == 2 and not e.keywords and "map" not in self.calls:
                fn_, seq_ = self.ev(e.args[0]), self.ev(e.args[1])
                if isinstance(fn_, Sym) and callable(fn_.methods.get("__call__")) and isinstance(seq_, (list, tuple)):
                    return [fn_.methods["__call__"](x_) for x_ in seq_]
                raise AnalysisError(f"tiny: map({ast.unparse(e.args[0])[:30]}, ...)")
            if f in ("tuple", "list") and len(e.args) <= 1 and not e.keywords:
                if not e.args:
                    return []
                v = self.ev(e.args[0])
                if isinstance(v, (list, tuple)):
                    return list(v)
                if isinstance(v, dict):
                    return list(v)
                raise AnalysisError(f"tiny: {f}() of {v!r} would raise TypeError")
            if f in ("set", "frozenset") and not e.keywords and len(e.args) <= 1 and f not in self.calls:
                v = self.ev(e.args[0]) if e.args else []
                if isinstance(v, dict):
                    v = list(v)
                if isinstance(v, (list, tuple, set)):
                    try:
                        return set(v)
                    except TypeError:
                        raise TinyRaise("TypeError")
                raise AnalysisError(f"tiny: {f}() of {v!r}")
            if f == "dict" and not e.keywords and len(e.args) <= 1:
                if not e.args:
                    return {}
                v = self.ev(e.args[0])
                if isinstance(v, dict):
                    return dict(v)
                if isinstance(v, (list, tuple)) and all(isinstance(x, (list, tuple)) and len(x) == 2 for x in v):
                    try:
                        return {k_: v_ for k_, v_ in v}
                    except TypeError:
                        raise TinyRaise("TypeError")
                raise AnalysisError(f"tiny: dict() of {v!r}")
            if isinstance(e.func, ast.Attribute) and e.func.attr in ("append", "remove", "extend", "insert", "pop", "get", "setdefault", "clear", "values", "keys", "items",
                                                                    "index", "count", "copy", "popleft", "appendleft", "reverse", "sort", "update", "add", "discard", "union", "intersection", "difference", "issubset"):
                try:
                    tgt = self.ev(e.func.value)
                except AnalysisError:
                    tgt = None
                if isinstance(tgt, list) and e.func.attr in ("popleft", "appendleft") and not hasattr(tgt, e.func.attr):
                    # a plain list standing for a deque
                    if e.func.attr == "popleft":
                        if not tgt:
                            raise TinyRaise("IndexError")
                        return tgt.pop(0)
                    tgt.insert(0, self.ev(e.args[0]))
                    return None
                if isinstance(tgt, (list, dict, set)) and hasattr(tgt, e.func.attr):
                    args = [self.ev(a) for a in e.args]
                    try:
                        r = getattr(tgt, e.func.attr)(*args)
                    except (KeyError, ValueError, IndexError, TypeError) as ex:
                        raise TinyRaise(type(ex).__name__)
                    return list(r) if e.func.attr in ("values", "keys", "items") else r
            if self.inline_self is not None and isinstance(e.func, ast.Attribute) and isinstance(e.func.value, ast.Name) and e.func.value.id == "self" \
                    and t not in self.calls and f not in self.calls:
                node = self.inline_self(e.func.attr)
                if node is not None and not any(isinstance(a, ast.Starred) for a in e.args) and not any(k.arg is None for k in e.keywords):
                    return self._call_inline(node, [self.ev(a) for a in e.args], {k.arg: self.ev(k.value) for k in e.keywords})
            if t in self.calls:
                return self.calls[t]
            if f in self.calls:
                args = [self.ev(a) for a in e.args]
                self.trace.append((f, args))
                r = self.calls[f]
                return r(*args) if callable(r) else r
            callee = None
            if isinstance(e.func, (ast.Name, ast.Attribute, ast.Subscript, ast.IfExp, ast.BoolOp)):   # also a callee chosen by an expression: (A if c else B)(x)
                try:
                    callee = self.ev(e.func)
                except (AnalysisError, TinyRaise):
                    callee = None
            if (isinstance(callee, Sym) and "__call__" in callee.methods) or self.default_call is not None:
                args = []
                for a in e.args:
                    if isinstance(a, ast.Starred):
                        v = self.ev(a.value)
                        if not isinstance(v, (list, tuple)):
                            raise TinyRaise("TypeError")
                        args.extend(v)
                    else:
                        args.append(self.ev(a))
                kwargs = {}
                for k in e.keywords:
                    if k.arg is None:
                        v = self.ev(k.value)
                        if not isinstance(v, dict):
                            raise TinyRaise("TypeError")
                        kwargs.update(v)
                    else:
                        kwargs[k.arg] = self.ev(k.value)
                if isinstance(callee, Sym) and "__call__" in callee.methods:
                    self.trace.append((callee.name, args, kwargs))
                    return callee.methods["__call__"](*args, **kwargs)
                self.trace.append((f, args, kwargs))
                try:
                    r_ = self.default_call(f, args, kwargs)
                except TypeError:
                    r_ = self.default_call(f, args)
                # the rule's oracle does not know the callee (it gave the conventional opaque answer) and the callee is a private helper function
                # of the module the evaluated code lives in: the helper is evaluated in place, like a private method with `inline_self`
                if isinstance(e.func, ast.Name) and ((e.func.id.startswith("_") and not e.func.id.startswith("__")) or e.func.id in getattr(self, "inline_module_funcs", ())) \
                        and isinstance(r_, Sym) and r_.name == f"<{f}>":
                    node = self._module_func(e.func.id)
                    if node is not None:
                        return self._call_module_func(node, args, kwargs)
                return r_
            raise AnalysisError(f"tiny: call {t[:60]}")
        raise AnalysisError(f"tiny: expression {ast.unparse(e)[:60]}")

    def _module_func(self, name):
        m = getattr(self, "module", None)
        if m is None:
            return None
        f_ = getattr(m, "funcs", {}).get(name)
        if f_ is None or f_.node.decorator_list or f_.node.args.vararg or f_.node.args.kwarg or not isinstance(f_.node, ast.FunctionDef):
            return None
        return f_.node

    def _call_module_func(self, node, args, kwargs):
        depth = getattr(self, "_depth", 0)
        if depth > 8:
            raise AnalysisError("tiny: inlining too deep")
        names = [x.arg for x in node.args.posonlyargs + node.args.args]
        if len(args) > len(names):
            raise TinyRaise("TypeError")
        env = {k: v for k, v in self.env.items() if ("." in k and not k.startswith("self")) or (k.isidentifier() and k[:1].isupper())}
        bound = set()
        for n_, v in zip(names, args):
            env[n_] = v
            bound.add(n_)
        for k, v in kwargs.items():
            if k not in names or k in bound:
                raise TinyRaise("TypeError")
            env[k] = v
            bound.add(k)
        defaults = dict(zip(names[len(names) - len(node.args.defaults):], node.args.defaults))
        for n_ in names:
            if n_ not in bound:
                if n_ not in defaults:
                    raise TinyRaise("TypeError")
                env[n_] = self.ev(defaults[n_])
        sub = Tiny(env, calls=self.calls, default_call=self.default_call, model_types=self.model_types, opaque_globals=self.opaque_globals, inline_self=None,
                   model_strings=self.model_strings, local_defs=True)
        sub.module = self.module
        sub.inline_module_funcs = getattr(self, "inline_module_funcs", ())
        sub._depth = depth + 1
        sub.trace = self.trace
        r = sub.run([x for x in node.body if not (isinstance(x, ast.Expr) and isinstance(x.value, ast.Constant))])
        if r[0] == "raise":
            raise TinyRaise(r[1])
        return r[1] if r[0] == "return" else None

    def _call_local(self, node, args, kwargs):
        depth = getattr(self, "_depth", 0)
        if depth > 8:
            raise AnalysisError("tiny: inlining too deep")
        a = node.args
        names = [x.arg for x in a.posonlyargs + a.args]
        env = dict(self.env)
        if len(args) > len(names):
            raise TinyRaise("TypeError")
        bound = set()
        for n_, v in zip(names, args):
            env[n_] = v
            bound.add(n_)
        for k, v in kwargs.items():
            if k not in names or k in bound:
                raise TinyRaise("TypeError")
            env[k] = v
            bound.add(k)
        defaults = dict(zip(names[len(names) - len(a.defaults):], a.defaults))
        for n_ in names:
            if n_ not in bound:
                if n_ not in defaults:
                    raise TinyRaise("TypeError")
                env[n_] = self.ev(defaults[n_])
        sub = Tiny(env, calls=self.calls, default_call=self.default_call, model_types=self.model_types, opaque_globals=self.opaque_globals, inline_self=self.inline_self,
                   model_strings=self.model_strings, local_defs=self.local_defs)
        sub._depth = depth + 1
        sub.module = getattr(self, "module", None)
        sub.trace = self.trace
        r = sub.run([x for x in node.body if not (isinstance(x, ast.Expr) and isinstance(x.value, ast.Constant))])
        nonlocal_names = {n_ for x in ast.walk(node) if isinstance(x, ast.Nonlocal) for n_ in x.names}
        for k, v in sub.env.items():
            if k == "self" or k.startswith("self.") or k.startswith("self[") or k in nonlocal_names:
                self.env[k] = v
        if r[0] == "raise":
            raise TinyRaise(r[1])
        return r[1] if r[0] == "return" else None

    def _call_inline(self, node, args, kwargs):
        """Evaluate a method of the same object: fresh locals, the `self...` part of the environment is shared (stores persist)."""
        depth = getattr(self, "_depth", 0)
        if depth > 8:
            raise AnalysisError("tiny: inlining too deep")
        a = node.args
        names = [x.arg for x in a.posonlyargs + a.args]
        if a.vararg or a.kwarg:
            raise AnalysisError(f"tiny: cannot inline {node.name}")
        env = {k: v for k, v in self.env.items() if k == "self" or k.startswith("self.") or k.startswith("self[")}
        static = any(isinstance(d, ast.Name) and d.id == "staticmethod" for d in node.decorator_list)
        params = names if static else names[1:]
        if len(args) > len(params):
            raise TinyRaise("TypeError")
        for n_, v in zip(params, args):
            env[n_] = v
        for k, v in kwargs.items():
            if k not in params or k in params[:len(args)]:
                raise TinyRaise("TypeError")
            env[k] = v
        defaults = dict(zip(names[len(names) - len(a.defaults):], a.defaults))
        for n_ in params:
            if n_ not in env:
                if n_ not in defaults:
                    raise TinyRaise("TypeError")
                env[n_] = self.ev(defaults[n_])
        for k, v in self.env.items():  # dotted globals the rule bound (module.CONST) stay visible
            if "." in k and not k.startswith("self") and k.split(".")[0] not in env:
                env.setdefault(k, v)
            elif k.isidentifier() and k[:1].isupper() and k not in names:
                env.setdefault(k, v)  # a module-level class / constant the rule bound by name
        sub = Tiny(env, calls=self.calls, default_call=self.default_call, model_types=self.model_types, opaque_globals=self.opaque_globals, inline_self=self.inline_self,
                   model_strings=self.model_strings)
        sub._depth = depth + 1
        sub.module = getattr(self, "module", None)
        sub.klass = getattr(self, "klass", None)
        sub.trace = self.trace
        r = sub.run([x for x in node.body if not (isinstance(x, ast.Expr) and isinstance(x.value, ast.Constant))])
        for k, v in sub.env.items():
            if k == "self" or k.startswith("self.") or k.startswith("self["):
                self.env[k] = v
        if r[0] == "raise":
            raise TinyRaise(r[1])
        return r[1] if r[0] == "return" else None

    def _comp(self, e, depth=0, _seq0=None):
        g = e.generators[depth]
        seq = self.ev(g.iter) if (_seq0 is None or depth) else _seq0   # the outermost iterable may have been evaluated by the caller already (once)
        if isinstance(seq, dict):
            seq = list(seq)
        if isinstance(seq, set):
            seq = sorted(seq, key=repr)
        if self.model_strings and (isinstance(seq, str) or (isinstance(seq, Buf) and len(seq) == 0)):
            seq = list(seq) if isinstance(seq, str) else []
        lazy = hasattr(seq, "__next__")   # a Python iterator handed in by the rule (e.g. itertools.cycle): pulled element by element, bounded
        if not isinstance(seq, (list, tuple)) and not lazy:
            raise AnalysisError(f"tiny: comprehension over {seq!r}")
        saved = dict(self.env)
        try:
            pulled = 0
            for item in (seq if lazy else list(seq)):
                pulled += 1
                if lazy and pulled > 4096:
                    raise AnalysisError("tiny: comprehension over an endless iterator does not terminate")
                if isinstance(g.target, ast.Name):
                    self.env[g.target.id] = item
                elif isinstance(g.target, ast.Tuple) and isinstance(item, (list, tuple)) and len(item) == len(g.target.elts):
                    for x, vv in zip(g.target.elts, item):
                        self.env[norm.text(x)] = vv
                else:
                    raise AnalysisError("tiny: comprehension target")
                if all(self.truth(self.ev(c)) for c in g.ifs):
                    if depth + 1 < len(e.generators):
                        yield from self._comp(e, depth + 1)
                    else:
                        yield self.ev(e.elt)
        finally:
            for k in list(self.env):
                if k not in saved:
                    del self.env[k]
            self.env.update(saved)

    @staticmethod
    def truth(v):
        return len(v) > 0 if isinstance(v, Buf) else bool(v)


    def run(self, stmts, stop=None):
        """Execute statements; returns ('fall', None) / ('return', value) / ('raise', what) / ('stop', stmt)."""
        if getattr(self, "module", None) is None and stmts:
            self.module = NODE_MODULE.get(id(stmts[0]))
        if getattr(self, "klass", None) is None and stmts and id(stmts[0]) in NODE_CLASS:
            self.klass = NODE_CLASS[id(stmts[0])]
        try:
            return self._run(stmts, stop)
        except TinyRaise as ex:
            return ("raise", str(ex))

    def _run(self, stmts, stop=None):
        for st in stmts:
            if stop is not None and stop(st):
                return ("stop", st)
            if isinstance(st, ast.AnnAssign):
                if st.value is None:
                    continue
                st = ast.copy_location(ast.Assign(targets=[st.target], value=st.value), st)
            if isinstance(st, ast.Assign) and len(st.targets) > 1:
                # a = b = <value>: the value is evaluated once and stored left to right
                self.env["<chained>"] = self.ev(st.value)
                r = self._run([ast.copy_location(ast.Assign(targets=[t_], value=ast.copy_location(ast.Name(id="<chained>", ctx=ast.Load()), st)), st) for t_ in st.targets], stop)
                self.env.pop("<chained>", None)
                if r[0] != "fall":
                    return r
                continue
            if isinstance(st, ast.Assign) and len(st.targets) == 1:
                v = self.ev(st.value)
                t = st.targets[0]
                if isinstance(t, (ast.Tuple, ast.List)):
                    if isinstance(v, (list, tuple)) and len(v) == len(t.elts) and all(isinstance(x, (ast.Name, ast.Attribute)) for x in t.elts):
                        for x, vv in zip(t.elts, v):
                            self.env[norm.text(x)] = vv
                        continue
                    if isinstance(v, (list, tuple)) and len(v) != len(t.elts) and not any(isinstance(x, ast.Starred) for x in t.elts):
                        raise TinyRaise("ValueError")  # too many / not enough values to unpack
                    raise AnalysisError("tiny: tuple assignment")
                if isinstance(t, ast.Subscript) and not isinstance(t.slice, ast.Slice) and norm.text(t) not in self.env:
                    base = self.ev(t.value)
                    if isinstance(base, dict):
                        try:
                            base[self.ev(t.slice)] = v
                        except TypeError:
                            raise TinyRaise("TypeError")  # unhashable key
                        continue
                    if isinstance(base, list):
                        try:
                            base[self.ev(t.slice)] = v
                        except IndexError:
                            raise TinyRaise("IndexError")
                        continue
                if isinstance(t, ast.Attribute) and norm.text(t) not in self.env:
                    try:
                        base = self.ev(t.value)
                    except AnalysisError:
                        base = None
                    if isinstance(base, Sym):
                        base.attrs[t.attr] = v
                        continue
                self.env[norm.text(t)] = v
            elif isinstance(st, ast.AugAssign):
                cur = self.ev(st.target)
                new = self.ev(ast.BinOp(left=ast.Constant(value=0), op=st.op, right=ast.Constant(value=0))) if False else None
                v = self.ev(st.value)
                import operator
                ops = {ast.Add: operator.add, ast.Sub: operator.sub, ast.BitOr: operator.or_, ast.BitAnd: operator.and_, ast.Mult: operator.mul,
                       ast.LShift: operator.lshift, ast.RShift: operator.rshift, ast.BitXor: operator.xor}
                if self.model_strings and isinstance(st.op, ast.Add) and (isinstance(cur, (str, bytes)) or isinstance(v, (str, bytes))):
                    if isinstance(cur, Buf) and len(cur) == 0:
                        cur = type(v)()
                    if isinstance(v, Buf) and len(v) == 0:
                        v = type(cur)()
                    if type(cur) is not type(v):
                        raise TinyRaise("TypeError")
                if isinstance(st.op, ast.Add) and isinstance(cur, Buf) and isinstance(v, Buf):
                    if not (cur.hi == v.lo or len(cur) == 0 or len(v) == 0):
                        raise AnalysisError("tiny: concatenation of non-adjacent slices")
                    cur, v = None, Buf(cur.lo if len(cur) else v.lo, v.hi if len(v) else cur.hi)
                    ops = {ast.Add: lambda a_, b_: b_}
                if type(st.op) not in ops or isinstance(cur, Buf) or (isinstance(v, Buf) and cur is not None):
                    raise AnalysisError(f"tiny: augmented assignment {ast.unparse(st)[:40]}")
                if isinstance(st.op, ast.BitXor) and (isinstance(cur, Sym) or isinstance(v, Sym)):
                    val = ("xor", cur, v)
                else:
                    val = ops[type(st.op)](cur, v)
                tt = st.target
                if isinstance(tt, ast.Subscript) and not isinstance(tt.slice, ast.Slice) and norm.text(tt) not in self.env:
                    base = self.ev(tt.value)
                    if isinstance(base, (list, dict)):
                        base[self.ev(tt.slice)] = val
                        continue
                if isinstance(tt, ast.Attribute) and norm.text(tt) not in self.env:
                    try:
                        base = self.ev(tt.value)
                    except AnalysisError:
                        base = None
                    if isinstance(base, Sym):
                        base.attrs[tt.attr] = val
                        continue
                self.env[norm.text(tt)] = val
            elif isinstance(st, ast.If):
                r = self._run(st.body if self.truth(self.ev(st.test)) else st.orelse, stop)
                if r[0] != "fall":
                    return r
            elif isinstance(st, ast.Delete):
                for t in st.targets:
                    if isinstance(t, ast.Subscript):
                        base, k = self.ev(t.value), self.ev(t.slice)
                        if isinstance(base, dict) and k not in base:
                            raise TinyRaise("KeyError")
                        del base[k]
                    else:
                        self.env.pop(norm.text(t), None)
            elif isinstance(st, ast.For) and (isinstance(st.target, ast.Name) or
                                              (isinstance(st.target, ast.Tuple) and all(isinstance(x, ast.Name) for x in st.target.elts))):
                seq = self.ev(st.iter)
                if isinstance(seq, dict):
                    seq = list(seq)
                if self.model_strings and (isinstance(seq, str) or (isinstance(seq, Buf) and len(seq) == 0)):
                    seq = list(seq) if isinstance(seq, str) else []
                if not isinstance(seq, (list, tuple)) and hasattr(seq, "__next__"):
                    seq = _LazyIter(seq)  # an iterator object of the model (e.g. a round-robin cycle): consumed one element per pass
                if isinstance(seq, (tuple, set)):
                    seq = list(seq) if isinstance(seq, tuple) else sorted(seq, key=repr)
                if not isinstance(seq, (list, _LazyIter)):
                    raise AnalysisError(f"tiny: iteration over {seq!r}")
                i = 0
                broke = False
                while seq.more(i) if isinstance(seq, _LazyIter) else i < len(seq):  # live iteration, like CPython's list iterator
                    if isinstance(st.target, ast.Name):
                        self.env[st.target.id] = seq[i]
                    else:
                        item = seq[i]
                        if not (isinstance(item, (list, tuple)) and len(item) == len(st.target.elts)):
                            raise TinyRaise("ValueError")
                        for x, vv in zip(st.target.elts, item):
                            self.env[x.id] = vv
                    i += 1
                    r = self._run(st.body, stop)
                    if r[0] == "break":
                        broke = True
                        break
                    if r[0] not in ("fall", "continue"):
                        return r
                    if i > 64:
                        raise AnalysisError("tiny: loop too long")
                if not broke and st.orelse:
                    r = self._run(st.orelse, stop)
                    if r[0] != "fall":
                        return r
            elif isinstance(st, ast.Break):
                return ("break", None)
            elif isinstance(st, ast.Continue):
                return ("continue", None)
            elif isinstance(st, ast.While):
                n = 0
                broke = False
                while self.truth(self.ev(st.test)):
                    n += 1
                    if n > 64:
                        raise TinyRaise("<loop does not terminate on this cell>")
                    r = self._run(st.body, stop)
                    if r[0] == "break":
                        broke = True
                        break
                    if r[0] not in ("fall", "continue"):
                        return r
                if not broke and st.orelse:
                    r = self._run(st.orelse, stop)
                    if r[0] != "fall":
                        return r
            elif isinstance(st, ast.Try):
                try:
                    r = self._run(st.body, stop)
                except TinyRaise as ex:
                    r = ("raise", str(ex))
                if r[0] == "raise":
                    exc_name = r[1].split("(")[0].strip()
                    handled = False
                    for h in st.handlers:
                        names = [] if h.type is None else [norm.text(x) or "" for x in (h.type.elts if isinstance(h.type, ast.Tuple) else [h.type])]
                        if h.type is None or any(n_.split(".")[-1] in (exc_name.split(".")[-1], "Exception", "BaseException") for n_ in names):
                            if h.name:
                                self.env[h.name] = Sym(f"exception {exc_name}")
                            r = self._run(h.body, stop)
                            handled = True
                            break
                    if not handled:
                        return r
                elif r[0] == "fall" and st.orelse:
                    r = self._run(st.orelse, stop)
                if st.finalbody:
                    r2 = self._run(st.finalbody, stop)
                    if r2[0] != "fall":
                        return r2
                if r[0] != "fall":
                    return r
            elif isinstance(st, ast.Raise):
                return ("raise", ast.unparse(st.exc)[:60] if st.exc is not None else "")
            elif isinstance(st, ast.Return):
                return ("return", self.ev(st.value) if st.value is not None else None)
            elif isinstance(st, ast.Expr):
                if isinstance(st.value, ast.Constant):
                    continue
                self.ev(st.value)
            elif isinstance(st, ast.FunctionDef):
                if self.local_defs and (self.local_defs is True or self.local_defs(st.name)) and not st.decorator_list and not st.args.vararg and not st.args.kwarg:
                    # a local helper function: calling it by name evaluates its body (fresh locals, reads see the enclosing cell, `self...` stores persist)
                    self.env[st.name] = Sym(f"function {st.name}", methods={"__call__": (lambda *a_, _n=st, **k_: self._call_local(_n, list(a_), k_))})
                else:
                    self.env[st.name] = Sym(f"function {st.name}")
            elif isinstance(st, (ast.Pass, ast.Assert, ast.Import, ast.ImportFrom, ast.Nonlocal, ast.Global)):
                continue
            else:
                raise AnalysisError(f"tiny: statement {type(st).__name__} at line {st.lineno}")
        return ("fall", None)


class Sym:
    """An opaque object with a chosen truth value (e.g. a user object defining __len__ / __bool__)."""

    def __init__(self, name, truthy=True, methods=None, **attrs):
        self.name, self.truthy, self.attrs = name, truthy, dict(attrs)
        self.methods = dict(methods or {})  # method name -> python callable(*args, **kwargs)

    def __bool__(self):
        return self.truthy

    def __repr__(self):
        return f"<{self.name}{'' if self.truthy else ' (falsy)'}>"


class _OpenAttrs(dict):
    """attribute table of an OpenSym: every attribute exists; one not given explicitly is an opaque value of its own (created on first read, then stable)"""

    def __init__(self, owner, given):
        dict.__init__(self, given)
        self._owner = owner

    def __contains__(self, k):
        return True

    def __missing__(self, k):
        v = Sym(f"{self._owner}.{k}")
        self[k] = v
        return v

    def get(self, k, d=None):
        return self[k]


class OpenSym(Sym):
    """An opaque record all of whose attributes can be read (those not given are opaque values): a message, a request record ..."""

    def __init__(self, name, truthy=True, methods=None, **attrs):
        Sym.__init__(self, name, truthy, methods)
        self.attrs = _OpenAttrs(name, attrs)
