"""Tiny C front end for the two NVX sources: mini-preprocessor + pycparser."""
import os
import re

from .index import AnalysisError, REPO

try:
    import pycparser
    from pycparser import c_ast, c_parser
except Exception as e:  # pragma: no cover
    pycparser = None
    _IMPORT_ERR = e

PRELUDE = """
typedef unsigned char uint8_t; typedef unsigned short uint16_t; typedef unsigned int uint32_t; typedef unsigned long uint64_t;
typedef long int64_t; typedef int int32_t;
typedef unsigned long size_t; typedef unsigned long uintptr_t; typedef long ssize_t; typedef long ptrdiff_t;
typedef struct { long long v[2]; } __m128i;
void* malloc(size_t n); void free(void* p); void* memcpy(void* d, const void* s, size_t n); void* memset(void* d, int c, size_t n);
__m128i _mm_loadu_si128(__m128i* p); __m128i _mm_load_si128(__m128i* p); void _mm_store_si128(__m128i* p, __m128i v);
void _mm_storeu_si128(__m128i* p, __m128i v); __m128i _mm_xor_si128(__m128i a, __m128i b);
"""


def preprocess(src, defined):
    """Strip comments/includes, evaluate #if/#ifdef/#ifndef/#else/#elif/#endif over `defined`, expand object-like #defines.
    Function-like macros are returned separately (name -> (params, body))."""
    src = re.sub(r"/\*.*?\*/", lambda m: "\n" * m.group(0).count("\n"), src, flags=re.S)
    src = re.sub(r"//[^\n]*", "", src)
    # join continuation lines
    src = src.replace("\\\n", " \x00")
    out = []
    stack = []  # (active_before, taken, active_now)
    objs = {}
    funcs = {}
    active = True

    def ev(expr):
        e = expr.strip()
        e = re.sub(r"defined\s*\(\s*(\w+)\s*\)", lambda m: "1" if m.group(1) in defined else "0", e)
        e = re.sub(r"defined\s+(\w+)", lambda m: "1" if m.group(1) in defined else "0", e)
        e = re.sub(r"\b([A-Za-z_]\w*)\b", lambda m: str(defined.get(m.group(1), objs.get(m.group(1), 0))) if not m.group(1).isdigit() else m.group(1), e)
        e = e.replace("&&", " and ").replace("||", " or ").replace("!", " not ").replace(" not =", "!=")
        try:
            return bool(eval(e, {"__builtins__": {}}, {}))
        except Exception:
            raise AnalysisError(f"cannot evaluate preprocessor condition `{expr}`")

    for line in src.split("\n"):
        s = line.strip()
        if s.startswith("#"):
            d = s[1:].strip()
            if d.startswith("ifdef"):
                cond = d.split()[1] in defined
                stack.append((active, cond, active and cond))
                active = active and cond
            elif d.startswith("ifndef"):
                cond = d.split()[1] not in defined
                stack.append((active, cond, active and cond))
                active = active and cond
            elif d.startswith("if"):
                cond = ev(d[2:]) if active else False
                stack.append((active, cond, active and cond))
                active = active and cond
            elif d.startswith("elif"):
                before, taken, _ = stack.pop()
                cond = (not taken) and before and ev(d[4:])
                stack.append((before, taken or cond, cond))
                active = cond
            elif d.startswith("else"):
                before, taken, _ = stack.pop()
                cond = before and not taken
                stack.append((before, True, cond))
                active = cond
            elif d.startswith("endif"):
                before, _, _ = stack.pop()
                active = before
            elif d.startswith("define") and active:
                m = re.match(r"define\s+(\w+)\(([^)]*)\)\s*(.*)", d)
                if m:
                    funcs[m.group(1)] = ([p.strip() for p in m.group(2).split(",")], m.group(3).replace("\x00", "\n"))
                else:
                    m = re.match(r"define\s+(\w+)\s*(.*)", d)
                    if m:
                        objs[m.group(1)] = m.group(2).strip()
            out.append("")
            continue
        out.append(line if active else "")
    text = "\n".join(out).replace("\x00", "")
    for k, v in sorted(objs.items(), key=lambda kv: -len(kv[0])):
        if v != "":
            text = re.sub(r"\b%s\b" % re.escape(k), v, text)
    text = re.sub(r"__attribute__\s*\(\((?:[^()]|\([^()]*\))*\)\)", "", text)
    text = re.sub(r"\b(static\s+)?inline\b", "static", text)
    text = re.sub(r"\b__restrict(__)?\b|\brestrict\b", "", text)
    return text, objs, funcs


def expand_function_macros(text, funcs):
    changed = True
    rounds = 0
    while changed and rounds < 8:
        changed = False
        rounds += 1
        for name, (params, body) in funcs.items():
            pat = re.compile(r"\b%s\s*\(" % re.escape(name))
            pos = 0
            while True:
                m = pat.search(text, pos)
                if not m:
                    break
                i = m.end()
                depth = 1
                args = [""]
                while i < len(text) and depth:
                    ch = text[i]
                    if ch == "(":
                        depth += 1
                    elif ch == ")":
                        depth -= 1
                        if depth == 0:
                            break
                    if ch == "," and depth == 1:
                        args.append("")
                    else:
                        args[-1] += ch
                    i += 1
                rep = body
                for p, a in zip(params, args):
                    rep = re.sub(r"\b%s\b" % re.escape(p), a.strip(), rep)
                text = text[: m.start()] + rep + text[i + 1:]
                pos = m.start() + len(rep)
                changed = True
    return text


def parse_c(relpath, defined=None, expand=True):
    if pycparser is None:
        raise AnalysisError(f"pycparser is not importable ({_IMPORT_ERR}); the C rule groups are blind")
    path = os.path.join(REPO, relpath) if not os.path.isabs(relpath) else relpath
    if os.environ.get("VERIF_SRC_OVERRIDE"):
        alt = os.path.join(os.environ["VERIF_SRC_OVERRIDE"], os.path.relpath(path, os.path.join(REPO, "src")))
        if os.path.exists(alt):
            path = alt
    if not os.path.exists(path):
        raise AnalysisError(f"C source {relpath} not found")
    with open(path) as fh:
        src = fh.read()
    text, objs, funcs = preprocess(src, defined or {})
    if expand and funcs:
        text = expand_function_macros(text, funcs)
    parser = c_parser.CParser()
    try:
        ast_ = parser.parse(PRELUDE + text, filename=relpath)
    except Exception as e:
        raise AnalysisError(f"cannot parse {relpath} in world {sorted((defined or {}).keys())}: {e}")
    return ast_, src, objs, funcs


def functions(ast_):
    return {n.decl.name: n for n in ast_.ext if isinstance(n, c_ast.FuncDef)}
