"""Whole-program call graph (CHA over self-dispatch) and backwards argument-source tracing."""
import ast

from .index import walk_no_defs, calls_in, AnalysisError


def _is_test(modname):
    return ".test" in modname or ".testutil" in modname or modname.endswith("conftest")


PURE_FORMATTERS = {"hltype", "hlval", "hlid", "repr", "str", "type", "id", "_qn"}


class CallGraph:
    def __init__(self, program, include_tests=False):
        self.p = program
        self.funcs = []
        for mn, m in program.modules.items():
            if not include_tests and _is_test(mn):
                continue
            roots = list(m.funcs.values())
            for c in m.classes.values():
                roots.extend(c.methods.values())
            stack = list(roots)
            while stack:
                f = stack.pop()
                self.funcs.append(f)
                stack.extend(f.nested_list())
        self.edges = []  # (caller, call, callee)
        self.by_callee = {}
        self.by_caller = {}
        self.refs = {}  # method name -> list of (fn, attr node) for self.<m> not in call position
        for f in self.funcs:
            called = set()
            for c in calls_in(f.node):
                called.add(id(c.func))
                # arguments of pure formatting helpers are not callback hand-outs (autobahn.util.hltype only
                # formats the qualified name of its argument; confirmed by reading)
                if isinstance(c.func, ast.Name) and c.func.id in PURE_FORMATTERS:
                    for a in c.args:
                        called.add(id(a))
                for g in program.resolve_call(c, f):
                    e = (f, c, g)
                    self.edges.append(e)
                    self.by_callee.setdefault(g.qualname, []).append(e)
                    self.by_caller.setdefault(f.qualname, []).append(e)
            for n in walk_no_defs(f.node):
                if isinstance(n, ast.Attribute) and isinstance(n.value, ast.Name) and n.value.id == "self" \
                        and isinstance(n.ctx, ast.Load) and id(n) not in called:
                    self.refs.setdefault(n.attr, []).append((f, n))
                elif isinstance(n, ast.Name) and isinstance(n.ctx, ast.Load) and id(n) not in called:
                    # closure name used as a value
                    p = f
                    while p is not None:
                        if n.id in p.nested():
                            self.refs.setdefault(p.nested()[n.id].qualname, []).append((f, n))
                            break
                        p = p.parent

    def callers(self, fn):
        return self.by_callee.get(fn.qualname, [])

    def callees(self, fn):
        return self.by_caller.get(fn.qualname, [])

    def deferred_refs(self, fn):
        """Places where fn is handed out as a value (callback): self.<name> loads / closure name loads."""
        if fn.parent is not None:
            return self.refs.get(fn.qualname, [])
        out = []
        for (f, n) in self.refs.get(fn.name, []):
            # the reference must be able to denote fn: f's class hierarchy resolves the name to fn
            if f.cls is None:
                continue
            cands = set()
            m = self.p.lookup_method(f.cls, fn.name)
            if m:
                cands.add(m.qualname)
            for sub in self.p.subclasses(f.cls):
                m2 = self.p.lookup_method(sub, fn.name)
                if m2:
                    cands.add(m2.qualname)
            if fn.qualname in cands:
                out.append((f, n))
        return out

    def reachable_from(self, fn, stop=None):
        seen = {}
        stack = [fn]
        while stack:
            f = stack.pop()
            if f.qualname in seen:
                continue
            seen[f.qualname] = f
            if stop is not None and stop(f):
                continue
            for (_, c, g) in self.callees(f):
                stack.append(g)
        return seen


def bound_arg(call, callee, param):
    """Expression bound to `param` of callee at `call`, ('default', expr|None) or ('missing', None)."""
    a = callee.node.args
    names = [x.arg for x in a.posonlyargs + a.args]
    offset = 0
    if callee.cls is not None and names and names[0] in ("self", "cls") and callee.parent is None:
        f = call.func
        # Class.m(self, ...) passes self explicitly
        explicit_self = (isinstance(f, ast.Attribute)
                         and not (isinstance(f.value, ast.Name) and f.value.id in ("self", "cls"))
                         and call.args and isinstance(call.args[0], ast.Name) and call.args[0].id == "self"
                         and callee.name != "__init__")
        offset = 0 if explicit_self else 1
    for k in call.keywords:
        if k.arg == param:
            return ("arg", k.value)
    if param in names:
        i = names.index(param) - offset
        if 0 <= i < len(call.args) and not any(isinstance(x, ast.Starred) for x in call.args[: i + 1]):
            return ("arg", call.args[i])
        # default
        defaults = a.defaults
        nd = len(defaults)
        j = names.index(param) - (len(names) - nd)
        if j >= 0:
            return ("default", defaults[j])
    for kw, d in zip(a.kwonlyargs, a.kw_defaults):
        if kw.arg == param:
            return ("default", d)
    return ("missing", None)


def _looks_like_instance(f):
    # obj.m(...) where obj is not a class name: heuristically lower-case first letter or attribute of self
    v = f.value
    if isinstance(v, ast.Attribute):
        return True
    if isinstance(v, ast.Name):
        return not v.id[:1].isupper()
    return True


def local_assignments(fn, name):
    out = []
    for n in walk_no_defs(fn.node):
        if isinstance(n, ast.Assign):
            for t in n.targets:
                if isinstance(t, ast.Name) and t.id == name:
                    out.append(n.value)
                elif isinstance(t, (ast.Tuple, ast.List)) and any(isinstance(e, ast.Name) and e.id == name for e in t.elts):
                    # unpacking of a tuple display (or of a choice between tuple displays) of the same arity is element-wise assignment
                    idx = [i for i, e in enumerate(t.elts) if isinstance(e, ast.Name) and e.id == name][0]
                    alts = [n.value.body, n.value.orelse] if isinstance(n.value, ast.IfExp) else [n.value]
                    if all(isinstance(a_, (ast.Tuple, ast.List)) and len(a_.elts) == len(t.elts) and not any(isinstance(x, ast.Starred) for x in a_.elts) for a_ in alts) \
                            and not any(isinstance(x, ast.Starred) for x in t.elts):
                        out.extend(a_.elts[idx] for a_ in alts)
                    else:
                        out.append(None)  # unpacking: opaque
        elif isinstance(n, ast.AugAssign) and isinstance(n.target, ast.Name) and n.target.id == name:
            out.append(None)
        elif isinstance(n, ast.AnnAssign) and isinstance(n.target, ast.Name) and n.target.id == name and n.value is not None:
            out.append(n.value)
        elif isinstance(n, (ast.For, ast.AsyncFor)):
            for e in ast.walk(n.target):
                if isinstance(e, ast.Name) and e.id == name:
                    out.append(None)
        elif isinstance(n, ast.NamedExpr) and n.target.id == name:
            out.append(n.value)
    return out


def sources(cg, fn, expr, depth=0, _seen=None):
    """Trace `expr` (evaluated inside fn) backwards to its sources.
    Returns list of (kind, fn, expr): kind in 'expr' (terminal expression), 'opaque', 'entry' (parameter of a
    function without known callers -> external input)."""
    _seen = _seen if _seen is not None else set()
    out = []
    if isinstance(expr, ast.IfExp):
        return sources(cg, fn, expr.body, depth, _seen) + sources(cg, fn, expr.orelse, depth, _seen)
    if isinstance(expr, ast.Name):
        key = (fn.qualname, expr.id)
        if key in _seen or depth > 8:
            return []
        _seen.add(key)
        assigns = local_assignments(fn, expr.id)
        params = [a.arg for a in fn.node.args.posonlyargs + fn.node.args.args + fn.node.args.kwonlyargs]
        for v in assigns:
            if v is None:
                out.append(("opaque", fn, expr))
            else:
                out.extend(sources(cg, fn, v, depth + 1, _seen))
        if expr.id in params:
            callers = cg.callers(fn)
            if not callers or cg.deferred_refs(fn):
                out.append(("entry", fn, expr))
            for (caller, call, _) in callers:
                kind, e = bound_arg(call, fn, expr.id)
                if kind == "missing" or e is None:
                    if kind == "default" and e is None:
                        continue
                    out.append(("opaque", caller, call))
                else:
                    owner = caller if kind == "arg" else fn
                    out.extend(sources(cg, owner, e, depth + 1, _seen))
        elif not assigns:
            # free variable of a closure -> look in the enclosing function
            if fn.parent is not None:
                out.extend(sources(cg, fn.parent, expr, depth + 1, _seen))
            else:
                out.append(("expr", fn, expr))
        return out
    return [("expr", fn, expr)]
