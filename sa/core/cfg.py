"""Statement-level control-flow graph, reachability queries and a must-facts dataflow.

Nodes are simple statements and branch tests. Edges carry labels:
  None, ('T', expr), ('F', expr), ('exc', handler_type_expr_or_None), ('iter',), ('done',)
"""
import ast

from .index import AnalysisError, walk_no_defs
from . import norm


class Node:
    __slots__ = ("id", "kind", "ast", "succ", "pred", "in_try")

    def __init__(self, id_, kind, node):
        self.id = id_
        self.kind = kind  # entry exit raise stmt test for with handler
        self.ast = node
        self.succ = []  # (Node, label)
        self.pred = []  # (Node, label)
        self.in_try = ()

    @property
    def lineno(self):
        return getattr(self.ast, "lineno", 0)

    def __repr__(self):
        t = ""
        if self.ast is not None:
            try:
                t = ast.unparse(self.ast).split("\n")[0][:60]
            except Exception:
                t = type(self.ast).__name__
        return f"<N{self.id} {self.kind} L{self.lineno} {t}>"


class CFG:
    def __init__(self, func_node):
        self.func = func_node
        self.nodes = []
        self.entry = self._new("entry", None)
        self.exit = self._new("exit", None)  # normal return / fall off
        self.raise_exit = self._new("raise", None)  # explicit raise leaving the function
        self._loops = []  # (continue_target, break_list)
        self._trys = []  # list of lists of handler nodes (innermost last)
        self._finals = []  # finalbody lists (innermost last)
        outs = self._seq(func_node.body, [(self.entry, None)])
        self._link(outs, self.exit)

    # -- construction -------------------------------------------------------------
    def _new(self, kind, node):
        n = Node(len(self.nodes), kind, node)
        n.in_try = tuple(self._trys) if hasattr(self, "_trys") else ()
        self.nodes.append(n)
        return n

    def _edge(self, a, b, label=None):
        a.succ.append((b, label))
        b.pred.append((a, label))

    def _link(self, dangling, node):
        for a, lab in dangling:
            self._edge(a, node, lab)

    def _exc_edges(self, n):
        # any statement inside a try body may transfer control to the handlers of the enclosing trys
        for handlers in reversed(self._trys):
            for h in handlers:
                self._edge(n, h, ("exc", h.ast.type))
            if any(_catches_all(h.ast) for h in handlers):
                return True
        return False

    def _stmt(self, st, preds, kind="stmt"):
        n = self._new(kind, st)
        self._link(preds, n)
        self._exc_edges(n)
        return n

    def _run_finals(self, preds, upto=0):
        """Route `preds` through copies of pending finally bodies (innermost first)."""
        for fb in reversed(self._finals[upto:]):
            saved_f, saved_t = self._finals, self._trys
            self._finals, self._trys = [], []
            preds = self._seq(fb, preds)
            self._finals, self._trys = saved_f, saved_t
        return preds

    def _seq(self, stmts, preds):
        for st in stmts:
            if not preds:
                break  # unreachable code
            preds = self._one(st, preds)
        return preds

    def _one(self, st, preds):
        if isinstance(st, ast.If):
            t = self._stmt(st.test, preds, "test")
            a = self._seq(st.body, [(t, ("T", st.test))])
            b = self._seq(st.orelse, [(t, ("F", st.test))]) if st.orelse else [(t, ("F", st.test))]
            return a + b
        if isinstance(st, ast.While):
            t = self._stmt(st.test, preds, "test")
            brk = []
            self._loops.append((t, brk, len(self._finals)))
            body_out = self._seq(st.body, [(t, ("T", st.test))])
            self._loops.pop()
            self._link(body_out, t)
            out = [(t, ("F", st.test))]
            if _is_const_true(st.test):
                out = []
            if st.orelse:
                out = self._seq(st.orelse, out)
            return out + brk
        if isinstance(st, (ast.For, ast.AsyncFor)):
            t = self._stmt(st, preds, "for")
            brk = []
            self._loops.append((t, brk, len(self._finals)))
            body_out = self._seq(st.body, [(t, ("iter",))])
            self._loops.pop()
            self._link(body_out, t)
            out = [(t, ("done",))]
            if st.orelse:
                out = self._seq(st.orelse, out)
            return out + brk
        if isinstance(st, (ast.With, ast.AsyncWith)):
            n = self._stmt(st, preds, "with")
            return self._seq(st.body, [(n, None)])
        if isinstance(st, ast.Try) or (hasattr(ast, "TryStar") and isinstance(st, ast.TryStar)):
            handlers = [self._new("handler", h) for h in st.handlers]
            if st.finalbody:
                self._finals.append(st.finalbody)
            self._trys.append(handlers)
            pre = self._new("stmt", ast.Pass(lineno=st.lineno, col_offset=0))  # try entry marker
            self._link(preds, pre)
            body_out = self._seq(st.body, [(pre, None)])
            self._trys.pop()
            if st.orelse:
                body_out = self._seq(st.orelse, body_out)
            outs = list(body_out)
            for h in handlers:
                # handler bodies run outside this try (but inside outer trys)
                h.in_try = tuple(self._trys)
                self._exc_edges(h)
                outs += self._seq(h.ast.body, [(h, None)])
            if st.finalbody:
                self._finals.pop()
                outs = self._seq(st.finalbody, outs)
            return outs
        if isinstance(st, ast.Return):
            n = self._stmt(st, preds)
            outs = self._run_finals([(n, None)])
            self._link(outs, self.exit)
            return []
        if isinstance(st, ast.Raise):
            n = self._new("stmt", st)
            self._link(preds, n)
            caught = self._exc_edges(n)
            if not caught:
                outs = self._run_finals([(n, None)])
                self._link(outs, self.raise_exit)
            return []
        if isinstance(st, ast.Break):
            n = self._stmt(st, preds)
            t, brk, depth = self._loops[-1]
            brk.extend(self._run_finals([(n, None)], depth))
            return []
        if isinstance(st, ast.Continue):
            n = self._stmt(st, preds)
            t, brk, depth = self._loops[-1]
            self._link(self._run_finals([(n, None)], depth), t)
            return []
        if isinstance(st, ast.Assert):
            t = self._stmt(st.test, preds, "test")
            self._edge(t, self.raise_exit, ("F", st.test))
            return [(t, ("T", st.test))]
        if isinstance(st, ast.Match):
            raise AnalysisError(f"match statement at line {st.lineno} is outside the modelled subset")
        # simple statements and nested defs
        n = self._stmt(st, preds)
        return [(n, None)]

    # -- queries ----------------------------------------------------------------------
    def stmt_nodes(self):
        return [n for n in self.nodes if n.kind in ("stmt", "test", "for", "with", "handler")]

    def find(self, pred):
        return [n for n in self.stmt_nodes() if n.ast is not None and pred(n)]

    def nodes_with_call(self, name_pred):
        out = []
        for n in self.stmt_nodes():
            for c in node_calls(n):
                if name_pred(c):
                    out.append((n, c))
        return out

    def reachable(self, src, avoid=lambda n: False, forward=True, start_exclusive=False, edge_ok=None):
        """Nodes reachable from src along succ (or pred) edges without entering nodes where avoid(n)."""
        seen = set()
        stack = [src]
        first = True
        while stack:
            n = stack.pop()
            if n.id in seen:
                continue
            if not (first and start_exclusive) and n is not src and avoid(n):
                continue
            first = False
            seen.add(n.id)
            for m, lab in (n.succ if forward else n.pred):
                if edge_ok is not None and not edge_ok(n if forward else m, m if forward else n, lab):
                    continue
                if m.id not in seen:
                    stack.append(m)
        return seen

    @staticmethod
    def _no_exc(edge_ok):
        def ok(a, b, lab):
            if lab is not None and lab[0] == "exc":
                return False
            return edge_ok(a, b, lab) if edge_ok is not None else True
        return ok

    def always_preceded_by(self, node, pred, edge_ok=None, exc=True):
        """Every entry->node path passes through some node satisfying pred (node itself not counted).
        exc=False ignores exceptional edges into handlers (obligation on the non-raising paths only)."""
        if not exc:
            edge_ok = self._no_exc(edge_ok)
        seen = self.reachable(node, avoid=pred, forward=False, edge_ok=edge_ok)
        return self.entry.id not in seen

    def always_followed_by(self, node, pred, exits=None, edge_ok=None, exc=True):
        """Every path from node to a normal exit passes through a pred-node (node itself not counted)."""
        if not exc:
            edge_ok = self._no_exc(edge_ok)
        seen = self.reachable(node, avoid=pred, forward=True, edge_ok=edge_ok)
        exits = exits if exits is not None else [self.exit]
        return not any(e.id in seen for e in exits)

    def path_exists(self, a, b, avoid=lambda n: False, edge_ok=None):
        return b.id in self.reachable(a, avoid=avoid, edge_ok=edge_ok)


def _catches_all(h):
    if h.type is None:
        return True
    names = []
    ts = h.type.elts if isinstance(h.type, ast.Tuple) else [h.type]
    for t in ts:
        if isinstance(t, ast.Name):
            names.append(t.id)
    return "Exception" in names or "BaseException" in names


def _is_const_true(e):
    return isinstance(e, ast.Constant) and bool(e.value) is True


def node_calls(n):
    """Calls syntactically inside node n's own statement (not nested blocks, not nested defs)."""
    a = n.ast
    if a is None:
        return []
    if n.kind == "for":
        roots = [a.iter]
    elif n.kind == "with":
        roots = [i.context_expr for i in a.items]
    elif n.kind == "handler":
        roots = []
    else:
        roots = [a]
    out = []
    for r in roots:
        if isinstance(r, (ast.FunctionDef, ast.AsyncFunctionDef, ast.ClassDef)):
            continue
        if isinstance(r, ast.Call):
            out.append(r)
        for x in walk_no_defs(r):
            if isinstance(x, ast.Call):
                out.append(x)
    return out


def node_exprs(n):
    a = n.ast
    if a is None:
        return []
    if n.kind == "for":
        return [a.iter, a.target]
    if n.kind == "with":
        return [i.context_expr for i in a.items] + [i.optional_vars for i in a.items if i.optional_vars]
    if n.kind == "handler":
        return []
    if isinstance(a, (ast.FunctionDef, ast.AsyncFunctionDef, ast.ClassDef)):
        return []
    return [a]


# ---------------------------------------------------------------------------------------
# must-facts dataflow
# ---------------------------------------------------------------------------------------

def stored_lvalues(n):
    """Texts of lvalues (names / attribute chains / subscripts' bases) written by node n."""
    a = n.ast
    out = set()
    if a is None:
        return out

    def tgt(t):
        if isinstance(t, (ast.Tuple, ast.List)):
            for e in t.elts:
                tgt(e)
        elif isinstance(t, ast.Starred):
            tgt(t.value)
        elif isinstance(t, ast.Subscript):
            out.add(norm.text(t))
            out.add(norm.text(t.value))
        elif isinstance(t, (ast.Name, ast.Attribute)):
            out.add(norm.text(t))

    if n.kind == "for":
        tgt(a.target)
    elif n.kind == "with":
        for i in a.items:
            if i.optional_vars is not None:
                tgt(i.optional_vars)
    elif n.kind == "handler":
        if a.name:
            out.add(a.name)
    elif isinstance(a, ast.Assign):
        for t in a.targets:
            tgt(t)
    elif isinstance(a, (ast.AugAssign, ast.AnnAssign)):
        tgt(a.target)
    elif isinstance(a, ast.Delete):
        for t in a.targets:
            tgt(t)
    elif isinstance(a, (ast.FunctionDef, ast.AsyncFunctionDef, ast.ClassDef)):
        out.add(a.name)
    elif isinstance(a, (ast.Import, ast.ImportFrom)):
        for al in a.names:
            out.add((al.asname or al.name).split(".")[0])
    # walrus
    for e in node_exprs(n):
        for x in walk_no_defs(e):
            if isinstance(x, ast.NamedExpr):
                tgt(x.target)
    return out


class MustFacts:
    """Forward must-analysis: facts[n] = set of atoms (text, polarity) that hold on EVERY path reaching n
    (before n executes).

    call_writes(call_ast) -> set of lvalue texts the call may write (e.g. {'self.state'}) or {'*'}.
    """

    def __init__(self, cfg, call_writes=None, entry_facts=(), resolver=None, bool_defs=None):
        self.cfg = cfg
        self.call_writes = call_writes or (lambda c: ())
        self.resolver = resolver  # norm.Resolver for constants
        # single-definition locals holding a boolean expression (`too_big = limit < n`): a test of the local also
        # establishes the atoms of its definition (the definition's operands are locals/attributes read, not written, in between)
        self.bool_defs = bool_defs or {}
        self.IN = {cfg.entry.id: frozenset(entry_facts)}
        self._solve()

    def _gen_edge(self, label):
        if label is None:
            return ()
        if label[0] in ("T", "F"):
            at = list(norm.atoms(label[1], label[0] == "T", self.resolver))
            if self.bool_defs and any(isinstance(x, ast.Name) and x.id in self.bool_defs for x in ast.walk(label[1])):
                import copy

                class _S(ast.NodeTransformer):
                    def visit_Name(s_, node):
                        if isinstance(node.ctx, ast.Load) and node.id in self.bool_defs:
                            return copy.deepcopy(self.bool_defs[node.id])
                        return node
                exp = _S().visit(ast.Expression(body=copy.deepcopy(label[1]))).body
                for a_ in norm.atoms(exp, label[0] == "T", self.resolver):
                    if a_ not in at:
                        at.append(a_)
            return at
        return ()

    def _kills(self, n):
        k = set(stored_lvalues(n))
        for c in node_calls(n):
            for w in self.call_writes(c):
                k.add(w)
        return k

    def _out(self, n, facts):
        kills = self._kills(n)
        if kills:
            facts = frozenset(f for f in facts if not norm.fact_killed(f, kills))
        # constant assignment generates an equality fact
        a = n.ast
        if n.kind == "stmt" and isinstance(a, ast.Assign) and len(a.targets) == 1 and isinstance(
                a.targets[0], (ast.Name, ast.Attribute)):
            g = norm.assign_fact(a.targets[0], a.value, self.resolver)
            if g is not None:
                facts = facts | {g}
        if n.kind == "stmt" and isinstance(a, ast.Assign) and len(a.targets) == 1 and isinstance(a.targets[0], ast.Subscript) \
                and not isinstance(a.targets[0].slice, ast.Slice):
            # d[k] = v establishes `k in d`
            t = a.targets[0]
            probe = ast.Compare(left=t.slice, ops=[ast.In()], comparators=[t.value])
            facts = facts | frozenset(norm.atoms(probe, True, self.resolver))
        return facts

    def _solve(self):
        cfg = self.cfg
        work = [cfg.entry]
        OUT = {}
        while work:
            n = work.pop()
            fin = self.IN.get(n.id)
            if fin is None:
                continue
            fout = self._out(n, fin)
            OUT[n.id] = fout
            for m, lab in n.succ:
                if lab is not None and lab[0] == "exc":
                    # the statement may have raised before completing: only IN facts survive, minus kills
                    val = fout & fin
                else:
                    val = fout | frozenset(self._gen_edge(lab))
                    # an edge fact about something the node itself just wrote is fine (test nodes write nothing)
                old = self.IN.get(m.id)
                new = val if old is None else (old & val)
                if old is None or new != old:
                    self.IN[m.id] = new
                    work.append(m)
        self.OUT = OUT

    def at(self, n):
        return self.IN.get(n.id, None)  # None = unreachable

    def holds(self, n, fact):
        f = self.at(n)
        return f is not None and fact in f
