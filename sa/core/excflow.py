"""May-raise / exception-escape analysis.

raises(f) = explicit raise sites + risky library operations on untrusted (tainted) data from a frozen table
            + raises(resolved callees), minus what enclosing try handlers catch, minus sites discharged by a
            dominating guard (key-in-dict, length tests, separator-present tests).
Each escaping site is reported with its type and origin so a rule can name the construct.
"""
import ast

from .index import walk_no_defs, calls_in, call_name, dotted_name, ClassInfo, FuncInfo
from .cfg import CFG, MustFacts, node_exprs, stored_lvalues
from . import norm

# builtin / library exception hierarchy (child -> parent)
BUILTIN_PARENT = {
    "UnicodeDecodeError": "UnicodeError", "UnicodeEncodeError": "UnicodeError", "UnicodeError": "ValueError",
    "ValueError": "Exception", "KeyError": "LookupError", "IndexError": "LookupError", "LookupError": "Exception",
    "TypeError": "Exception", "AssertionError": "Exception", "AttributeError": "Exception", "RuntimeError": "Exception",
    "NotImplementedError": "RuntimeError", "OSError": "Exception", "IOError": "Exception", "ZeroDivisionError": "ArithmeticError",
    "ArithmeticError": "Exception", "OverflowError": "ArithmeticError", "StopIteration": "Exception",
    "struct.error": "Exception", "binascii.Error": "ValueError", "URLParseError": "ValueError",
    "json.JSONDecodeError": "ValueError", "zlib.error": "Exception", "Exception": "BaseException",
    "CryptoError": "Exception", "BadSignatureError": "CryptoError",
}


class Site:
    __slots__ = ("exc", "what", "fn", "node", "via")

    def __init__(self, exc, what, fn, node, via=()):
        self.exc, self.what, self.fn, self.node, self.via = exc, what, fn, node, via

    def key(self):
        return f"{self.exc} from {self.what} in {self.fn.qualname}" + (f" via {' -> '.join(self.via)}" if self.via else "")

    def loc(self):
        return self.fn.loc(self.node)


class ExcFlow:
    def __init__(self, program, analysis, taint_all_params=True, user_callbacks=(), safe=None, extra_seeds=(), trusted_calls=(),
                 callgraph=None, entry_taint=None, stop=(), report_generic_raise=False, opaque_raises=None):
        self.p = program
        self.an = analysis
        self.cg = callgraph
        self.entry_taint = entry_taint or {}  # qualname -> set of tainted params (overrides call-site inference)
        self.stop = set(stop)  # callee names (method or function names) not descended into
        self.report_generic_raise = report_generic_raise
        self.opaque_raises = opaque_raises or {}  # call text (norm.text of func) -> exception type it may raise
        self._ptaint = {}
        self.safe = safe or {}  # (fn qualname, normalised expr text) -> reason
        self.taint_all_params = taint_all_params
        self.extra_seeds = set(extra_seeds)
        self.trusted_calls = set(trusted_calls)  # dotted names of calls assumed total
        self._memo = {}
        self._stack = []
        self.used_safe = set()
        self.sites_seen = 0

    # ---- exception type lattice -------------------------------------------------------
    def parents(self, name):
        out = [name]
        seen = set()
        cur = name
        while cur and cur not in seen:
            seen.add(cur)
            nxt = BUILTIN_PARENT.get(cur)
            if nxt is None:
                c = self._repo_exc.get(cur) if hasattr(self, "_repo_exc") else None
                if c is not None:
                    nxt = c
            if nxt is None:
                break
            out.append(nxt)
            cur = nxt
        return out

    def _build_repo_exc(self):
        self._repo_exc = {}
        for c in self.p.all_classes():
            for b in c.base_exprs:
                bn = dotted_name(b)
                if bn:
                    self._repo_exc.setdefault(c.name, bn.split(".")[-1])

    def catches(self, handler_types, exc):
        """handler_types: list of names (None = bare except)."""
        if not hasattr(self, "_repo_exc"):
            self._build_repo_exc()
        if handler_types is None:
            return True
        ps = self.parents(exc)
        for h in handler_types:
            hn = h.split(".")[-1] if h not in BUILTIN_PARENT else h
            if h in ps or hn in [p.split(".")[-1] for p in ps]:
                return True
        return False

    # ---- taint -----------------------------------------------------------------------------
    def tainted_names(self, fn):
        seeds = set(self.extra_seeds)
        for a in fn.params():
            if a not in ("self", "cls") and self.param_tainted(fn, a):
                seeds.add(a)
        if fn.parent is not None:
            seeds |= self.tainted_names(fn.parent) if fn.parent.qualname not in self._stack_t else set()
        tainted = set(seeds)
        changed = True
        assigns = []
        for n in walk_no_defs(fn.node):
            if isinstance(n, ast.Assign):
                for t in n.targets:
                    assigns.append((t, n.value))
            elif isinstance(n, (ast.AnnAssign, ast.AugAssign)) and n.value is not None:
                assigns.append((n.target, n.value))
            elif isinstance(n, ast.For):
                assigns.append((n.target, n.iter))
            elif isinstance(n, ast.NamedExpr):
                assigns.append((n.target, n.value))
            elif isinstance(n, ast.ExceptHandler) and n.name:
                tainted.add(n.name)
        def targets(t):
            if isinstance(t, ast.Name):
                yield t.id
            elif isinstance(t, ast.Attribute):
                yield norm.text(t)
            elif isinstance(t, (ast.Tuple, ast.List)):
                for e in t.elts:
                    yield from targets(e)
            elif isinstance(t, ast.Starred):
                yield from targets(t.value)
            elif isinstance(t, ast.Subscript):
                yield from targets(t.value)

        while changed:
            changed = False
            for t, v in assigns:
                if self.expr_tainted(v, tainted):
                    for nm in targets(t):
                        if nm not in tainted and nm not in ("self", "cls"):
                            tainted.add(nm)
                            changed = True
        return tainted

    _stack_t = ()

    def param_tainted(self, fn, param, _depth=0):
        k = (fn.qualname, param)
        if fn.qualname in self.entry_taint:
            return param in self.entry_taint[fn.qualname]
        if k in self._ptaint:
            return self._ptaint[k]
        if self.cg is None:
            return self.taint_all_params
        self._ptaint[k] = False  # cycle guard
        callers = self.cg.callers(fn)
        res = False
        if not callers:
            # framework entry point / user-facing API: parameters are not peer data unless the rule says so
            res = False
        from .flow import bound_arg
        for (caller, call, _) in callers:
            kind, e = bound_arg(call, fn, param)
            if kind == "arg" and e is not None:
                if _depth < 6 and self.expr_tainted(e, self._tainted_cached(caller)):
                    res = True
                    break
        self._ptaint[k] = res
        return res

    def _tainted_cached(self, fn):
        if not hasattr(self, "_tn"):
            self._tn = {}
        if fn.qualname not in self._tn:
            self._tn[fn.qualname] = set(self.extra_seeds)  # provisional during recursion
            self._tn[fn.qualname] = self.tainted_names(fn)
        return self._tn[fn.qualname]

    def expr_tainted(self, e, tainted):
        """Does expression e mention a tainted name? Comprehension variables are scoped to their comprehension."""
        if isinstance(e, (ast.ListComp, ast.SetComp, ast.GeneratorExp, ast.DictComp)):
            local = set(tainted)
            for gen in e.generators:
                bound = {x.id for x in ast.walk(gen.target) if isinstance(x, ast.Name)}
                if self.expr_tainted(gen.iter, local):
                    local |= bound
                else:
                    local -= bound
                for c in gen.ifs:
                    pass
            parts = [e.elt] if not isinstance(e, ast.DictComp) else [e.key, e.value]
            return any(self.expr_tainted(p, local) for p in parts) or any(self.expr_tainted(g.iter, tainted) for g in e.generators[:1])
        if isinstance(e, ast.Name):
            return e.id in tainted
        if isinstance(e, ast.Attribute):
            try:
                if norm.text(e) in tainted:
                    return True
            except Exception:
                pass
        if isinstance(e, ast.Lambda):
            return False
        for ch in ast.iter_child_nodes(e):
            if isinstance(ch, (ast.expr, ast.keyword, ast.comprehension, ast.slice if hasattr(ast, "slice") else ast.expr)):
                if self.expr_tainted(ch.value if isinstance(ch, ast.keyword) else ch, tainted):
                    return True
        return False

    # ---- main ---------------------------------------------------------------------------------
    def may_raise(self, fn):
        q = fn.qualname
        if q in self._memo:
            return self._memo[q]
        if q in self._stack:
            return []
        self._stack.append(q)
        try:
            res = self._analyse(fn)
        finally:
            self._stack.pop()
        self._memo[q] = res
        return res

    def _protect_map(self, fn):
        """stmt id -> list of handler type lists (innermost first) protecting that statement."""
        prot = {}

        def walk(stmts, ctx):
            for st in stmts:
                prot[id(st)] = ctx
                if isinstance(st, ast.Try):
                    hts = []
                    for h in st.handlers:
                        if h.type is None:
                            hts.append(None)
                        else:
                            ts = h.type.elts if isinstance(h.type, ast.Tuple) else [h.type]
                            hts.append([dotted_name(t) or "?" for t in ts])
                    walk(st.body, [hts] + ctx)
                    for h in st.handlers:
                        prot[id(h)] = ctx
                        walk(h.body, ctx)
                    walk(st.orelse, ctx)
                    walk(st.finalbody, ctx)
                elif isinstance(st, (ast.If, ast.While, ast.For, ast.AsyncFor)):
                    walk(st.body, ctx)
                    walk(st.orelse, ctx)
                elif isinstance(st, (ast.With, ast.AsyncWith)):
                    walk(st.body, ctx)

        walk(fn.node.body, [])
        return prot

    def _caught(self, ctx, exc):
        for hts in ctx:
            for ht in hts:
                if self.catches(ht, exc):
                    return True
        return False

    def _analyse(self, fn):
        g, mf, res = self.an.get(fn)
        prot = self._protect_map(fn)
        tainted = self._tainted_cached(fn)
        out = []
        # map each CFG node to the protecting context of its statement
        stmt_of = {}

        def index_stmts(stmts):
            for st in stmts:
                for sub in ast.walk(st) if not isinstance(st, (ast.If, ast.While, ast.For, ast.Try, ast.With, ast.FunctionDef, ast.AsyncFunctionDef, ast.ClassDef)) else []:
                    stmt_of[id(sub)] = st
                if isinstance(st, (ast.If, ast.While)):
                    for sub in ast.walk(st.test):
                        stmt_of[id(sub)] = st
                    index_stmts(st.body)
                    index_stmts(st.orelse)
                elif isinstance(st, (ast.For, ast.AsyncFor)):
                    for sub in list(ast.walk(st.iter)) + list(ast.walk(st.target)):
                        stmt_of[id(sub)] = st
                    stmt_of[id(st)] = st
                    index_stmts(st.body)
                    index_stmts(st.orelse)
                elif isinstance(st, ast.Try):
                    index_stmts(st.body)
                    for h in st.handlers:
                        index_stmts(h.body)
                    index_stmts(st.orelse)
                    index_stmts(st.finalbody)
                elif isinstance(st, (ast.With, ast.AsyncWith)):
                    for it in st.items:
                        for sub in ast.walk(it.context_expr):
                            stmt_of[id(sub)] = st
                    stmt_of[id(st)] = st
                    index_stmts(st.body)

        index_stmts(fn.node.body)
        for n in g.stmt_nodes():
            if n.ast is None or n.kind == "handler":
                continue
            facts = mf.at(n)
            if facts is None:
                continue  # unreachable
            st = stmt_of.get(id(n.ast), None)
            if st is None and n.kind == "stmt":
                st = n.ast
            ctx = prot.get(id(st), []) if st is not None else []
            # inside a While/If test the protection is that of the compound statement itself
            for site in self._sites(fn, n, facts, tainted, res):
                self.sites_seen += 1
                if self._caught(ctx, site.exc):
                    continue
                out.append(site)
        return out

    # ---- raising sites of one CFG node -----------------------------------------------------------
    def _sites(self, fn, n, facts, tainted, res):
        a = n.ast
        sites = []
        if n.kind == "stmt" and isinstance(a, ast.Raise):
            exc = "Exception"
            if a.exc is not None:
                e = a.exc.func if isinstance(a.exc, ast.Call) else a.exc
                exc = (dotted_name(e) or "Exception").split(".")[-1]
                if isinstance(a.exc, ast.Name) and a.exc.id[:1].islower():
                    exc = "Exception"  # re-raise of a caught variable
            if exc == "Exception" and not self.report_generic_raise:
                return sites  # generic `raise Exception("logic error"/API misuse)`: state-machine defaults, not input-driven
            if not self._is_safe(fn, a):
                sites.append(Site(exc, "raise " + (norm.text(a.exc)[:50] if a.exc is not None else ""), fn, a))
            return sites
        if n.kind == "stmt" and isinstance(a, ast.Assert):
            return sites
        exprs = node_exprs(n)
        # tuple unpacking of a split()
        if n.kind == "stmt" and isinstance(a, ast.Assign) and isinstance(a.targets[0], (ast.Tuple, ast.List)):
            v = a.value
            if isinstance(v, ast.Call) and isinstance(v.func, ast.Attribute) and v.func.attr in ("split", "rsplit", "partition"):
                if v.func.attr != "partition" and self.expr_tainted(v, tainted):
                    sep = v.args[0] if v.args else None
                    base = norm.text(v.func.value)
                    guarded = False
                    if sep is not None and isinstance(sep, ast.Constant):
                        for f in facts:
                            # s.find(sep) >= 0  == not (s.find(sep) < 0)
                            if f[0] == "lt" and f[1] == ("e", f"{base}.find({sep.value!r})") and f[2] == ("c", 0) and not f[3]:
                                guarded = True
                            if f[0] == "in" and f[1] == repr(sep.value) and f[2] == ("e", base) and f[3]:
                                guarded = True
                    if not guarded and not self._is_safe(fn, a):
                        sites.append(Site("ValueError", f"unpacking {norm.text(v)[:50]}", fn, a))
            elif isinstance(v, (ast.Name, ast.Attribute, ast.Subscript)) and self.expr_tainted(v, tainted) and not self._is_safe(fn, a):
                ok = False
                want = len(a.targets[0].elts)
                for f in facts:
                    if f[0] == "eq" and f[1] == f"len({norm.text(v)})" and f[2] == ("c", want) and f[3]:
                        ok = True
                if not ok:
                    sites.append(Site("ValueError", f"unpacking {norm.text(v)[:50]} into {want} names", fn, a))
        for e in exprs:
            if isinstance(e, ast.expr):
                self._visit(fn, e, frozenset(facts), tainted, res, sites)
            else:
                for sub in ast.iter_child_nodes(e):
                    if isinstance(sub, ast.expr):
                        self._visit(fn, sub, frozenset(facts), tainted, res, sites)
        return sites

    def _visit(self, fn, x, facts, tainted, res, sites):
        """Expression walk that adds short-circuit knowledge: in `a and b`, b is evaluated knowing a; in `a or b`, knowing not a."""
        if isinstance(x, (ast.Lambda, ast.FunctionDef, ast.AsyncFunctionDef)):
            return
        if isinstance(x, ast.BoolOp):
            acc = facts
            for v in x.values:
                self._visit(fn, v, acc, tainted, res, sites)
                acc = acc | frozenset(norm.atoms(v, isinstance(x.op, ast.And), res))
            return
        if isinstance(x, ast.IfExp):
            self._visit(fn, x.test, facts, tainted, res, sites)
            self._visit(fn, x.body, facts | frozenset(norm.atoms(x.test, True, res)), tainted, res, sites)
            self._visit(fn, x.orelse, facts | frozenset(norm.atoms(x.test, False, res)), tainted, res, sites)
            return
        if isinstance(x, (ast.ListComp, ast.SetComp, ast.GeneratorExp, ast.DictComp)):
            acc = facts
            local = set(tainted)
            for gen in x.generators:
                self._visit(fn, gen.iter, acc, local, res, sites)
                bound = {y.id for y in ast.walk(gen.target) if isinstance(y, ast.Name)}
                if self.expr_tainted(gen.iter, local):
                    local |= bound
                else:
                    local -= bound
                for cond in gen.ifs:
                    self._visit(fn, cond, acc, local, res, sites)
                    acc = acc | frozenset(norm.atoms(cond, True, res))
            for part in ([x.elt] if not isinstance(x, ast.DictComp) else [x.key, x.value]):
                self._visit(fn, part, acc, local, res, sites)
            return
        if isinstance(x, ast.Call):
            sites.extend(self._call_sites(fn, x, facts, tainted, res))
        elif isinstance(x, ast.Subscript) and isinstance(x.ctx, ast.Load) and not isinstance(x.slice, ast.Slice):
            st = self._subscript_site(fn, x, facts, tainted, res)
            if st:
                sites.append(st)
        for ch in ast.iter_child_nodes(x):
            if isinstance(ch, ast.expr):
                self._visit(fn, ch, facts, tainted, res, sites)
            elif isinstance(ch, ast.keyword):
                self._visit(fn, ch.value, facts, tainted, res, sites)

    def _is_safe(self, fn, node):
        k = (fn.qualname, " ".join(norm.text(node).split())[:100])
        if k in self.safe:
            self.used_safe.add(k)
            return True
        return False

    def _len_at_least(self, facts, base, need):
        lt = f"len({base})"
        for f in facts:
            if f[0] == "eq" and f[1] == lt and f[2][0] == "c" and f[3] and isinstance(f[2][1], int) and f[2][1] >= need:
                return True
            if f[0] == "lt" and f[1][0] == "c" and f[2] == ("e", lt) and f[3] and f[1][1] >= need - 1:
                return True
            if f[0] == "lt" and f[1] == ("e", lt) and f[2][0] == "c" and not f[3] and f[2][1] >= need:
                return True
            if need == 1 and f[0] == "truth" and f[1] == base and f[3]:
                return True
        return False

    def _nonempty_by_construction(self, fn, name):
        """name = X.split(<sep>) / [.. for .. in X.split(<sep>)] / raw.splitlines() of delimiter-terminated input."""
        vals = []
        for n in walk_no_defs(fn.node):
            if isinstance(n, ast.Assign) and any(isinstance(t, ast.Name) and t.id == name for t in n.targets):
                vals.append(n.value)
            elif isinstance(n, (ast.For, ast.comprehension)) and any(isinstance(t, ast.Name) and t.id == name for t in ast.walk(n.target)):
                return False
        if not vals:
            return False

        def ne(v):
            if isinstance(v, ast.Call) and isinstance(v.func, ast.Attribute) and v.func.attr in ("split", "rsplit") and v.args:
                return True
            if isinstance(v, ast.Subscript) and isinstance(v.slice, ast.Slice) and v.slice.upper is None and v.slice.step is None and \
                    isinstance(v.slice.lower, ast.UnaryOp) and isinstance(v.slice.lower.op, ast.USub) and isinstance(v.value, ast.Name):
                # X[-k:] of a non-empty X is non-empty for k >= 1 (k truthy is required by the caller's guard)
                return self._nonempty_by_construction(fn, v.value.id)
            if isinstance(v, ast.ListComp) and len(v.generators) == 1 and not v.generators[0].ifs:
                return ne(v.generators[0].iter)
            return False

        return all(ne(v) for v in vals)

    def _subscript_site(self, fn, x, facts, tainted, res):
        base = x.value
        if not self.expr_tainted(base, tainted) and not self.expr_tainted(x.slice, tainted):
            return None
        bt = norm.text(base)
        k = norm.key(x.slice, res)
        if self._is_safe(fn, x):
            return None
        if isinstance(base, ast.Dict):
            return Site("KeyError", f"{norm.text(x)[:50]}", fn, x)
        if k[0] == "c" and isinstance(k[1], int) and not isinstance(k[1], bool):
            need = k[1] + 1 if k[1] >= 0 else -k[1]
            if self._len_at_least(facts, bt, need):
                return None
            if isinstance(base, ast.Name) and need == 1 and self._nonempty_by_construction(fn, base.id):
                return None
            if isinstance(base, ast.Call) and isinstance(base.func, ast.Attribute) and base.func.attr in ("split", "rsplit") and base.args and need == 1:
                return None
            return Site("IndexError", f"{norm.text(x)[:50]}", fn, x)
        # mapping access with a key
        kt = norm.text(x.slice) if k[0] != "c" else repr(k[1])
        for f in facts:
            if f[0] == "in" and f[3] and f[1] == kt and f[2][0] == "e":
                if f[2][1] == bt or _alias(fn, f[2][1], bt):
                    return None
        return Site("KeyError", f"{norm.text(x)[:50]}", fn, x)

    def _call_sites(self, fn, c, facts, tainted, res):
        out = []
        name = call_name(c) or ""
        f = c.func
        if self._is_safe(fn, c):
            return out
        ftxt = norm.text(f)
        if ftxt in self.opaque_raises:
            out.append(Site(self.opaque_raises[ftxt], f"{ftxt}(...)", fn, c))
        targ = any(self.expr_tainted(a, tainted) for a in list(c.args) + [k.value for k in c.keywords])
        trecv = isinstance(f, ast.Attribute) and self.expr_tainted(f.value, tainted)
        if isinstance(f, ast.Attribute) and f.attr == "decode" and trecv:
            args = [a.value for a in c.args if isinstance(a, ast.Constant)] + [k.value.value for k in c.keywords if isinstance(k.value, ast.Constant)]
            enc = (args[0] if args else "utf8").lower().replace("-", "").replace("_", "")
            if not any(a in ("ignore", "replace", "backslashreplace", "surrogateescape") for a in args) and enc not in ("iso88591", "latin1"):
                out.append(Site("UnicodeDecodeError", f"{norm.text(c)[:50]}", fn, c))
        elif isinstance(f, ast.Attribute) and f.attr == "encode" and trecv:
            args = [a.value for a in c.args if isinstance(a, ast.Constant)]
            enc = (args[0] if args else "utf8").lower().replace("-", "")
            if enc in ("ascii", "latin1", "iso88591"):
                out.append(Site("UnicodeEncodeError", f"{norm.text(c)[:50]}", fn, c))
        elif isinstance(f, ast.Name) and f.id in ("int", "float") and c.args and targ:
            out.append(Site("ValueError", f"{norm.text(c)[:50]}", fn, c))
        elif name in ("struct.unpack", "struct.unpack_from") and targ:
            out.append(Site("struct.error", f"{norm.text(c)[:50]}", fn, c))
        elif name.split(".")[-1] in ("b64decode", "a2b_base64", "unhexlify", "a2b_hex", "b32decode") and targ:
            out.append(Site("binascii.Error", f"{norm.text(c)[:50]}", fn, c))
        elif name.endswith("URL.from_text") and targ:
            out.append(Site("URLParseError", f"{norm.text(c)[:50]}", fn, c))
        elif name.split(".")[-1] in ("urlparse", "urlsplit") and targ:
            out.append(Site("ValueError", f"{norm.text(c)[:50]}", fn, c))
        elif isinstance(f, ast.Attribute) and f.attr in ("port",) :
            pass
        elif name.split(".")[-1] in ("loads",) and targ:
            out.append(Site("ValueError", f"{norm.text(c)[:50]}", fn, c))
        elif isinstance(f, ast.Attribute) and f.attr == "index" and trecv:
            out.append(Site("ValueError", f"{norm.text(c)[:50]}", fn, c))
        elif isinstance(f, ast.Attribute) and f.attr in ("remove",) and trecv:
            out.append(Site("ValueError", f"{norm.text(c)[:50]}", fn, c))
        elif isinstance(f, ast.Attribute) and f.attr == "pop" and isinstance(f.value, (ast.Name, ast.Attribute)) and len(c.args) == 1 and (targ or trecv):
            out.append(Site("KeyError", f"{norm.text(c)[:50]}", fn, c))
        # starred / double-starred Optional
        # resolved repo callees
        if name in self.trusted_calls:
            return out
        for g in self.p.resolve_call(c, fn):
            if g.qualname == fn.qualname or g.name in self.stop or g.qualname in self.stop:
                continue
            for s in self.may_raise(g):
                out.append(Site(s.exc, s.what, s.fn, s.node, via=(f"{fn.name}()",) + s.via if False else s.via + (f"called from {fn.name}",)))
        return out


def _alias(fn, a, b):
    """The header-count table is keyed exactly like the header table (parseHttpHeader fills both in the same branches): the second and third
    value unpacked from one parseHttpHeader(...) call of this function, whatever the targets are called."""
    for st in walk_no_defs(fn.node):
        if isinstance(st, ast.Assign) and isinstance(st.value, ast.Call) and (call_name(st.value) or "").split(".")[-1] == "parseHttpHeader" \
                and isinstance(st.targets[0], ast.Tuple) and len(st.targets[0].elts) == 3:
            if {a, b} == {norm.text(st.targets[0].elts[1]), norm.text(st.targets[0].elts[2])}:
                return True
    return False
