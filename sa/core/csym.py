"""Symbolic (affine) interpreter for the byte-loop subset of C used by nvx/_xormasker.c.

Values are affine forms over named symbols (entry pointer, data address, length, ...). Branch conditions are not decided:
every `if` forks, so the result is a set of paths, each a list of memory effects:
    ('xor', base, count, unit_bytes, key)   base/count affine; key = affine form of the key index of element j / lane b
    ('store', lvalue_text, value)
Loops must have the shape `for (T i = 0; i < N; i++) BODY` with per-iteration constant deltas; anything else raises
AnalysisError (the checker is blind, never a pass).
"""
from pycparser import c_ast

from .index import AnalysisError


class Aff:
    __slots__ = ("c", "t")

    def __init__(self, c=0, t=None):
        self.c = c
        self.t = {k: v for k, v in (t or {}).items() if v != 0}

    @staticmethod
    def sym(name):
        return Aff(0, {name: 1})

    def __add__(self, o):
        o = aff(o)
        t = dict(self.t)
        for k, v in o.t.items():
            t[k] = t.get(k, 0) + v
        return Aff(self.c + o.c, t)

    def __sub__(self, o):
        return self + aff(o) * -1

    def __mul__(self, k):
        if isinstance(k, Aff):
            if not k.t:
                k = k.c
            elif not self.t:
                return k * self.c
            else:
                raise AnalysisError("non-linear arithmetic in the C byte loop")
        return Aff(self.c * k, {s: v * k for s, v in self.t.items()})

    def mod(self, m):
        return Aff(self.c % m, {s: v % m for s, v in self.t.items()})

    def is_const(self):
        return not self.t

    def __eq__(self, o):
        o = aff(o)
        return self.c == o.c and self.t == o.t

    def __hash__(self):
        return hash((self.c, tuple(sorted(self.t.items()))))

    def subst(self, name, val):
        if name not in self.t:
            return self
        k = self.t[name]
        rest = Aff(self.c, {s: v for s, v in self.t.items() if s != name})
        return rest + aff(val) * k

    def __repr__(self):
        parts = [f"{v}*{k}" if v != 1 else k for k, v in sorted(self.t.items())]
        if self.c or not parts:
            parts.append(str(self.c))
        return " + ".join(parts)


def aff(x):
    return x if isinstance(x, Aff) else Aff(x)


class Path:
    def __init__(self, env=None, effects=None, conds=None):
        self.env = dict(env or {})
        self.effects = list(effects or [])
        self.conds = list(conds or [])
        self.arrays = {}

    def fork(self):
        p = Path(self.env, self.effects, self.conds)
        p.arrays = dict(self.arrays)
        return p


class CSym:
    def __init__(self, func, ptr_unit=None):
        self.func = func
        self.ptr_unit = ptr_unit or {}  # variable name -> bytes per pointer unit (uint8_t* 1, __m128i* 16)
        self.fresh = 0

    def unsigned(self):
        if not hasattr(self, "_uns"):
            self._uns = set()

            class V(c_ast.NodeVisitor):
                def visit_Decl(v, n):
                    t = n.type
                    if isinstance(t, c_ast.TypeDecl) and isinstance(t.type, c_ast.IdentifierType) and \
                            any(x in ("size_t", "uintptr_t", "uint8_t", "uint32_t", "uint64_t", "unsigned") for x in t.type.names):
                        self._uns.add(n.name)
                    v.generic_visit(n)

            V().visit(self.func)
        return self._uns

    def text(self, n):
        from pycparser import c_generator
        return c_generator.CGenerator().visit(n)

    # ---- expressions --------------------------------------------------------------
    def ev(self, e, p):
        if isinstance(e, c_ast.Constant):
            if e.type in ("int", "long int", "unsigned int", "long long int", "unsigned long int"):
                return Aff(int(e.value.rstrip("uUlL"), 0))
            raise AnalysisError(f"constant {e.value} of type {e.type} in byte loop")
        if isinstance(e, c_ast.ID):
            if e.name in p.env:
                return p.env[e.name]
            raise AnalysisError(f"C variable {e.name} read before assignment")
        if isinstance(e, c_ast.Cast):
            return self.ev(e.expr, p)
        if isinstance(e, c_ast.StructRef):
            k = self.text(e)
            if k in p.env:
                return p.env[k]
            raise AnalysisError(f"C field {k} read but not modelled")
        if isinstance(e, c_ast.BinaryOp):
            if e.op == "&":
                l, r = self.ev(e.left, p), self.ev(e.right, p)
                if isinstance(r, Aff) and r.is_const() and isinstance(l, Aff) and (r.c + 1) & r.c == 0:
                    return ("mask", l, r.c)
                if isinstance(l, Aff) and l.is_const() and isinstance(r, Aff) and (l.c + 1) & l.c == 0:
                    return ("mask", r, l.c)
                raise AnalysisError(f"bitwise & not of the form x & (2^k-1): {self.text(e)}")
            l, r = self.ev(e.left, p), self.ev(e.right, p)
            if isinstance(l, tuple) or isinstance(r, tuple):
                # (x & 15) used arithmetically: introduce a symbol for it
                l = self.name_mask(l, p)
                r = self.name_mask(r, p)
            if e.op == "+":
                return l + r
            if e.op == "-":
                return l - r
            if e.op == "*":
                return l * r
            if e.op == "/":
                if r.is_const() and r.c > 0 and l.is_const():
                    return Aff(l.c // r.c)
                if r.is_const() and r.c > 0:
                    q = Aff.sym(f"({l})/{r.c}")
                    p.env.setdefault("__div__", {})[f"({l})/{r.c}"] = (l, r.c)
                    return q
                raise AnalysisError(f"division {self.text(e)} not by a positive constant")
            if e.op in ("<", ">", "<=", ">=", "==", "!=", "&&", "||"):
                return ("cond", self.text(e))
            raise AnalysisError(f"C operator {e.op} not modelled")
        if isinstance(e, c_ast.UnaryOp):
            if e.op in ("p++", "++", "p--", "--"):
                raise AnalysisError("increment inside expression")
            if e.op == "-":
                return self.ev(e.expr, p) * -1
            if e.op == "*":
                return ("deref", self.ev(e.expr, p))
            if e.op == "sizeof":
                raise AnalysisError("sizeof in byte loop")
        if isinstance(e, c_ast.ArrayRef):
            return ("elem", self.text(e.name), self.ev(e.subscript, p))
        if isinstance(e, c_ast.FuncCall):
            name = e.name.name
            args = [a for a in (e.args.exprs if e.args else [])]
            if name in ("_mm_loadu_si128", "_mm_load_si128"):
                a = args[0]
                while isinstance(a, c_ast.Cast):
                    a = a.expr
                if isinstance(a, c_ast.ID) and a.name in p.arrays:
                    return ("vec-key", p.arrays[a.name])
                return ("vec-load", self.ev(a, p), name)
            if name == "_mm_xor_si128":
                return ("vec-xor", self.ev(args[0], p), self.ev(args[1], p))
            raise AnalysisError(f"C call {name} not modelled")
        raise AnalysisError(f"C expression {type(e).__name__} not modelled: {self.text(e)}")

    def name_mask(self, v, p):
        if isinstance(v, tuple) and v[0] == "mask":
            return Aff.sym(f"({v[1]})&{v[2]}")
        if isinstance(v, tuple):
            raise AnalysisError(f"value {v[0]} used arithmetically")
        return v

    # ---- statements ----------------------------------------------------------------
    def run(self, init_env):
        paths = [Path(init_env)]
        paths = self.block(self.func.body.block_items or [], paths)
        return paths

    def block(self, items, paths):
        for st in items:
            nxt = []
            for p in paths:
                nxt.extend(self.stmt(st, p))
            paths = nxt
            if len(paths) > 64:
                raise AnalysisError("path explosion in C function")
        return paths

    def unit(self, name):
        return self.ptr_unit.get(name, 1)

    def stmt(self, st, p):
        if isinstance(st, c_ast.Decl):
            if isinstance(st.type, c_ast.ArrayDecl):
                p.arrays[st.name] = None
                return [p]
            if st.init is not None:
                v = self.ev(st.init, p)
                if isinstance(v, tuple) and v[0] == "mask":
                    v = self.name_mask(v, p)
                p.env[st.name] = v
            if isinstance(st.type, c_ast.PtrDecl):
                t = st.type.type
                tn = " ".join(t.type.names) if isinstance(t, c_ast.TypeDecl) and isinstance(t.type, c_ast.IdentifierType) else ""
                self.ptr_unit[st.name] = 16 if tn == "__m128i" else 1
                if st.init is not None and isinstance(p.env.get(st.name), Aff):
                    pass
            return [p]
        if isinstance(st, c_ast.Assignment):
            if st.op == "=":
                self.assign(st.lvalue, self.ev(st.rvalue, p), p)
                return [p]
            if st.op in ("+=", "-="):
                cur = self.ev(st.lvalue, p)
                d = self.ev(st.rvalue, p)
                d = self.name_mask(d, p)
                if isinstance(st.lvalue, c_ast.ID):
                    d = d * self.unit(st.lvalue.name)
                self.assign(st.lvalue, cur + d if st.op == "+=" else cur - d, p)
                return [p]
            if st.op == "^=" and isinstance(st.lvalue, c_ast.ArrayRef):
                base = self.text(st.lvalue.name)
                if base not in p.env or not isinstance(p.env[base], Aff):
                    raise AnalysisError(f"xor target {base} is not a modelled pointer")
                idx = self.name_mask(self.ev(st.lvalue.subscript, p), p)
                addr = p.env[base] + idx * self.unit(base)
                p.effects.append(("xor", addr, self.ev(st.rvalue, p)))
                return [p]
            raise AnalysisError(f"assignment operator {st.op} not modelled: {self.text(st)}")
        if isinstance(st, c_ast.UnaryOp) and st.op in ("p++", "++"):
            cur = self.ev(st.expr, p)
            u = self.unit(st.expr.name) if isinstance(st.expr, c_ast.ID) else 1
            self.assign(st.expr, cur + u, p)
            return [p]
        if isinstance(st, c_ast.If):
            c0 = st.cond
            if isinstance(c0, c_ast.BinaryOp) and c0.op == ">=" and isinstance(c0.left, c_ast.ID) and isinstance(c0.right, c_ast.Constant) \
                    and c0.right.value == "0" and c0.left.name in self.unsigned():
                # unsigned >= 0 is always true: only the true branch is feasible
                return self.block(st.iftrue.block_items if isinstance(st.iftrue, c_ast.Compound) else [st.iftrue], [p])
            a, b = p, p.fork()
            a.conds.append((self.text(st.cond), True))
            b.conds.append((self.text(st.cond), False))
            c = st.cond
            if isinstance(c, c_ast.BinaryOp) and c.op in ("<", ">", "<=", ">="):
                try:
                    lv, rv = self.ev(c.left, p), self.ev(c.right, p)
                    if isinstance(lv, Aff) and isinstance(rv, Aff):
                        a.effects.append(("cmp", c.op, lv, rv, True))
                        b.effects.append(("cmp", c.op, lv, rv, False))
                except AnalysisError:
                    pass
            if isinstance(st.cond, c_ast.ID) and isinstance(p.env.get(st.cond.name), Aff):
                b.effects.append(("zero", p.env[st.cond.name]))
            # `if (x)` / `if (x > y) x = y` : record knowledge used by the tiling check
            outs = self.block(st.iftrue.block_items if isinstance(st.iftrue, c_ast.Compound) else [st.iftrue], [a])
            if st.iffalse is not None:
                outs += self.block(st.iffalse.block_items if isinstance(st.iffalse, c_ast.Compound) else [st.iffalse], [b])
            else:
                outs.append(b)
            return outs
        if isinstance(st, c_ast.For):
            return [self.loop(st, p)]
        if isinstance(st, c_ast.Compound):
            return self.block(st.block_items or [], [p])
        if isinstance(st, c_ast.Return):
            p.effects.append(("return", self.ev(st.expr, p) if st.expr is not None else None))
            return [p]
        if isinstance(st, c_ast.FuncCall):
            name = st.name.name
            args = st.args.exprs if st.args else []
            if name == "_mm_store_si128" or name == "_mm_storeu_si128":
                p.effects.append(("vec-store", self.ev(args[0], p), self.ev(args[1], p)))
                return [p]
            p.effects.append(("call", name, [self.text(a) for a in args]))
            return [p]
        if isinstance(st, c_ast.EmptyStatement):
            return [p]
        raise AnalysisError(f"C statement {type(st).__name__} not modelled: {self.text(st)[:60]}")

    def loop(self, st, p):
        # shape: for (T i = 0; i < N; i++)
        init = st.init
        ok = isinstance(init, c_ast.DeclList) and len(init.decls) == 1 and isinstance(init.decls[0].init, c_ast.Constant) and init.decls[0].init.value == "0"
        if not ok:
            raise AnalysisError(f"loop initialiser not `T i = 0`: {self.text(st.init)}")
        iv = init.decls[0].name
        c = st.cond
        if not (isinstance(c, c_ast.BinaryOp) and c.op == "<" and isinstance(c.left, c_ast.ID) and c.left.name == iv):
            raise AnalysisError(f"loop condition not `i < N`: {self.text(c)}")
        N = self.ev(c.right, p)
        if not (isinstance(st.next, c_ast.UnaryOp) and st.next.op in ("p++", "++") and isinstance(st.next.expr, c_ast.ID) and st.next.expr.name == iv):
            raise AnalysisError(f"loop step not `i++`: {self.text(st.next)}")
        body = st.stmt.block_items if isinstance(st.stmt, c_ast.Compound) else [st.stmt]
        # pass 1: per-iteration deltas of scalar variables
        probe = p.fork()
        probe.env[iv] = Aff.sym("@i")
        before = {k: v for k, v in probe.env.items() if isinstance(v, Aff)}
        eff0 = len(probe.effects)
        outs = self.block(body, [probe])
        if len(outs) != 1:
            raise AnalysisError("branch inside a byte loop")
        after = outs[0].env
        deltas = {}
        for k, v in before.items():
            if k == iv:
                continue
            nv = after.get(k)
            if isinstance(nv, Aff) and nv != v:
                d = nv - v
                if not d.is_const():
                    raise AnalysisError(f"variable {k} changes by a non-constant amount per loop iteration")
                deltas[k] = d.c
        # pass 2: iteration j: var = entry + delta*j
        it = p.fork()
        it.env[iv] = Aff.sym("@j")
        for k, d in deltas.items():
            it.env[k] = p.env[k] + Aff.sym("@j") * d
        outs = self.block(body, [it])
        res = outs[0]
        for e in res.effects[len(p.effects):]:
            p.effects.append(("loop", N, e))
        # array builds
        for name, key in res.arrays.items():
            if key is not None and key != p.arrays.get(name):
                p.arrays[name] = ("built", key, N)
        for k, d in deltas.items():
            p.env[k] = p.env[k] + N * d
        return p

    # element stores inside loops are produced by Assignment on ArrayRef: handled here
    def assign(self, lv, val, p):
        if isinstance(lv, c_ast.ID):
            p.env[lv.name] = self.name_mask(val, p) if isinstance(val, tuple) and val[0] == "mask" else val
            return
        if isinstance(lv, c_ast.StructRef):
            p.effects.append(("store", self.text(lv), val))
            p.env[self.text(lv)] = val
            return
        if isinstance(lv, c_ast.ArrayRef):
            base = self.text(lv.name)
            idx = self.ev(lv.subscript, p)
            if base in p.arrays:
                p.arrays[base] = ("elem", idx, val)
                return
            p.effects.append(("elem-store", base, p.env.get(base), idx, val))
            return
        raise AnalysisError(f"store to {self.text(lv)} not modelled")

