"""Forward must-bounds dataflow over a statement CFG.

For every tracked lvalue text (names, attribute chains) the state holds bounds that are valid on EVERY path:
  lo_c / hi_c : best constant lower / upper bound (or None)
  lo_e / hi_e : sets of lvalue texts e with  e <= x  /  x <= e
Sources of bounds: constant assignments, copies, min()/max() calls, and the two edges of comparison tests.
Join = intersection (constants: weakest). Anything else gives no bound (sound: fewer facts).
`assume_lo` is a table {lvalue text: constant lower bound} of configuration assumptions stated by the caller.
"""
import ast

from .cfg import stored_lvalues, node_calls
from . import norm


class B:
    __slots__ = ("lo_c", "hi_c", "lo_e", "hi_e")

    def __init__(self, lo_c=None, hi_c=None, lo_e=(), hi_e=()):
        self.lo_c, self.hi_c, self.lo_e, self.hi_e = lo_c, hi_c, frozenset(lo_e), frozenset(hi_e)

    def key(self):
        return (self.lo_c, self.hi_c, self.lo_e, self.hi_e)

    def __eq__(self, o):
        return isinstance(o, B) and self.key() == o.key()

    def __hash__(self):
        return hash(self.key())

    def __repr__(self):
        return f"[{self.lo_c}|{sorted(self.lo_e)} .. {self.hi_c}|{sorted(self.hi_e)}]"

    def meet_more(self, o):
        """Both bound sets hold (conjunction)."""
        lo = self.lo_c if o.lo_c is None else (o.lo_c if self.lo_c is None else max(self.lo_c, o.lo_c))
        hi = self.hi_c if o.hi_c is None else (o.hi_c if self.hi_c is None else min(self.hi_c, o.hi_c))
        return B(lo, hi, self.lo_e | o.lo_e, self.hi_e | o.hi_e)

    def join(self, o):
        """Either holds (control-flow merge)."""
        lo = None if self.lo_c is None or o.lo_c is None else min(self.lo_c, o.lo_c)
        hi = None if self.hi_c is None or o.hi_c is None else max(self.hi_c, o.hi_c)
        return B(lo, hi, self.lo_e & o.lo_e, self.hi_e & o.hi_e)

    def without(self, texts):
        return B(self.lo_c, self.hi_c, {e for e in self.lo_e if e not in texts}, {e for e in self.hi_e if e not in texts})


EMPTY = B()


def _trackable(e):
    return isinstance(e, (ast.Name, ast.Attribute)) and norm.text(e) is not None


class Bounds:
    def __init__(self, cfg, assume_lo=None, resolver=None):
        self.cfg = cfg
        self.assume_lo = assume_lo or {}
        self.res = resolver
        self.IN = {cfg.entry.id: {}}
        self._solve()

    # -- expression evaluation ------------------------------------------------------------
    def of(self, e, st):
        if isinstance(e, ast.Constant) and isinstance(e.value, (int, float)) and not isinstance(e.value, bool):
            return B(e.value, e.value)
        if isinstance(e, ast.UnaryOp) and isinstance(e.op, ast.USub) and isinstance(e.operand, ast.Constant) \
                and isinstance(e.operand.value, (int, float)):
            return B(-e.operand.value, -e.operand.value)
        if _trackable(e):
            t = norm.text(e)
            b = st.get(t, EMPTY).meet_more(B(None, None, {t}, {t}))
            if t in self.assume_lo:
                b = b.meet_more(B(self.assume_lo[t], None))
            return b
        if isinstance(e, ast.Call) and isinstance(e.func, ast.Name) and e.func.id in ("min", "max") and len(e.args) >= 2 \
                and not e.keywords and not any(isinstance(a, ast.Starred) for a in e.args):
            bs = [self.of(a, st) for a in e.args]
            if e.func.id == "min":
                # result <= every argument; result >= L when every argument >= L
                hi_c = [b.hi_c for b in bs if b.hi_c is not None]
                lo_all = all(b.lo_c is not None for b in bs)
                lo_e = frozenset.intersection(*[b.lo_e for b in bs])
                return B(min(b.lo_c for b in bs) if lo_all else None, min(hi_c) if hi_c else None, lo_e,
                         frozenset().union(*[b.hi_e for b in bs]))
            lo_c = [b.lo_c for b in bs if b.lo_c is not None]
            hi_all = all(b.hi_c is not None for b in bs)
            hi_e = frozenset.intersection(*[b.hi_e for b in bs])
            return B(max(lo_c) if lo_c else None, max(b.hi_c for b in bs) if hi_all else None,
                     frozenset().union(*[b.lo_e for b in bs]), hi_e)
        if isinstance(e, ast.IfExp):
            return self.of(e.body, st).join(self.of(e.orelse, st))
        return EMPTY

    # -- transfer ------------------------------------------------------------------------
    def _kill(self, st, texts):
        if not texts:
            return st
        out = {}
        for k, b in st.items():
            if any(k == t or k.startswith(t + ".") for t in texts):
                continue
            out[k] = b.without(texts)
        return out

    def _out(self, n, st):
        a = n.ast
        kills = set(stored_lvalues(n))
        new = None
        if n.kind == "stmt" and isinstance(a, ast.Assign) and len(a.targets) == 1 and _trackable(a.targets[0]):
            t = norm.text(a.targets[0])
            new = (t, self.of(a.value, st).without({t}))
        if n.kind == "stmt" and isinstance(a, ast.AnnAssign) and a.value is not None and _trackable(a.target):
            t = norm.text(a.target)
            new = (t, self.of(a.value, st).without({t}))
        # a call may write attributes of self: be conservative for self.* when a self-method / unknown call happens
        for c in node_calls(n):
            f = c.func
            if isinstance(f, ast.Attribute) and isinstance(f.value, ast.Name) and f.value.id == "self":
                kills |= {k for k in st if k.startswith("self.")}
        st = self._kill(st, kills)
        if new is not None:
            st = dict(st)
            st[new[0]] = new[1]
        return st

    def _edge(self, st, lab):
        if lab is None or lab[0] not in ("T", "F"):
            return st
        test, pol = lab[1], lab[0] == "T"
        if isinstance(test, ast.UnaryOp) and isinstance(test.op, ast.Not):
            test, pol = test.operand, not pol
        if not (isinstance(test, ast.Compare) and len(test.ops) == 1):
            return st
        l, op, r = test.left, test.ops[0], test.comparators[0]
        # normalise to  small <= big  (non-strict is all we keep)
        if isinstance(op, (ast.Gt, ast.GtE)):
            small, big = (r, l) if pol else (l, r)
        elif isinstance(op, (ast.Lt, ast.LtE)):
            small, big = (l, r) if pol else (r, l)
        else:
            return st
        st = dict(st)
        bs, bb = self.of(small, st), self.of(big, st)
        if _trackable(small):
            t = norm.text(small)
            st[t] = st.get(t, EMPTY).meet_more(B(None, bb.hi_c, (), bb.hi_e)).without({t})
        if _trackable(big):
            t = norm.text(big)
            st[t] = st.get(t, EMPTY).meet_more(B(bs.lo_c, None, bs.lo_e, ())).without({t})
        return st

    def _solve(self):
        work = [self.cfg.entry]
        while work:
            n = work.pop()
            st = self.IN.get(n.id)
            if st is None:
                continue
            out = self._out(n, st)
            for m, lab in n.succ:
                val = self._edge(out, lab) if not (lab is not None and lab[0] == "exc") else self._kill(st, set(stored_lvalues(n)))
                old = self.IN.get(m.id)
                if old is None:
                    new = val
                else:
                    new = {k: old[k].join(val[k]) for k in old if k in val}
                    new = {k: b for k, b in new.items() if b != EMPTY}
                if old is None or new != old:
                    self.IN[m.id] = new
                    work.append(m)

    def at(self, n):
        return self.IN.get(n.id)
