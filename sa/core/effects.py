"""Transitive self-attribute write sets and call-graph helpers over self-dispatch."""
import ast

from .index import walk_no_defs, calls_in, dotted_name, FuncInfo
from . import norm


class Effects:
    def __init__(self, program, receiver_cls=None):
        self.p = program
        self.receiver = receiver_cls  # concrete class used to resolve self.m(); None = CHA over subclasses
        self._direct = {}
        self._trans = {}
        self._callees = {}

    def direct_writes(self, fn):
        q = fn.qualname
        if q in self._direct:
            return self._direct[q]
        out = set()

        def tgt(t):
            if isinstance(t, (ast.Tuple, ast.List)):
                for e in t.elts:
                    tgt(e)
            elif isinstance(t, ast.Starred):
                tgt(t.value)
            elif isinstance(t, ast.Attribute):
                out.add(norm.text(t))
            elif isinstance(t, ast.Subscript):
                if isinstance(t.value, ast.Attribute):
                    out.add(norm.text(t.value))

        for n in walk_no_defs(fn.node):
            if isinstance(n, ast.Assign):
                for t in n.targets:
                    tgt(t)
            elif isinstance(n, (ast.AugAssign, ast.AnnAssign)):
                tgt(n.target)
            elif isinstance(n, ast.Delete):
                for t in n.targets:
                    tgt(t)
            elif isinstance(n, (ast.For, ast.AsyncFor)):
                tgt(n.target)
            elif isinstance(n, ast.Call) and isinstance(n.func, ast.Name) and n.func.id == "setattr":
                out.add("*self")
        self._direct[q] = out
        return out

    def callees(self, fn):
        q = fn.qualname
        if q in self._callees:
            return self._callees[q]
        out = []
        for c in calls_in(fn.node):
            for g in self.p.resolve_call(c, fn, self.receiver):
                out.append((c, g))
        self._callees[q] = out
        return out

    def writes(self, fn, _stack=None):
        q = fn.qualname
        if q in self._trans:
            return self._trans[q]
        _stack = _stack or set()
        if q in _stack:
            return set()
        _stack = _stack | {q}
        out = set(self.direct_writes(fn))
        for c, g in self.callees(fn):
            # only self-dispatch propagates writes to *this* object's attributes
            f = c.func
            if isinstance(f, ast.Attribute) and isinstance(f.value, ast.Name) and f.value.id == "self":
                out |= self.writes(g, _stack)
            elif isinstance(f, ast.Name) and g.parent is not None:
                out |= self.writes(g, _stack)  # closure called directly shares self
        if len(_stack) == 1:
            self._trans[q] = out
        return out

    def call_writes_fn(self, fn):
        """Factory for MustFacts(call_writes=...) inside function fn."""

        def cw(call):
            out = set()
            f = call.func
            selfcall = isinstance(f, ast.Attribute) and isinstance(f.value, ast.Name) and f.value.id == "self"
            closure = isinstance(f, ast.Name)
            if selfcall or closure:
                for g in self.p.resolve_call(call, fn, self.receiver):
                    if selfcall or g.parent is not None:
                        out |= self.writes(g)
            return out

        return cw

    def reaches(self, fn, target_pred, _seen=None, depth=0, through_self_only=True):
        """Does fn transitively (self-dispatch / closures / direct functions) contain a call satisfying target_pred?"""
        _seen = _seen if _seen is not None else set()
        if fn.qualname in _seen or depth > 12:
            return False
        _seen.add(fn.qualname)
        for c in calls_in(fn.node):
            if target_pred(c):
                return True
        for c, g in self.callees(fn):
            if self.reaches(g, target_pred, _seen, depth + 1):
                return True
        return False


def self_attr_stores(fn, attr):
    """All assignment statements `self.<attr> = value` in fn (not nested defs). Returns list of (stmt, value)."""
    out = []
    for n in walk_no_defs(fn.node):
        if isinstance(n, ast.Assign):
            for t in n.targets:
                if isinstance(t, ast.Attribute) and t.attr == attr and isinstance(t.value, ast.Name) and t.value.id == "self":
                    out.append((n, n.value))
        elif isinstance(n, ast.AnnAssign) and n.value is not None:
            t = n.target
            if isinstance(t, ast.Attribute) and t.attr == attr and isinstance(t.value, ast.Name) and t.value.id == "self":
                out.append((n, n.value))
    return out


def callers(program, target_fn, scope_funcs, receiver_cls=None):
    """(caller FuncInfo, call ast) pairs within scope_funcs whose resolved callee is target_fn."""
    out = []
    for fn in scope_funcs:
        fns = [fn] + list(_all_nested(fn))
        for f in fns:
            for c in calls_in(f.node):
                for g in program.resolve_call(c, f, receiver_cls):
                    if g.qualname == target_fn.qualname:
                        out.append((f, c))
    return out


def _all_nested(fn):
    for g in fn.nested_list():
        yield g
        yield from _all_nested(g)


def method_refs(fn, include_nested=True):
    """Attribute references `self.m` NOT in call position (callbacks handed to timers/futures)."""
    out = []
    called = set()
    it = ast.walk(fn.node) if include_nested else walk_no_defs(fn.node)
    nodes = list(it)
    for n in nodes:
        if isinstance(n, ast.Call):
            called.add(id(n.func))
    for n in nodes:
        if isinstance(n, ast.Attribute) and isinstance(n.value, ast.Name) and n.value.id == "self" and id(n) not in called:
            if isinstance(n.ctx, ast.Load):
                out.append(n)
    return out
