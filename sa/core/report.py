"""Obligation bookkeeping, known-findings handling, evidence writing, exit codes."""
import json
import os
import sys
import time

from .index import AnalysisError

VERIF = os.path.dirname(os.path.dirname(os.path.dirname(os.path.abspath(__file__))))
KNOWN = os.path.join(VERIF, "known_findings.json")


class Finding:
    def __init__(self, rule, construct, message, loc):
        self.rule = rule
        self.construct = construct
        self.message = message
        self.loc = loc

    @property
    def key(self):
        return f"{self.rule}::{self.construct}"

    def as_dict(self, prop):
        return {"property": prop, "rule": self.rule, "construct": self.construct, "message": self.message,
                "location": self.loc}


class Ctx:
    """Per-property run context handed to the rule functions."""

    def __init__(self, prop, program, tier="quick"):
        self.prop = prop
        self.program = program
        self.tier = tier
        self.obligations = 0
        self.discharged = 0
        self.findings = []
        self.samples = []
        self.per_rule = {}
        self.notes = []
        self.analysed_functions = set()
        self.cur_rule = None

    def rule(self, rule_id):
        self.cur_rule = rule_id
        self.per_rule.setdefault(rule_id, {"obligations": 0, "discharged": 0, "instances": 0})
        return rule_id

    def analysed(self, *funcs):
        for f in funcs:
            self.analysed_functions.add(f if isinstance(f, str) else f.qualname)

    def ob(self, construct, ok, message="", loc="", rule=None):
        """Record one obligation. construct: stable identifier of the instance (no line numbers)."""
        r = rule or self.cur_rule
        pr = self.per_rule.setdefault(r, {"obligations": 0, "discharged": 0, "instances": 0})
        self.obligations += 1
        pr["obligations"] += 1
        if ok:
            self.discharged += 1
            pr["discharged"] += 1
            if len(self.samples) < 400:
                self.samples.append(f"{r}::{construct}")
        else:
            self.findings.append(Finding(r, construct, message, loc))
        return ok

    def instances(self, n, rule=None):
        r = rule or self.cur_rule
        self.per_rule.setdefault(r, {"obligations": 0, "discharged": 0, "instances": 0})["instances"] += n

    def require(self, cond, what):
        """Anchor/shape requirement of the analyser itself; failure = blind checker (exit 2)."""
        if not cond:
            raise AnalysisError(f"[{self.cur_rule}] {what}")

    def floor(self, rule, minimum):
        got = self.per_rule.get(rule, {}).get("obligations", 0)
        if got < minimum:
            raise AnalysisError(f"[{rule}] only {got} rule instances found, floor confirmed by hand is {minimum} "
                                f"(extractor lost its anchors)")

    def note(self, s):
        self.notes.append(s)


def load_known():
    if not os.path.exists(KNOWN):
        return {"open": [], "fixed": []}
    with open(KNOWN) as fh:
        return json.load(fh)


def finish(ctx, meta, t0, replay_only=None):
    """Classify findings against known_findings.json, print lines, write evidence, return exit code."""
    prop = ctx.prop
    known = load_known()
    open_keys = {}
    for e in known.get("open", []):
        if e.get("property") == prop:
            open_keys[f"{e['rule']}::{e['construct']}"] = e
    seen_known = set()
    violations = []
    for f in ctx.findings:
        if f.key in open_keys:
            if f.key not in seen_known:
                seen_known.add(f.key)
                print(f"KNOWN-FINDING: property={prop} {f.rule} {f.construct}: {open_keys[f.key].get('what', f.message)}")
        else:
            violations.append(f)
    stale = [k for k in open_keys if k not in seen_known]
    for k in stale:
        ctx.note(f"known finding {k} no longer reported by its rule (stale entry)")
    scratch = bool(os.environ.get("VERIF_NO_EVIDENCE"))
    outdir = os.path.join(VERIF, "replays") if not scratch else os.path.join("/tmp", f"verif_replays_{os.getpid()}")
    lines = []
    if violations:
        os.makedirs(outdir, exist_ok=True)
    seenv = set()
    for i, f in enumerate(violations):
        if f.key in seenv:
            continue
        seenv.add(f.key)
        path = os.path.join(outdir, f"{prop}_{len(seenv)}.json")
        with open(path, "w") as fh:
            json.dump(f.as_dict(prop), fh, indent=1)
        print(f"  {f.loc}: [{f.rule}] {f.construct}: {f.message}")
        lines.append(f"VIOLATION property={prop} replay={path}")
    for l in lines:
        print(l)
    wall = time.time() - t0
    nontrivial = len(set(ctx.samples)) + len(seenv) + len(seen_known)
    ev = {
        "property_id": prop,
        "tier": ctx.tier,
        "seed": int(os.environ.get("VERIF_SEED", "0") or 0),
        "level": "other",
        "coverage": {
            "explanation": meta.get("explanation", ""),
            "obligations": ctx.obligations,
            "discharged": ctx.discharged,
            "evaluations": max(ctx.obligations, 1),
            "distinct_nontrivial": max(nontrivial, 0),
            "rule": "one obligation per (rule, code construct) instance extracted from the current /repo source; "
                    "distinct = distinct (rule, construct) keys; all are non-trivial (each is a concrete site in the tree)",
            "samples": sorted(set(ctx.samples))[:60] or ["<none>"],
            "per_rule": ctx.per_rule,
            "functions_analysed": sorted(ctx.analysed_functions),
            "modules_parsed": len(ctx.program.modules),
            "source_digest": ctx.program.digest.hexdigest()[:16],
            "known_findings_reported": sorted(seen_known),
            "notes": ctx.notes,
            "exhaustive": bool(meta.get("exhaustive", False)),
            "checker_cmd": f"./check {prop} --tier {ctx.tier}",
            "trusted_base": ["CPython ast module", "sa/ engine (index, cfg, norm)"] + meta.get("trusted", []),
        },
        "assumptions": meta.get("assumptions", []),
        "wall_s": round(wall, 3),
        "violations": len(seenv),
    }
    if getattr(ctx, "selftest", None) is not None:
        ev["coverage"]["selftest"] = ctx.selftest
    if replay_only is None and not scratch:
        os.makedirs(os.path.join(VERIF, "evidence"), exist_ok=True)
        with open(os.path.join(VERIF, "evidence", f"{prop}.json"), "w") as fh:
            json.dump(ev, fh, indent=1, default=str)
    print(f"[{prop}] tier={ctx.tier} obligations={ctx.obligations} discharged={ctx.discharged} "
          f"known={len(seen_known)} violations={len(seenv)} wall={wall:.2f}s")
    return 1 if seenv else 0
