"""Thorough tier: mutation self-test of the rules.

For each property a table of small source edits is kept (sa/selftest/cNN.py):
  MUTANTS : property-breaking edits -- the check must exit 1 and name the expected rule
  CLEAN   : behaviour-preserving rewrites of the same code -- the check must stay silent
Each entry is applied to a scratch copy of the CURRENT /repo/src (so the self-test follows the tree), the quick
check is run on the copy with --src, and the copy is removed. An entry whose `old` text no longer occurs in the
current tree is reported as skipped (the tree moved on), never as a pass.
The analysed program is never executed; this exercises the analyser, not autobahn.
"""
import importlib
import os
import shutil
import subprocess
import sys
import tempfile
from concurrent.futures import ThreadPoolExecutor

VERIF = os.path.dirname(os.path.dirname(os.path.dirname(os.path.abspath(__file__))))


def _scratch_root():
    for d in ("/dev/shm", tempfile.gettempdir()):
        if os.path.isdir(d) and os.access(d, os.W_OK):
            return d
    return None


def _run_one(prop, src, entry, kind):
    edits = [] if entry.get("patch") else (entry.get("edits") or [(entry["file"], entry["old"], entry["new"])])
    for f, old, new in edits:
        p = os.path.join(src, "autobahn", f)
        if not os.path.exists(p) or open(p).read().count(old) < 1:
            return {"name": entry["name"], "kind": kind, "status": "skipped", "why": f"pattern not in current {f}"}
    d = tempfile.mkdtemp(prefix="sa_selftest_", dir=_scratch_root())
    try:
        shutil.copytree(os.path.join(src, "autobahn"), os.path.join(d, "src", "autobahn"),
                        ignore=shutil.ignore_patterns("__pycache__", "*.so", "*.pyc", "*.o"))
        if entry.get("patch"):
            r = subprocess.run(["patch", "-p1", "-s", "-f", "-d", d, "-i", entry["patch"]], capture_output=True, text=True)
            if r.returncode != 0:
                return {"name": entry["name"], "kind": kind, "status": "skipped", "why": "seeded patch does not apply to the current tree"}
        for f, old, new in edits:
            p = os.path.join(d, "src", "autobahn", f)
            s = open(p).read().replace(old, new, 1)
            if p.endswith(".py"):
                try:
                    compile(s, p, "exec")
                except SyntaxError as e:
                    return {"name": entry["name"], "kind": kind, "status": "broken-entry", "why": f"mutant does not compile: {e}"}
            open(p, "w").write(s)
        r = subprocess.run([sys.executable, "-m", "sa", prop, "--tier", "quick", "--src", os.path.join(d, "src")], cwd=VERIF,
                           capture_output=True, text=True, env={**os.environ, "VERIF_NO_EVIDENCE": "1", "PYTHONDONTWRITEBYTECODE": "1"})
        rules = sorted({l.split("[", 1)[1].split("]", 1)[0] for l in r.stdout.splitlines() if l.startswith("  ") and "[" in l and "]" in l})
        if kind == "mutant":
            exp = entry.get("expect")
            hit = r.returncode == 1 and (exp is None or any(x.startswith(exp) for x in rules))
            st = "detected" if hit else ("analysis-error" if r.returncode == 2 else "missed")
            return {"name": entry["name"], "kind": kind, "status": st, "rules": rules, "expect": exp,
                    "why": "" if hit else (r.stdout + r.stderr)[-300:]}
        st = "silent" if r.returncode == 0 else ("analysis-error" if r.returncode == 2 else "false-alarm")
        return {"name": entry["name"], "kind": kind, "status": st, "rules": rules, "why": "" if r.returncode == 0 else (r.stdout + r.stderr)[-300:]}
    finally:
        shutil.rmtree(d, ignore_errors=True)
        shutil.rmtree(os.path.join("/tmp", f"verif_replays_{os.getpid()}"), ignore_errors=True)


def run(prop, src, jobs=16):
    try:
        mod = importlib.import_module(f"sa.selftest.{prop.lower()}")
    except ImportError:
        mod = None
    work = [(e, "mutant") for e in getattr(mod, "MUTANTS", [])] + [(e, "clean") for e in getattr(mod, "CLEAN", [])]
    # regressions seeded by independent sub-agents (confirmed property-breaking, tests still pass): /verif/seeded/<ID>-<k>/patch.diff
    sd = os.path.join(VERIF, "seeded")
    if os.path.isdir(sd):
        for d in sorted(os.listdir(sd)):
            pf = os.path.join(sd, d, "patch.diff")
            if d.split("-")[0] == prop and os.path.exists(pf):
                kind = "breaking"
                try:
                    import json
                    kind = json.load(open(os.path.join(sd, d, "meta.json"))).get("kind", "breaking")
                except Exception:
                    pass
                if kind == "neutral":
                    work.append(({"name": f"behaviour-preserving cleanup {d}", "patch": pf}, "clean"))
                else:
                    work.append(({"name": f"seeded regression {d}", "patch": pf, "expect": prop + "."}, "mutant"))
    # reverts of the repository's own `fix:` commits (stored as reverse patches): the rule that found the defect
    # must report it again when the repair is undone
    rv = os.path.join(os.path.dirname(os.path.abspath(__file__)), "reverts")
    if os.path.isdir(rv):
        import json
        try:
            fixed = json.load(open(os.path.join(VERIF, "known_findings.json"))).get("fixed", [])
        except Exception:
            fixed = []
        for f in sorted(os.listdir(rv)):
            if f.startswith(prop + "-") and f.endswith(".diff"):
                commit = f[len(prop) + 1:-5]
                rules = sorted({e["rule"].split("-")[0] for e in fixed if e.get("commit") == commit and e.get("property") == prop})
                work.append(({"name": f"revert of fix {commit}", "patch": os.path.join(rv, f), "expect": rules[0] if len(rules) == 1 else prop + "."}, "mutant"))
    if not work:
        return None
    with ThreadPoolExecutor(jobs) as ex:
        res = list(ex.map(lambda w: _run_one(prop, src, w[0], w[1]), work))
    # replay files written by scratch runs of the children
    for d in os.listdir("/tmp"):
        if d.startswith("verif_replays_"):
            shutil.rmtree(os.path.join("/tmp", d), ignore_errors=True)
    out = {"mutants": sum(1 for r in res if r["kind"] == "mutant"), "detected": sum(1 for r in res if r["status"] == "detected"),
           "clean_variants": sum(1 for r in res if r["kind"] == "clean"), "silent": sum(1 for r in res if r["status"] == "silent"),
           "skipped": [r["name"] for r in res if r["status"] == "skipped"],
           "failed": [r for r in res if r["status"] in ("missed", "false-alarm", "analysis-error", "broken-entry")],
           "entries": [{k: r[k] for k in ("name", "kind", "status") if k in r} | ({"rules": r["rules"]} if r.get("rules") else {}) for r in res]}
    return out
