"""Self-test table for C13 (RawSocket handshake tables, exception ladders)."""
T, A = "twisted/rawsocket.py", "asyncio/rawsocket.py"
MUTANTS = [
    dict(name="twisted server: limit exponent off by one", file=T, expect="C13.1", old="2 ** (9 + (ord(self._handshake_bytes[1:2]) >> 4))", new="2 ** (8 + (ord(self._handshake_bytes[1:2]) >> 4))"),
    dict(name="asyncio: serializer nibble masked with 0x07", file=A, expect="C13.1", old="ser = buf[1] & 0x0F", new="ser = buf[1] & 0x07"),
    dict(name="twisted client: magic compared with <", file=T, expect="C13.1", old="if ord(self._handshake_bytes[0:1]) != 0x7F:", new="if ord(self._handshake_bytes[0:1]) < 0x7F:"),
    dict(name="asyncio: PONG raises again", file=A, expect="C13.3",
         old="        # RawSocket PONG frame: we never send PINGs, so there is nothing to match\n        pass", new="        raise NotImplementedError()"),
    dict(name="websocket: malformed URI answered with 1011", file="wamp/websocket.py", expect="C13.3", old="except (ProtocolError, InvalidUriError)", new="except ProtocolError"),
    dict(name="asyncio abort() needs a session", file=A, expect="C13.3", old="if self.transport is not None:", new="if self._session is not None and self.transport is not None:"),
]
CLEAN = []
