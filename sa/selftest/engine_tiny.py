"""Differential self-test of the cell-wise evaluator (sa.core.tiny) against CPython.

The cell rules trust Tiny to give Python's answer for the constructs it models.  Each snippet below is a small function over plain values
(no repository code); it is evaluated by Tiny and executed by CPython on the same arguments, and the two outcomes (returned value or the
exception class) must agree.  A disagreement means the ANALYSER is wrong: the thorough tier turns it into exit 2, never into a verdict
about the repository.  (Empty str/bytes are modelled as the empty buffer: compared after mapping back.)"""
import ast

from ..core.tiny import Tiny, Sym, Buf, _to_py, TinyRaise  # noqa: F401
from ..core.index import AnalysisError

SNIPPETS = [
    # value semantics of and/or, chained and lazy comparisons
    ("def f(a, b):\n    return a or b", [(0, 5), (3, 5), ("", "x"), (None, None), ([], [1])]),
    ("def f(a, b):\n    return a and b", [(0, 5), (3, 5), ("", "x"), ([1], [])]),
    ("def f(a, b, c):\n    return a < b <= c", [(1, 2, 2), (1, 2, 1), (3, 2, 5)]),
    ("def f(a, b):\n    return 0 < a < b", [(1, 2), (0, 2), (3, 2)]),
    ("def f(a):\n    return not a", [(0,), (1,), ("",), ([0],)]),
    ("def f(a, b):\n    return a if a > b else b", [(1, 2), (5, 2)]),
    ("def f(a):\n    return a is None or a == 3", [(None,), (3,), (4,)]),
    # arithmetic
    ("def f(a, b):\n    return (a << 4) | (b & 15)", [(1, 18), (15, 255)]),
    ("def f(a, b):\n    return a // b, a % b, a ** 2", [(17, 5), (4, 2)]),
    ("def f(a, b):\n    return a / b", [(7, 2), (1, 0)]),
    ("def f(a):\n    return -a + 2 * a - 1", [(3,), (0,)]),
    ("def f(a, b):\n    return min(a, b), max(a, b, 3)", [(1, 2), (9, 2)]),
    # lists, dicts, sets
    ("def f(x):\n    l = []\n    l.append(x)\n    l.extend([1, 2])\n    l.insert(0, 9)\n    return l, len(l), l[-1], l[1:3]", [(5,)]),
    ("def f(x):\n    d = {}\n    d['a'] = x\n    d.setdefault('b', []).append(1)\n    v = d.pop('a')\n    return v, d, 'a' in d, d.get('z'), d.get('z', 7)", [(5,)]),
    ("def f(x):\n    d = {'k': 1}\n    del d['k']\n    return d['k']", [(0,)]),
    ("def f(x):\n    l = [1, 2, 3]\n    l.remove(x)\n    return l", [(2,), (9,)]),
    ("def f(x):\n    l = [1, 2]\n    return l[x]", [(0,), (5,), (-1,)]),
    ("def f(a, b):\n    s = set()\n    s.add(a)\n    s.add(b)\n    return len(s), a in s, sorted(s)", [(1, 1), (1, 2)]),
    ("def f(a):\n    return dict(a or ())", [(None,), ({"k": 1},)]),
    ("def f(a):\n    return list(a), tuple(a) == tuple(a), len(a)", [([1, 2],), ((3,),)]),
    ("def f(a, b):\n    x, y = a, b\n    x, y = y, x\n    return x, y", [(1, 2)]),
    ("def f(a):\n    x = y = a\n    return x, y", [(4,)]),
    ("def f(a):\n    (x,) = a\n    return x", [([7],), ([1, 2],)]),
    ("def f(a):\n    d = {}\n    d[a] = 1\n    return d", [(1,), ([1],)]),
    # round 8: starred displays, lazy next() over a generator expression, bound dict.get, map()
    ("def f(a, b):\n    return (*a, b, 1)", [([1, 2], 3), ([], 0), (5, 1)]),
    ("def f(a):\n    return [*a, *a]", [([1],), ((2, 3),)]),
    ("def f(a, k):\n    return next(x for x in a if x > k)", [([1, 5, 9], 3), ([1, 2], 7), ([], 0)]),
    ("def f(d):\n    g = d.get\n    return g('a'), g('z'), g('z', 4)", [({"a": 1},)]),
    ("def f(d):\n    return tuple(map(d.get, ('a', 'b', 'c')))", [({"a": 1, "c": 3},), ({},)]),
    ("def f(a, b):\n    q, r = divmod(a, b)\n    return q, r", [(35, 16), (255, 16), (3, 0)]),
    # loops
    ("def f(n):\n    out = []\n    for i in range(n):\n        if i == 2:\n            continue\n        if i == 4:\n            break\n        out.append(i)\n    else:\n        out.append('done')\n    return out", [(3,), (6,), (0,)]),
    ("def f(n):\n    i = 0\n    while True:\n        i += 1\n        if i >= n:\n            break\n    return i", [(1,), (3,)]),
    ("def f(a, b):\n    def pick(x, dflt=7):\n        return x if x is not None else dflt + b\n    return pick(a), pick(None), pick(None, 1)", [(1, 2), (None, 3)]),
    ("def f(a):\n    n = 0\n    def bump(k):\n        nonlocal n\n        n += k\n        return n\n    bump(a)\n    bump(2)\n    return n", [(1,), (5,)]),
    ("def f(a):\n    def g(x):\n        return x + 1\n    return g(a, 2)", [(1,)]),
    ("def f(a):\n    return a in {1, 'x'}, a not in {2}", [(1,), ('x',), (2,), ([],), ({},)]),
    ("def f(a, b):\n    if (n := len(a)) > b:\n        return n\n    return -n", [([1, 2], 1), ([1], 5)]),
    ("def f(xs, t):\n    i = 0\n    while i < len(xs):\n        if xs[i] == t:\n            break\n        i += 1\n    else:\n        return ('all', i)\n    return ('hit', i)", [([], 1), ([1, 2], 2), ([1, 2], 3), ([3], 3)]),
    ("def f(l):\n    return [x * 2 for x in l if x], {x: x for x in l}, any(x > 2 for x in l), all(x for x in l)", [([0, 1, 3],), ([],)]),
    ("def f(a, b):\n    return [x + y for x in a for y in b]", [([1, 2], [10, 20]), ([], [1])]),
    ("def f(l):\n    return [(i, x) for i, x in enumerate(l)], list(zip(l, l))", [([5, 6],)]),
    ("def f(l):\n    out = []\n    for i, x in enumerate(l, 1):\n        out.append(i * x)\n    return out", [([5, 6],)]),
    ("def f(l):\n    for x in l:\n        if x > 1:\n            return x\n    return None", [([0, 1, 2, 3],), ([],)]),
    # try / except / finally
    ("def f(d, k):\n    try:\n        return d[k]\n    except KeyError:\n        return 'missing'\n    finally:\n        pass", [({"a": 1}, "a"), ({"a": 1}, "b")]),
    ("def f(s):\n    try:\n        v = int(s)\n    except ValueError:\n        return -1\n    else:\n        return v + 1", [("12",), ("x",), ("+7",)]),
    ("def f(l):\n    try:\n        return l[3]\n    except (KeyError, IndexError):\n        return 'none'", [([1],), ([1, 2, 3, 4],)]),
    ("def f(a):\n    try:\n        return 1 / a\n    except Exception:\n        return 'err'", [(0,), (2,)]),
    ("def f(a):\n    raise ValueError('x')", [(1,)]),
    # strings and bytes (model_strings)
    ("def f(s):\n    return s.split(','), s.strip().lower(), s.find('b'), s.startswith('a'), s[1:], s[-1:], len(s)", [("a, B,c",), ("",), ("abc ",)]),
    ("def f(s):\n    return [x.strip() for x in s.split(',')], ','.join(['x', s]), s.rsplit(':', 1)", [("h:1, k:2",), ("plain",)]),
    ("def f(a, b):\n    return f'{a}:{b}', '{}-{}'.format(a, b), '%s' % a if False else a + b", [("x", "y"), ("", "y")]),
    ("def f(s):\n    return s == '', s != '', bool(s), s or 'dflt', 'a' in s", [("",), ("ab",)]),
    ("def f(b):\n    return b[:2], b[2:], b.find(b'\\r\\n'), len(b), b + b'!', b.decode('ascii')", [(b"ab\r\ncd",), (b"",)]),
    ("def f(s):\n    out = []\n    for c in s:\n        out.append(c)\n    return out", [("abc",), ("",)]),
    ("def f(n):\n    return n.to_bytes(2, 'big'), n.bit_length(), str(n), int(str(n))", [(258,), (0,)]),
    ("def f(s, n):\n    return s[n], s[:n], s[n:]", [("hello", 1), ("hello", 9)]),
    ("def f(s):\n    k, v = s.split('=')\n    return k, v", [("a=b",), ("a=b=c",), ("ab",)]),
    ("def f(s):\n    return s.endswith('\\r'), s[:-1] if s.endswith('\\r') else s", [("line\r",), ("line",)]),
    # getattr on a known name, nested calls, star args
    ("def f(a):\n    return sorted(a), sorted(a)[::-1], a[::2]", [([3, 1, 2],)]),
    ("def f(a):\n    l = list(a)\n    l.reverse()\n    l.sort()\n    return l", [([3, 1, 2],)]),
    ("def f(a, b):\n    return a == b, a != b, a is b, [a] == [b]", [(1, 1), (1, 2), (None, None)]),
    ("def f(a):\n    return type(a) == int, type(a) in [list, str], isinstance(a, (int, str))", [(1,), ("s",), ([1],), (True,)]),
    # second batch: element updates, membership, dict iteration, more string methods
    ("def f(d, k):\n    d[k] = d.get(k, 0) + 1\n    d[k] += 2\n    return d", [({"a": 1}, "a"), ({}, "b")]),
    ("def f(l):\n    l[0] += 5\n    a = l.pop()\n    b = l.pop(0)\n    return a, b, l", [([1, 2, 3],), ([1],)]),
    ("def f(d):\n    out = []\n    for k, v in d.items():\n        out.append((k, v))\n    return out, list(d.keys()), list(d.values()), len(d)", [({"a": 1, "b": 2},), ({},)]),
    ("def f(a, b):\n    return a in b, a not in b", [(1, [1, 2]), ("k", {"k": 0}), ("z", "xyz"), ("", "xyz")]),
    ("def f(a, b):\n    return a is not None, a is not b, a != b", [(None, None), (1, None)]),
    ("def f(s):\n    return s.replace('a', 'b'), s.partition(':'), s.count('a'), s.upper(), s.title()", [("a:ba",), ("",)]),
    ("def f(s):\n    return s.isdigit(), s.strip(' x'), s.lstrip(), s.rstrip('\\r\\n')", [("12",), (" x1 x",), ("",)]),
    ("def f(a, b):\n    return a < b, a == b, a + b > a", [("a", "b"), ("b", "a"), ("a", "a")]),
    ("def f(l):\n    total = 0\n    for x in l:\n        total += x\n    return total, sum([]) if False else total * 2", [([1, 2, 3],), ([],)]),
    ("def f(n):\n    out = []\n    for i in range(0, n, 3):\n        out.append((i, min(i + 3, n)))\n    return out", [(0,), (7,), (9,)]),
    ("def f(a):\n    if a:\n        r = 'T'\n    elif a is None:\n        r = 'N'\n    else:\n        r = 'F'\n    return r", [(1,), (None,), (0,), ("",)]),
    ("def f(x):\n    t = (x, x + 1)\n    a, b = t\n    return b - a, t[0], len(t)", [(4,)]),
    ("def f(l):\n    return l[1:], l[:-1], l[::-1], l[5:], l[-2:]", [([1, 2, 3],), ([],)]),
    ("def f(d):\n    return sorted(d), [k for k in d], 'a' in d and d['a']", [({"b": 1, "a": 2},)]),
    ("def f(a, b):\n    d = {'x': a}\n    d.update({'y': b})\n    e = dict(d)\n    e['x'] = 0\n    return d, e", [(1, 2)]),
    ("def f(x):\n    try:\n        try:\n            return [][x]\n        except KeyError:\n            return 'inner'\n    except IndexError:\n        return 'outer'", [(0,)]),
    ("def f(x):\n    try:\n        raise ValueError('v')\n    except ValueError as e:\n        return 'caught'", [(0,)]),
    ("def f(s):\n    return int(s.strip()), str(int(s)) == s", [("13",), (" 13 ",), ("1_3",), ("013",)]),
    ("def f(b):\n    return b[0:1] == b'\\x7f', len(b[4:]), b[1:2] + b[0:1]", [(b"\x7f\xf1\x00\x00",), (b"",)]),
]


def _run_py(src, args):
    ns = {}
    exec(compile(src, "<snippet>", "exec"), ns)  # noqa: S102 -- the snippet table above, nothing of the analysed repository
    import copy
    try:
        return ("return", ns["f"](*copy.deepcopy(args)))
    except Exception as ex:  # noqa: BLE001
        return ("raise", type(ex).__name__)


def _norm(v):
    v = _to_py(v)
    if isinstance(v, Buf):
        return ""
    if isinstance(v, (list, tuple)):
        return [_norm(x) for x in v]
    if isinstance(v, dict):
        return {(_norm(k) if not isinstance(k, (list, dict)) else repr(k)): _norm(x) for k, x in v.items()}
    if isinstance(v, set):
        return sorted((_norm(x) for x in v), key=repr)
    if isinstance(v, bytes) and v == b"":
        return ""
    return v


def _run_tiny(src, args):
    fn = ast.parse(src).body[0]
    names = [a.arg for a in fn.args.args]
    import copy
    env = {n: copy.deepcopy(a) for n, a in zip(names, args)}
    from ..core.tiny import _from_py
    env = {k: _from_py(v) if isinstance(v, (str, bytes)) else v for k, v in env.items()}
    r = Tiny(env, model_strings=True, model_types=True, local_defs=True).run(fn.body)
    if r[0] == "raise":
        return ("raise", str(r[1]).split("(")[0].strip())
    if r[0] == "fall":
        return ("return", None)
    return ("return", r[1])


def run():
    """-> (number of cases, list of disagreements)"""
    bad, n = [], 0
    for src, argsets in SNIPPETS:
        for args in argsets:
            n += 1
            want = _run_py(src, args)
            try:
                got = _run_tiny(src, args)
            except AnalysisError as e:
                got = ("analysis-error", str(e))
            except Exception as e:  # noqa: BLE001  -- a crash of the evaluator is a disagreement too
                got = ("crash", f"{type(e).__name__}: {e}")
            ok = got[0] == want[0] and (_norm(got[1]) == _norm(want[1]) if want[0] == "return" else got[1] == want[1])
            if not ok:
                bad.append(f"{src.splitlines()[1].strip()[:60]!r} on {args!r}: evaluator {got}, CPython {want}")
    return n, bad
