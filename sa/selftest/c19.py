"""Self-test table for C19 (signature formulas, SCRAM gate)."""
A = "wamp/auth.py"
MUTANTS = [
    dict(name="server key derived with the client label", file=A, expect="C19.1", old='self._salted_password, b"Server Key", hashlib.sha256', new='self._salted_password, b"Client Key", hashlib.sha256'),
    dict(name="only half of the server signature compared", file=A, expect="C19.1", old="if not hmac.compare_digest(server_signature, alleged_server_sig):", new="if not hmac.compare_digest(server_signature[:16], alleged_server_sig[:16]):"),
    dict(name="missing server signature accepted", file=A, expect="C19.1",
         old='        alleged_server_sig = base64.b64decode(authextra["scram_server_signature"])',
         new='        if "scram_server_signature" not in authextra:\n            return None\n        alleged_server_sig = base64.b64decode(authextra["scram_server_signature"])'),
    dict(name="proof XORs the stored key", file=A, expect="C19.1", old="client_proof = xor_array(client_key, client_signature)", new="client_proof = xor_array(stored_key, client_signature)"),
    dict(name="auth message ends with the client nonce", file=A, expect="C19.1", old='client_final_no_proof=f"c={channel_binding},r={server_nonce}"', new='client_final_no_proof=f"c={channel_binding},r={client_nonce}"'),
    dict(name="pbkdf2 salt not decoded", file=A, expect="C19.1", old="password, base64.b64decode(salt), iterations", new="password, salt, iterations"),
    dict(name="CRA with SHA-1", file=A, expect="C19.2", old="sig = hmac.new(key, challenge, hashlib.sha256).digest()", new="sig = hmac.new(key, challenge, hashlib.sha1).digest()"),
    dict(name="derive_key swaps iterations/keylen", file=A, expect="C19.2", old="key = pbkdf2(secret, salt, iterations, keylen)", new="key = pbkdf2(secret, salt, keylen, iterations)"),
    dict(name="CRA ignores the salt", file=A, expect="C19.2", old='if "salt" in challenge.extra:\n            key = derive_key', new='if "salt" in challenge.extra and False:\n            key = derive_key'),
    dict(name="TOTP period 60 s", file=A, expect="C19.3", old="int(time.time()) // 30", new="int(time.time()) // 60"),
    dict(name="TOTP truncation offset mask", file=A, expect="C19.3", old="o = 15 & (digest[19])", new="o = 7 & (digest[19])"),
    dict(name="TOTP window widened", file=A, expect="C19.3", old="for offset in [0, 1, -1]:", new="for offset in [0, 1, -1, 2]:"),
    dict(name="channel binding not mixed in", file="wamp/cryptosign.py", expect="C19.4", old="data = util.xor(challenge_raw, channel_id_raw)", new="data = challenge_raw"),
    dict(name="join although on_welcome rejected", file="wamp/protocol.py", expect="C19.5",
         old='                    if res is not None:\n                        self.log.debug("Session denied', new='                    if res is not None and False:\n                        self.log.debug("Session denied'),
]
CLEAN = [
    dict(name="hashlib.sha256() spelling", file=A, old='stored_key = hashlib.new("sha256", client_key).digest()', new="stored_key = hashlib.sha256(client_key).digest()"),
    dict(name="hmac.digest() spelling", file=A, old="sig = hmac.new(key, challenge, hashlib.sha256).digest()", new='sig = hmac.digest(key, challenge, "sha256")'),
    dict(name="renamed locals, keyword arguments, swapped XOR operands", file=A,
         old="        client_signature = hmac.new(\n            stored_key, self._auth_message, hashlib.sha256\n        ).digest()\n        client_proof = xor_array(client_key, client_signature)",
         new='        sig2 = hmac.new(stored_key, msg=self._auth_message, digestmod="sha256").digest()\n        client_proof = xor_array(sig2, client_key)'),
    dict(name="string concatenation instead of f-string", file=A, old='                client_first_bare=f"n={authid},r={client_nonce}",', new='                client_first_bare="n=" + authid + ",r=" + client_nonce,'),
    dict(name="base64.b64encode spelling", file=A, old="return binascii.b2a_base64(sig).strip()", new="return base64.b64encode(sig)"),
]
