"""C07 - cell-wise decision of the opening handshake validators.

The two `processHandshake` methods are evaluated abstractly (sa.core.tiny, nothing of the analysed program runs) on a small model of
handshake requests / responses: one well-formed base message and its single-point deviations, one per RFC 6455 section 4 obligation
(plus the configuration-dependent ones: origin policy, external port, connection limit). Parsing of the octets into status line and
headers (`parseHttpHeader`) and the origin helpers are answered by the cell's oracle; what is decided is the *decision* the method takes
on the parsed message: acceptance (the onConnect hand-over / state OPEN) exactly for the messages the RFC admits, failHandshake for the
others. How the method spells its tests (flag loops, any()/all(), extracted helpers, renamed locals, merged branches) is irrelevant."""
import ast
import urllib.parse

from ..core.index import AnalysisError
from ..core import norm
from ..core.tiny import Tiny, Sym, TinyRaise, Buf, _from_py, _to_py
from .common import WSS, WSC, WSP, inline_private

KEY = "dGhlIHNhbXBsZSBub25jZQ=="
SINKS = ("failHandshake", "onConnect", "sendServerStatus", "sendRedirect", "dropConnection", "_parseExtensionsHeader", "succeedHandshake", "sendData",
         "sendHtml", "_onConnect", "_onOpen", "onOpen", "_actuallyStartHandshake", "startHandshake", "_connectionMade", "consumeData", "_fail_connection",
         "sendHttpErrorResponse", "_cancelOpenHandshakeTimeout")


def _server_cells():
    """(name, request-line, headers{lowercase: value}, counts overrides, config overrides, origin oracle, expected) ..."""
    base_h = {"host": "example.com:9000", "upgrade": "websocket", "connection": "Upgrade", "sec-websocket-version": "13", "sec-websocket-key": KEY}
    cells = []

    def cell(name, expect, line="GET /chat?x=1 HTTP/1.1", drop=(), cnt=None, cfg=None, orc=None, **hdr):
        h = dict(base_h)
        for k, v in hdr.items():
            h[k.replace("_", "-")] = v
        for k in drop:
            h.pop(k, None)
        c = {k: 1 for k in h}
        c.update(cnt or {})
        cells.append((name, line, h, c, cfg or {}, orc or {}, expect))
    A, F = "accept", "fail"
    cell("well-formed request", A)
    cell("request line with 2 parts", F, line="GET /chat")
    cell("request line with 4 parts", F, line="GET /chat HTTP/1.1 x")
    cell("method POST", F, line="POST /chat HTTP/1.1")
    cell("method get (lower case)", F, line="get /chat HTTP/1.1")
    cell("HTTP/1.0", F, line="GET /chat HTTP/1.0")
    cell("HTTX/1.1", F, line="GET /chat HTTX/1.1")
    cell("version without slash", F, line="GET /chat HTTP1.1")
    cell("fragment in the request target", F, line="GET /chat#frag HTTP/1.1")
    cell("Host header missing", F, drop=("host",))
    cell("Host header twice", F, cnt={"host": 2})
    cell("Host without port", A, host="example.com")
    cell("Host with a non-numeric port", F, host="example.com:http")
    # a Host value with more than one colon (IPv6 literal, garbage): admitted or refused with an HTTP error, but no exception may escape
    cell("Host with an IPv6 literal and a port", "decided", host="[::1]:9000")
    cell("Host with an IPv6 literal without port", "decided", host="[2001:db8::1]")
    cell("Host with several colons", "decided", host="a:b:c")
    cell("Host port differs from the configured external port", F, cfg={"externalPort": 8080})
    cell("Host port equals the configured external port", A, cfg={"externalPort": 9000})
    cell("Upgrade header missing (no status page)", F, drop=("upgrade",))
    cell("Upgrade header missing (status page enabled)", "status", drop=("upgrade",), cfg={"webStatus": True})
    cell("Upgrade: foo", F, upgrade="foo")
    cell("Upgrade: websocketx", F, upgrade="websocketx")
    cell("Upgrade: foo, WebSocket", A, upgrade="foo, WebSocket")
    cell("Upgrade: WEBSOCKET ,bar", A, upgrade="WEBSOCKET ,bar")
    cell("Connection header missing", F, drop=("connection",))
    cell("Connection: keep-alive", F, connection="keep-alive")
    cell("Connection: keep-alive, Upgrade", A, connection="keep-alive, Upgrade")
    cell("Connection: upgrades", F, connection="upgrades")
    cell("Sec-WebSocket-Version missing", F, drop=("sec-websocket-version",))
    cell("Sec-WebSocket-Version twice", F, cnt={"sec-websocket-version": 2})
    cell("Sec-WebSocket-Version not a number", F, sec_websocket_version="abc")
    cell("Sec-WebSocket-Version 7 (not configured)", F, sec_websocket_version="7")
    cell("Sec-WebSocket-Version 8 (configured)", A, sec_websocket_version="8")
    cell("Sec-WebSocket-Version 13 but only 8 configured", F, cfg={"versions": [8]})
    cell("Sec-WebSocket-Key missing", F, drop=("sec-websocket-key",))
    cell("Sec-WebSocket-Key twice", F, cnt={"sec-websocket-key": 2})
    cell("Sec-WebSocket-Key of 23 characters", F, sec_websocket_key=KEY[1:])
    cell("Sec-WebSocket-Key of 25 characters", F, sec_websocket_key="A" + KEY)
    cell("Sec-WebSocket-Key not ending in ==", F, sec_websocket_key=KEY[:-2] + "Q=")
    cell("Sec-WebSocket-Key with a character outside base64 (first)", F, sec_websocket_key="*" + KEY[1:])
    cell("Sec-WebSocket-Key with a character outside base64 (last before padding)", F, sec_websocket_key=KEY[:-3] + "-==")
    cell("Sec-WebSocket-Key with surrounding blanks", A, sec_websocket_key=" " + KEY + " ")
    cell("subprotocols a, b", A, sec_websocket_protocol="a, b")
    cell("subprotocols a, b, a", F, sec_websocket_protocol="a, b, a")
    cell("subprotocols a,a", F, sec_websocket_protocol="a,a")
    cell("Sec-WebSocket-Extensions once", A, sec_websocket_extensions="permessage-deflate")
    cell("Sec-WebSocket-Extensions twice", F, sec_websocket_extensions="permessage-deflate", cnt={"sec-websocket-extensions": 2})
    cell("connection limit exceeded", F, cfg={"maxConnections": 2, "countConnections": 3})
    cell("connection limit reached exactly", A, cfg={"maxConnections": 3, "countConnections": 3})
    cell("connection limit not configured", A, cfg={"maxConnections": 0, "countConnections": 3})
    # origin policy: header name depends on the protocol version (Origin from 13 on, Sec-WebSocket-Origin before)
    for ver, okname, othername in (("13", "origin", "sec-websocket-origin"), ("8", "sec-websocket-origin", "origin")):
        v = {"sec_websocket_version": ver}
        cell(f"v{ver}: origin allowed", A, orc={"same": True}, **{okname.replace("-", "_"): "http://good.example"}, **v)
        cell(f"v{ver}: origin not allowed", F, orc={"same": False}, **{okname.replace("-", "_"): "http://evil.example"}, **v)
        cell(f"v{ver}: origin header twice", F, orc={"same": True}, cnt={okname: 2}, **{okname.replace("-", "_"): "http://good.example"}, **v)
        cell(f"v{ver}: origin unparseable", F, orc={"raise": True}, **{okname.replace("-", "_"): "http://["}, **v)
        cell(f"v{ver}: null origin, allowed by policy", A, orc={"null": True, "same": False}, cfg={"allowNullOrigin": True}, **{okname.replace("-", "_"): "null"}, **v)
        cell(f"v{ver}: null origin, not allowed by policy", F, orc={"null": True, "same": False}, cfg={"allowNullOrigin": False}, **{okname.replace("-", "_"): "null"}, **v)
        cell(f"v{ver}: the other version's origin header is not the origin", A, orc={"same": False}, **{othername.replace("-", "_"): "http://evil.example"}, **v)
    return cells


def _selfattr(t, name):
    k = f"self.{name}"
    if k in t.env:
        return t.env[k]
    me = t.env.get("self")
    return me.attrs.get(name) if isinstance(me, Sym) else None


def _method_env(ctx, cls, fn, env):
    """bound methods / class constants the body mentions are opaque objects; everything else the rule must bind explicitly"""
    for x in ast.walk(fn.node):
        if isinstance(x, ast.Attribute) and isinstance(x.value, ast.Name) and x.value.id == "self" and isinstance(x.ctx, ast.Load):
            k = f"self.{x.attr}"
            if k in env:
                continue
            if ctx.program.lookup_method(cls, x.attr) is not None:
                env[k] = Sym(f"method {x.attr}")
            else:
                try:
                    c = ctx.program.class_const(cls, x.attr)
                except KeyError:
                    c = None
                if c is not None and isinstance(c, (int, str)):
                    env[k] = c
                elif isinstance(c, (tuple, list)) and all(isinstance(y, (int, str)) for y in c):
                    env[k] = list(c)   # a class-level table of plain values
    return env


def rule_server_cells(ctx, rule_id="C07.1-server-obligations"):
    ctx.rule(rule_id)
    cls = ctx.program.cls(WSS)
    fn = ctx.program.func(f"{WSS}.processHandshake")
    ctx.analysed(fn)
    body = [s for s in fn.node.body if not (isinstance(s, ast.Expr) and isinstance(s.value, ast.Constant))]
    inl = inline_private(ctx, cls, exclude=SINKS)
    bad = []
    n = 0
    for name, line, hdr, cnt, cfg, origin, expect in _server_cells():
        ev = []
        patterns = Sym("allowed-origin-patterns")
        otuple = "null" if origin.get("null") else Sym("origin-tuple")
        factory = Sym("factory", externalPort=cfg.get("externalPort"), port=9000, isSecure=False, allowNullOrigin=cfg.get("allowNullOrigin", True),
                      countConnections=cfg.get("countConnections", 1))
        env = {
            "self": Sym("protocol"), "self.data": b"GET /chat HTTP/1.1\r\nHost: example.com\r\n\r\nrest", "self.factory": factory,
            "self.trustXForwardedFor": 0, "self.webStatus": cfg.get("webStatus", False), "self.versions": list(cfg.get("versions", [8, 13])),
            "self.maxConnections": cfg.get("maxConnections", 0), "self.allowedOriginsPatterns": patterns, "self.peer": "tcp4:127.0.0.1:1",
            "self.serveFlashSocketPolicy": False, "self.log": Sym("log"), "self.allowedOrigins": ["*"], "self.allowNullOrigin": cfg.get("allowNullOrigin", True),
            "self.externalPort": cfg.get("externalPort"),
        }
        _method_env(ctx, cls, fn, env)

        def oracle(fname, args, kwargs=None, _ev=ev, _line=line, _hdr=hdr, _cnt=cnt, _origin=origin, _otuple=otuple, _patterns=patterns):
            short = fname.split(".")[-1]
            if short == "parseHttpHeader":
                return [_line, _from_py(dict(_hdr)), dict(_cnt)]
            if fname in ("parse.urlparse", "urlparse", "urllib.parse.urlparse", "parse.urlsplit", "urlsplit"):
                r = getattr(urllib.parse, short)(_to_py(args[0]))
                return _from_py(list(r))
            if short == "parse_qs":
                return {k: list(v) for k, v in urllib.parse.parse_qs(_to_py(args[0])).items()}
            if short == "_url_to_origin":
                if _origin.get("raise"):
                    raise TinyRaise("ValueError")
                _ev.append(("origin-parsed", args))
                return _otuple
            if short == "_is_same_origin":
                _ev.append(("same-origin", args))
                return bool(_origin.get("same")) and len(args) >= 4 and args[0] is _otuple and args[3] is _patterns
            if fname == "self.failHandshake":
                _ev.append(("fail", args))
                return None
            if short == "as_future" and args and isinstance(args[0], Sym) and args[0].name == "method onConnect":
                _ev.append(("accept", args[1:]))
                return Sym("future")
            if fname == "self.onConnect":
                _ev.append(("accept", args))
                return None
            if fname in ("self.sendServerStatus", "self.sendRedirect"):
                _ev.append(("status", args))
                return None
            if short == "ConnectionRequest":
                names = ("peer", "headers", "host", "path", "params", "version", "origin", "protocols", "extensions")
                at = dict(zip(names, args))
                at.update(kwargs or {})
                return Sym("connection-request", **at)
            if fname == "self._parseExtensionsHeader":
                return [["permessage-deflate", {}]]
            return Sym(f"<{fname}>")
        try:
            t = Tiny(env, default_call=oracle, model_strings=True, model_types=True, inline_self=inl, opaque_globals=True)
            r = t.run(body)
        except AnalysisError as e:
            raise AnalysisError(f"[{rule_id}] server processHandshake outside the modelled subset (cell '{name}'): {e}")
        n += 1
        kinds = [k for k, _ in ev if k in ("fail", "accept", "status")]
        if r[0] == "raise":
            got = f"raises {r[1]}"
        elif "accept" in kinds and "fail" not in kinds:
            got = "accept"
        elif "fail" in kinds and "accept" not in kinds:
            got = "fail"
        elif "status" in kinds and "accept" not in kinds:
            got = "status"
        elif not kinds:
            got = "neither accepts nor fails"
        else:
            got = "both fails and accepts"
        if expect == "decided":
            if got not in ("accept", "fail"):
                bad.append(f"{name}: {got}, expected the request to be admitted or refused with an HTTP error")
            continue
        if got != expect:
            bad.append(f"{name}: {got}, expected {expect}")
            continue
        if expect == "accept":
            req = [a for k, a in ev if k == "accept"][0]
            req = req[0] if req and isinstance(req[0], Sym) else None
            if req is not None and req.name == "connection-request":
                want_p = [x.strip() for x in hdr.get("sec-websocket-protocol", "").split(",")] if "sec-websocket-protocol" in hdr else []
                if _to_py(req.attrs.get("protocols")) != want_p:
                    bad.append(f"{name}: onConnect sees protocols {req.attrs.get('protocols')}, the client sent {want_p}")
                if req.attrs.get("version") != int(hdr["sec-websocket-version"]):
                    bad.append(f"{name}: onConnect sees version {req.attrs.get('version')}")
            if _selfattr(t, "_wskey") != hdr["sec-websocket-key"].strip():
                bad.append(f"{name}: the key remembered for the accept digest is {_selfattr(t, '_wskey')!r}, the client sent {hdr['sec-websocket-key'].strip()!r}")
            if _to_py(_selfattr(t, "data")) != b"rest":
                bad.append(f"{name}: octets after the request are {_selfattr(t, 'data')!r}, expected the rest of the buffer")
    ctx.ob(f"server: the parsed request is accepted (handed to onConnect) exactly when RFC 6455 4.2.1 and the configured policy admit it [{n} cells]",
           not bad, "; ".join(bad[:3]), fn.loc())
    ctx.require(n >= 50, f"only {n} server handshake cells evaluated")


# ----------------------------------------------------------------------------------------------------------------- client
GUID = b"258EAFA5-E914-47DA-95CA-C5AB0DC85B11"  # RFC 6455 section 1.3
NONCE = bytes(range(1, 17))


def _client_env(ctx, cls, fns, cfg):
    import hashlib  # noqa: F401  (the oracle computes the reference digest itself; nothing of autobahn runs)
    factory = Sym("factory", isServer=False, isSecure=cfg.get("isSecure", False), protocols=["zzz"], host="factory.example", port=1, resource="/factory",
                  headers={}, useragent=None, origin=None, _batched_timer=Sym("timer"))
    env = {"self": Sym("protocol"), "self.factory": factory, "self.version": 18, "self.log": Sym("log"), "self.perMessageCompressionOffers": [],
           "self.peer": "tcp4:127.0.0.1:2", "self.openHandshakeTimeoutCall": None, "self.autoPingInterval": 0, "self.trackedTimings": None,
           "self._perMessageCompress": None, "self.websocket_key": None, "self.state": ctx.program.class_const(ctx.program.cls(WSP), "STATE_CONNECTING"),
           "self.websocket_protocols": None, "self.is_open": Sym("is_open"), "self._onConnect": Sym("method _onConnect"),
           "self._onOpen": Sym("method _onOpen")}
    wsp = ctx.program.cls(WSP)
    for nm in ("STATE_OPEN", "STATE_CONNECTING", "STATE_CLOSED", "STATE_CLOSING", "STATE_PROXY_CONNECTING", "_WS_MAGIC", "SPEC_TO_PROTOCOL_VERSION"):
        try:
            env[f"WebSocketProtocol.{nm}"] = ctx.program.class_const(wsp, nm)
        except KeyError:
            pass
    for fn in fns:
        _method_env(ctx, cls, fn, env)
    return env


def _client_oracle(ev, resp=None, ext=None):
    import hashlib
    import base64

    def oracle(fname, args, kwargs=None):
        short = fname.split(".")[-1]
        if short == "parseHttpHeader" and resp is not None:
            return [resp[0], _from_py(dict(resp[1])), dict(resp[2])]
        if short == "urandom":
            return NONCE[:args[0]] if args and isinstance(args[0], int) else NONCE
        if short in ("b64encode", "b64decode") and args and isinstance(_to_py(args[0]), bytes):
            return _from_py(getattr(base64, short)(_to_py(args[0])))
        if short in ("sha1",):
            h = hashlib.sha1()
            if args:
                a0 = _to_py(args[0])
                if not isinstance(a0, bytes):
                    raise TinyRaise("TypeError")
                h.update(a0)

            def upd(x):
                x = _to_py(x)
                if not isinstance(x, bytes):
                    raise TinyRaise("TypeError")
                h.update(x)
            return Sym("sha1", methods={"update": upd, "digest": lambda: h.digest(), "hexdigest": lambda: h.hexdigest()})
        if fname == "self.failHandshake":
            ev.append(("fail", args))
            return None
        if fname == "self.sendData":
            ev.append(("sent", args))
            return None
        if fname == "self._parseExtensionsHeader":
            return [list(x) for x in (ext or {}).get("parsed", [])]
        if fname == "self.perMessageCompressionAccept":
            return Sym("accept") if (ext or {}).get("accept", True) else None
        if short == "ConnectionResponse":
            names = ("peer", "headers", "version", "protocol", "extensions")
            return Sym("connection-response", **dict(zip(names, args)))
        if short == "as_future":
            ev.append(("onConnect", args))
            return Sym("future")
        return Sym(f"<{fname}>")
    return oracle


def _parse_request(octets):
    """reference reading of the octets the client wrote: (request line, [(name, value)]) or None when not CRLF-delimited text ending in an empty line"""
    try:
        text = octets.decode("utf8")
    except Exception:
        return None
    if not text.endswith("\r\n\r\n"):
        return None
    lines = text[:-4].split("\r\n")
    hs = []
    for ln in lines[1:]:
        if ":" not in ln:
            return None
        k, v = ln.split(":", 1)
        hs.append((k.strip().lower(), v.strip()))
    return lines[0], hs


def rule_client_cells(ctx, rule_id="C07.2-client-obligations"):
    import base64
    import hashlib
    ctx.rule(rule_id)
    cls = ctx.program.cls(WSC)
    ash = ctx.program.func(f"{WSC}._actuallyStartHandshake")
    ph = ctx.program.func(f"{WSC}.processHandshake")
    cm = ctx.program.func(f"{WSC}._connectionMade")
    ctx.analysed(ash)
    ctx.analysed(ph)
    inl = inline_private(ctx, cls, exclude=SINKS)
    strip = lambda fn: [s for s in fn.node.body if not (isinstance(s, ast.Expr) and isinstance(s.value, ast.Constant))]
    RO = ash.params()[1]
    key_b64 = base64.b64encode(NONCE)
    good_accept = base64.b64encode(hashlib.sha1(key_b64 + GUID).digest()).decode()
    # the key is "no key" before a request went out
    init_none = any(isinstance(s_, ast.Assign) and any(norm.text(t_) == "self.websocket_key" for t_ in s_.targets) and isinstance(s_.value, ast.Constant) and s_.value.value is None
                    for s_ in ast.walk(cm.node))
    ctx.ob("client: a new connection starts without a handshake key (None until the request is written)", init_none,
           "_connectionMade does not reset websocket_key: a response is judged against the key of nothing / of an earlier connection", cm.loc())

    def start(cfg, ro):
        """evaluate _actuallyStartHandshake; returns (tiny, events)"""
        ev = []
        env = _client_env(ctx, cls, (ash, ph), cfg)
        env[RO] = Sym("request-options", **ro)
        t = Tiny(env, default_call=_client_oracle(ev), model_strings=True, model_types=True, inline_self=inl, opaque_globals=True)
        r = t.run(strip(ash))
        return t, ev, r

    # ---- the request that is written
    bad = []
    n = 0
    for secure in (False, True):
        for port in (80, 443, 9000):
            for origin, ua, hdrs, protos in ((None, None, {}, []), ("http://o.example", "UA/1", {"X-Custom": "v"}, ["a", "b"])):
                ro = dict(host="example.com", port=port, resource="/chat?x=1", useragent=ua, headers=dict(hdrs), origin=origin, protocols=list(protos))
                try:
                    t, ev, r = start({"isSecure": secure}, ro)
                except AnalysisError as e:
                    raise AnalysisError(f"[{rule_id}] _actuallyStartHandshake outside the modelled subset: {e}")
                n += 1
                tag = f"{'wss' if secure else 'ws'}://example.com:{port}/chat?x=1{' with origin/subprotocols/headers' if protos else ''}"
                sent = [a for k, a in ev if k == "sent"]
                if r[0] == "raise" or len(sent) != 1 or not isinstance(_to_py(sent[0][0]), bytes):
                    bad.append(f"{tag}: {'raises ' + str(r[1]) if r[0] == 'raise' else 'writes %d requests' % len(sent)}")
                    continue
                pr = _parse_request(_to_py(sent[0][0]))
                if pr is None:
                    bad.append(f"{tag}: what is written is not a CRLF-delimited header block ending in an empty line")
                    continue
                line, hs = pr
                hd = {}
                for k, v in hs:
                    hd.setdefault(k, []).append(v)
                default_port = 443 if secure else 80
                host_ok = hd.get("host") in ([f"example.com:{port}"],) or (hd.get("host") == ["example.com"] and port == default_port)
                key_sent = hd.get("sec-websocket-key", [None])[0]
                probs = []
                if line != "GET /chat?x=1 HTTP/1.1":
                    probs.append(f"request line {line!r}")
                if not host_ok:
                    probs.append(f"Host {hd.get('host')} does not name example.com:{port}")
                if not any(x.strip().lower() == "websocket" for v in hd.get("upgrade", []) for x in v.split(",")) or len(hd.get("upgrade", [])) != 1:
                    probs.append(f"Upgrade {hd.get('upgrade')}")
                if not any(x.strip().lower() == "upgrade" for v in hd.get("connection", []) for x in v.split(",")) or len(hd.get("connection", [])) != 1:
                    probs.append(f"Connection {hd.get('connection')}")
                if hd.get("sec-websocket-version") != ["13"]:
                    probs.append(f"Sec-WebSocket-Version {hd.get('sec-websocket-version')}")
                if hd.get("sec-websocket-key") != [key_b64.decode()]:
                    probs.append(f"Sec-WebSocket-Key {hd.get('sec-websocket-key')} is not the base64 of the 16 random octets")
                if _to_py(_selfattr(t, "websocket_key")) not in (key_b64, key_b64.decode()) or key_sent is None:
                    probs.append(f"the key remembered ({_selfattr(t, 'websocket_key')!r}) is not the key sent ({key_sent!r})")
                if (hd.get("origin") or None) != ([origin] if origin else None):
                    probs.append(f"Origin {hd.get('origin')}, given {origin!r}")
                got_p = [x.strip() for v in hd.get("sec-websocket-protocol", []) for x in v.split(",")]
                if got_p != protos or len(hd.get("sec-websocket-protocol", [])) > 1:
                    probs.append(f"Sec-WebSocket-Protocol {hd.get('sec-websocket-protocol')}, given {protos}")
                for k, v in hdrs.items():
                    if hd.get(k.lower()) != [v]:
                        probs.append(f"user header {k} -> {hd.get(k.lower())}")
                if ua and hd.get("user-agent") != [ua]:
                    probs.append(f"User-Agent {hd.get('user-agent')}")
                if probs:
                    bad.append(f"{tag}: " + ", ".join(probs[:3]))
    ctx.ob(f"client: the request written names the URL's resource, host and port, asks for the websocket upgrade, carries a fresh 16-octet key, version 13 and "
           f"exactly the given origin / subprotocols / headers [{n} cells]", not bad, "; ".join(bad[:3]), ash.loc())

    # ---- the response that is judged
    base_h = {"upgrade": "websocket", "connection": "Upgrade", "sec-websocket-accept": good_accept}
    cells = []

    def cell(name, expect, line="HTTP/1.1 101 Switching Protocols", drop=(), cnt=None, ext=None, before_request=False, **hdr):
        h = dict(base_h)
        for k, v in hdr.items():
            h[k.replace("_", "-")] = v
        for k in drop:
            h.pop(k, None)
        c = {k: 1 for k in h}
        c.update(cnt or {})
        cells.append((name, line, h, c, ext, before_request, expect))
    A, F = "accept", "fail"
    wrong = base64.b64encode(hashlib.sha1(key_b64 + GUID[:-1] + b"2").digest()).decode()
    cell("well-formed response", A)
    cell("response before the request was written", F, before_request=True)
    cell("status line of one part", F, line="HTTP/1.1")
    cell("HTTP/1.0", F, line="HTTP/1.0 101 Switching Protocols")
    cell("status 200", F, line="HTTP/1.1 200 OK")
    cell("status 400 without reason", F, line="HTTP/1.1 400")
    cell("status not a number", F, line="HTTP/1.1 abc Switching")
    cell("status line of two parts", A, line="HTTP/1.1 101")
    cell("Upgrade missing", F, drop=("upgrade",))
    cell("Upgrade: foo", F, upgrade="foo")
    cell("Upgrade: WebSocket (case)", A, upgrade=" WebSocket ")
    cell("Connection missing", F, drop=("connection",))
    cell("Connection: keep-alive", F, connection="keep-alive")
    cell("Connection: keep-alive, upgrade", A, connection="keep-alive, upgrade")
    cell("Sec-WebSocket-Accept missing", F, drop=("sec-websocket-accept",))
    cell("Sec-WebSocket-Accept twice", F, cnt={"sec-websocket-accept": 2})
    cell("Sec-WebSocket-Accept for another GUID", F, sec_websocket_accept=wrong)
    cell("Sec-WebSocket-Accept in lower case", F, sec_websocket_accept=good_accept.lower())
    cell("Sec-WebSocket-Accept truncated", F, sec_websocket_accept=good_accept[:-1])
    cell("Sec-WebSocket-Accept is the key itself", F, sec_websocket_accept=key_b64.decode())
    cell("Sec-WebSocket-Accept with blanks around", A, sec_websocket_accept=f" {good_accept} ")
    cell("subprotocol a (offered)", A, sec_websocket_protocol="a")
    cell("subprotocol b with blanks (offered)", A, sec_websocket_protocol=" b ")
    cell("subprotocol c (not offered)", F, sec_websocket_protocol="c")
    cell("subprotocol zzz (the factory default, not what was sent)", F, sec_websocket_protocol="zzz")
    cell("subprotocol header twice", F, sec_websocket_protocol="a", cnt={"sec-websocket-protocol": 2})
    cell("subprotocol 'a,b' (a list is not a selection)", F, sec_websocket_protocol="a,b")
    cell("extension known and accepted", A, sec_websocket_extensions="permessage-deflate", ext={"parsed": [["permessage-deflate", {}]]})
    cell("extension unknown", F, sec_websocket_extensions="x-foo", ext={"parsed": [["x-foo", {}]]})
    cell("extension header twice", F, sec_websocket_extensions="permessage-deflate", cnt={"sec-websocket-extensions": 2}, ext={"parsed": [["permessage-deflate", {}]]})
    cell("extension parameters do not parse", F, sec_websocket_extensions="permessage-deflate; x", ext={"parsed": [["permessage-deflate", {"x": [True]}]], "parse_raises": True})
    cell("extension denied by the application", F, sec_websocket_extensions="permessage-deflate", ext={"parsed": [["permessage-deflate", {}]], "accept": False})
    cell("two compression extensions", F, sec_websocket_extensions="permessage-deflate, permessage-deflate",
         ext={"parsed": [["permessage-deflate", {}], ["permessage-deflate", {}]]})
    S_OPEN = ctx.program.class_const(ctx.program.cls(WSP), "STATE_OPEN")
    bad = []
    n = 0
    for name, line, hdr, cnt, ext, before, expect in cells:
        ro = dict(host="example.com", port=9000, resource="/chat", useragent=None, headers={}, origin=None, protocols=["a", "b"])
        try:
            if before:
                ev = []
                env = _client_env(ctx, cls, (ash, ph), {})
                t = Tiny(env, default_call=_client_oracle(ev), model_strings=True, model_types=True, inline_self=inl, opaque_globals=True)
            else:
                t, ev, r0 = start({}, ro)
                if r0[0] == "raise":
                    raise AnalysisError(f"request step raises {r0[1]}")
            del ev[:]
            t.default_call = _client_oracle(ev, resp=(line, hdr, cnt), ext=ext)

            def mk_parse(_ext=ext):
                def parse(params):
                    if (_ext or {}).get("parse_raises"):
                        raise TinyRaise("Exception")
                    return Sym("pmce-response")
                return parse
            t.env["PERMESSAGE_COMPRESSION_EXTENSION"] = {"permessage-deflate": {"Offer": Sym("Offer"), "OfferAccept": Sym("OfferAccept"),
                                                                                 "Response": Sym("Response", methods={"parse": mk_parse()}), "ResponseAccept": Sym("ResponseAccept"),
                                                                                 "PMCE": Sym("PMCE", methods={"create_from_response_accept": lambda *a: Sym("pmce")})}}
            t.env["self.data"] = b"HTTP/1.1 101 x\r\n\r\nrest"
            # locals of the request step do not leak into the response step
            for k in [k for k in t.env if not (k == "self" or k.startswith("self.") or "." in k or k[0].isupper())]:
                del t.env[k]
            r = t.run(strip(ph))
        except AnalysisError as e:
            raise AnalysisError(f"[{rule_id}] client processHandshake outside the modelled subset (cell '{name}'): {e}")
        n += 1
        failed = any(k == "fail" for k, _ in ev)
        opened = _selfattr(t, "state") == S_OPEN
        if r[0] == "raise":
            got = f"raises {r[1]}"
        elif opened and not failed:
            got = "accept"
        elif failed and not opened:
            got = "fail"
        elif failed:
            got = "both fails and opens"
        else:
            got = "neither opens nor fails"
        if got != expect:
            bad.append(f"{name}: {got}, expected {expect}")
        elif expect == "accept":
            want = hdr.get("sec-websocket-protocol", "").strip() or None
            if _to_py(_selfattr(t, "websocket_protocol_in_use")) != want:
                bad.append(f"{name}: subprotocol in use {_selfattr(t, 'websocket_protocol_in_use')!r}, the server selected {want!r}")
            if _to_py(_selfattr(t, "data")) != b"rest":
                bad.append(f"{name}: octets after the response are {_selfattr(t, 'data')!r}, expected the rest of the buffer")
    ctx.ob(f"client: the parsed response opens the connection exactly when RFC 6455 4.1 admits it (status 101, upgrade, accept digest of the key sent, "
           f"only offered subprotocol / known accepted extension) [{n} cells]", not bad, "; ".join(bad[:3]), ph.loc())
    ctx.require(n >= 30, f"only {n} client handshake cells evaluated")


# ------------------------------------------------------------------------------------------------------- header block -> lines
def rule_header_lines(ctx, rule_id="C07.8-header-block-lines"):
    """What the validators above judge is what parseHttpHeader hands them.  It is evaluated (sa.core.tiny, pure string operations on the
    model's own octets) on a request whose User-Agent value contains one octet that is *not* an HTTP line end: the headers must be exactly
    the CRLF-delimited ones -- the rest of that value must not come back as a header of its own (which would let a peer present one set of
    headers to an intermediary and another one to this endpoint, and cuts legitimate obs-text values such as UTF-8 'Ņ' = C5 85)."""
    ctx.rule(rule_id)
    fn = ctx.program.func("autobahn.websocket.protocol.parseHttpHeader")
    ctx.analysed(fn)
    body = [s for s in fn.node.body if not (isinstance(s, ast.Expr) and isinstance(s.value, ast.Constant))]
    prm = fn.params()[0]
    bad = []
    n = 0

    def run(data):
        try:
            r = Tiny({prm: data}, default_call=lambda f_, a_, k_=None: Sym(f"<{f_}>"), model_strings=True, model_types=True, opaque_globals=True).run(body)
        except AnalysisError as e:
            raise AnalysisError(f"[{rule_id}] parseHttpHeader outside the modelled subset: {e}")
        if r[0] != "return" or not isinstance(r[1], list) or len(r[1]) != 3:
            return None
        return _to_py(r[1][0]), {k: _to_py(v) for k, v in r[1][1].items()}, dict(r[1][2])
    base = run(b"GET /chat HTTP/1.1\r\nHost: example.com\r\nUpgrade: websocket\r\nHost: other.example\r\nX-Empty:\r\n\r\n")
    n += 1
    ok0 = base is not None and base[0] == "GET /chat HTTP/1.1" and base[1].get("upgrade") == "websocket" and base[2].get("host") == 2 and base[2].get("upgrade") == 1 \
        and set(base[1]) == {"host", "upgrade", "x-empty"}
    if not ok0:
        bad.append(f"plain CRLF request: parsed as {base}")
    for sep, name in ((b"\r", "a bare CR"), (b"\x0b", "VT"), (b"\x0c", "FF"), (b"\x1c", "FS"), (b"\x1d", "GS"), (b"\x1e", "RS"), (b"\x85", "octet 0x85 (NEL in ISO-8859-1)")):
        got = run(b"GET /chat HTTP/1.1\r\nHost: example.com\r\nUser-Agent: a" + sep + b"Origin: http://smuggled.example\r\n\r\n")
        n += 1
        if got is None or set(got[1]) != {"host", "user-agent"} or got[2].get("host") != 1:
            bad.append(f"header value containing {name}: headers {sorted(got[1]) if got else None} -- the rest of the value is taken for a header the peer never sent as one")
    ctx.ob(f"parseHttpHeader: header lines end at CRLF (or LF) only; no other octet inside a value starts a new header [{n} cells]", not bad, "; ".join(bad[:3]), fn.loc())
