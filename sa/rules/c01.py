"""C01 - WebSocket messages arrive intact, exactly once and in order.

Decides necessary structural conditions of the frame codec: encoder/decoder length-coding tables agree with RFC 6455
(and hence with each other and with the decoder checked in C02.1), header bit layout, fragment / chop loops partition
the payload, buffer split indices agree, the send queue is FIFO, and both framework adapters forward every hook alike.
Does NOT decide delivery under all segmentations / API mixes (runtime schedules).
"""
import ast
import struct

import numpy as np

from ..core.index import AnalysisError, walk_no_defs, calls_in, call_name, kwarg
from ..core.cfg import node_calls, stored_lvalues
from ..core import norm
from ..core.vec import Vec, Opaque
from ..spec import rfc6455
from .common import (WSP, WSS, WSC, get_analysis, is_self_attr, self_call, stmt_key, find_assign_nodes, is_test_module)

META = {
    "explanation": "Codec agreement rules: the payload-length coding of the three frame encoders is extracted as an "
                   "interval table (vectorised interpretation over all boundary classes of the length) and compared with "
                   "the RFC 6455 table that C02.1 proves for the decoder; header bit layout by exhaustive enumeration of "
                   "fin x rsv x opcode; slice-partition proof obligations for the fragmentation and chop loops; index "
                   "agreement of every buffer split; FIFO discipline of the send queue; adapter hook agreement.",
    "assumptions": ["exactly-once / in-order delivery for all segmentations and API mixes is not decided (runtime schedules)",
                    "length coding compared on equivalence classes: the encoders compare the length with constants only (verified)"],
}

ENCODERS = [f"{WSP}.sendFrame", f"{WSP}.beginMessageFrame", "autobahn.websocket.protocol.PreparedMessage.__init__"]


def _length_chain(fn):
    """The If statement that selects the length form: the outermost If containing struct.pack('!H') and ('!Q')."""
    best = None
    for n in walk_no_defs(fn.node):
        if isinstance(n, ast.If):
            fmts = set()
            for c in ast.walk(n):
                if isinstance(c, ast.Call) and call_name(c) == "struct.pack" and c.args and isinstance(c.args[0], ast.Constant):
                    fmts.add(c.args[0].value)
            if {"!H", "!Q"} <= fmts:
                if best is None or any(n is x for x in ast.walk(best)) is False and any(best is x for x in ast.walk(n)):
                    best = n
                elif best is None:
                    best = n
    return best


def rule_length_coding(ctx):
    ctx.rule("C01.1-length-coding")
    for q in ENCODERS:
        fn = ctx.program.func(q)
        ctx.analysed(fn)
        chain = _length_chain(fn)
        ctx.require(chain is not None, f"{q}: length-form selection chain not found")
        # the length variable: the name compared in the chain's tests
        names = set()
        consts = set()
        node = chain
        tests = []
        while isinstance(node, ast.If):
            tests.append(node.test)
            node = node.orelse[0] if len(node.orelse) == 1 and isinstance(node.orelse[0], ast.If) else None
        for t in tests:
            ctx.require(isinstance(t, ast.Compare), f"{q}: length test {ast.unparse(t)} is not a comparison")
            for x in [t.left] + list(t.comparators):
                if isinstance(x, ast.Name):
                    names.add(x.id)
                elif isinstance(x, ast.Constant) and isinstance(x.value, int):
                    consts.add(x.value)
                else:
                    raise AnalysisError(f"{q}: length compared with non-constant {ast.unparse(x)}")
        ctx.require(len(names) == 1, f"{q}: length chain tests more than one variable: {names}")
        lv = names.pop()
        samples = sorted({0, 1, 2 ** 64} | {c + d for c in consts | {125, 126, 0xFFFF, 0x10000, 0x7FFFFFFFFFFFFFFF} for d in (-1, 0, 1) if c + d >= 0})
        n = len(samples)
        L = np.array(samples, dtype=object)
        packs = []

        def attr(text, node_, mask):
            return NotImplemented

        def call(c, mask, vec):
            if call_name(c) == "struct.pack":
                fmt = c.args[0].value
                arg = norm.text(c.args[1])
                packs.append((fmt, arg, mask.copy()))
                return ("pack", fmt)
            return NotImplemented

        res = norm.Resolver(ctx.program, fn.module, fn.cls)
        roles = _assembly_names(ctx, fn)
        nm_b1, nm_el = roles.get("header1", "b1"), roles.get("ext-length", "el")
        for base in (0, 128):
            v = Vec(n, res, attr, call)
            v.env[lv] = L
            v.env[nm_b1] = np.full(n, base, dtype=object)
            v.env[nm_el] = Opaque("el")
            packs.clear()
            v.run([chain])
            b1 = v.env[nm_b1]
            for k, l in enumerate(samples):
                exp = None
                for lo, hi, marker, fmt, extra in rfc6455.LENGTH_CODING:
                    if lo <= l <= hi:
                        exp = (l if marker is None else marker, fmt)
                cons = f"{q}: length {l} (mask bit {base >> 7})"
                if exp is None:
                    ctx.ob(cons, bool(v.raised[k]), f"length {l} > 2^63-1 must be refused by the encoder", fn.loc(chain))
                    continue
                got_marker = int(b1[k]) & 0x7F
                got_fmt = [f for f, a, m in packs if m[k]]
                ok = (not v.raised[k]) and got_marker == exp[0] and (got_fmt == ([exp[1]] if exp[1] else [])) and (int(b1[k]) & 0x80) == base
                ctx.ob(cons, ok, f"encoder emits 7-bit length {got_marker} with extended form {got_fmt or 'none'}; RFC 6455 5.2 requires "
                                 f"{exp[0]} with {exp[1] or 'none'}", fn.loc(chain))
            for f, a, m in packs:
                ctx.ob(f"{q}: struct.pack({f}) packs the length variable", a == lv, f"extended length packs `{a}` instead of `{lv}`", fn.loc(chain))
    ctx.floor("C01.1-length-coding", 60)


def _between(fn, first_pred, last_pred):
    body = fn.node.body
    i0 = next((i for i, s in enumerate(body) if first_pred(s)), None)
    if i0 is None:
        return None
    i1 = next((i for i, s in enumerate(body) if i > i0 and last_pred(s)), None)
    return body[i0:i1] if i1 is not None else None


def _is_assign(st, name, const=None):
    return isinstance(st, ast.Assign) and len(st.targets) == 1 and isinstance(st.targets[0], ast.Name) and st.targets[0].id == name and \
        (const is None or (isinstance(st.value, ast.Constant) and st.value.value == const))


def _assembly_role(fn, e):
    """Role of one element of the final b"".join([...]) of a frame encoder, from what the element is computed from
    (names of locals are irrelevant): the single octets holding opcode / mask bit + length code, the struct-packed extended
    length, the 4 mask octets, the payload."""
    from ..core.flow import local_assignments
    one_octet = None
    if isinstance(e, ast.Call) and isinstance(e.func, ast.Attribute) and e.func.attr == "to_bytes" and isinstance(e.func.value, ast.Name):
        one_octet = e.func.value.id
    elif isinstance(e, ast.Call) and norm.text(e.func) in ("bytes", "bytearray") and e.args and isinstance(e.args[0], (ast.List, ast.Tuple)) and \
            len(e.args[0].elts) == 1 and isinstance(e.args[0].elts[0], ast.Name):
        one_octet = e.args[0].elts[0].id
    if one_octet is not None:
        srcs = {n.id for v in local_assignments(fn, one_octet) if v is not None for n in ast.walk(v) if isinstance(n, ast.Name)}
        augs = [s for s in walk_no_defs(fn.node) if isinstance(s, ast.AugAssign) and isinstance(s.target, ast.Name) and s.target.id == one_octet]
        srcs |= {n.id for s in augs for n in ast.walk(s.value) if isinstance(n, ast.Name)}
        consts = {c.value for s in augs for c in ast.walk(s.value) if isinstance(c, ast.Constant)} | \
            {c.value for v in local_assignments(fn, one_octet) if v is not None for c in ast.walk(v) if isinstance(c, ast.Constant)}
        # the second header octet is the one into which the 7-bit length codes 126 / 127 are OR-ed
        return "header1" if {126, 127} & consts else "header0"
    if isinstance(e, ast.Name):
        vals = [v for v in local_assignments(fn, e.id) if v is not None]
        # `x = A or b""` / `x = A if c else b""`: the alternatives are the values
        flat = []
        for v in vals:
            flat += list(v.values) if isinstance(v, ast.BoolOp) else ([v.body, v.orelse] if isinstance(v, ast.IfExp) else [v])
        vals = flat
        packs = [norm.text(v.args[0]).strip("'\"") for v in vals if isinstance(v, ast.Call) and norm.text(v.func) == "struct.pack" and v.args]
        if packs and set(packs) <= {"!H", "!Q", ">H", ">Q"}:
            return "ext-length"
        if packs and set(packs) <= {"!I", ">I", "!L", ">L"}:
            return "mask"
        params = [a.arg for a in fn.node.args.args]
        if e.id in params and e.id == "mask":
            return "mask"
        nonempty = [v for v in vals if not (isinstance(v, ast.Constant) and v.value == b"")]
        if nonempty and all((isinstance(v, ast.Name) and v.id == "mask" and "mask" in params) or
                            (isinstance(v, ast.Attribute) and "mask" in v.attr.lower()) for v in nonempty):
            return "mask"
        if any(isinstance(v, ast.Call) and isinstance(v.func, ast.Attribute) and v.func.attr in ("process", "tobytes") for v in vals) or \
                any(isinstance(v, ast.Name) and v.id in ("payload",) for v in vals) or e.id == "payload":
            return "payload"
        return f"name({e.id})"
    return norm.text(e)[:30]


def _assembly_names(ctx, fn):
    """role -> local name, read off the final b"".join([...]) of a frame encoder (the names the code happens to use are not assumed)."""
    joins = [c for c in calls_in(fn.node) if isinstance(c.func, ast.Attribute) and c.func.attr == "join" and c.args and
             isinstance(c.args[0], ast.List) and len(c.args[0].elts) >= 4]
    ctx.require(len(joins) == 1, f"{fn.qualname}: frame assembly join not found")
    out = {}
    for e in joins[0].args[0].elts:
        role = _assembly_role(fn, e)
        nm = None
        if isinstance(e, ast.Name):
            nm = e.id
        elif isinstance(e, ast.Call) and isinstance(e.func, ast.Attribute) and isinstance(e.func.value, ast.Name):
            nm = e.func.value.id
        elif isinstance(e, ast.Call) and e.args and isinstance(e.args[0], (ast.List, ast.Tuple)) and len(e.args[0].elts) == 1 and isinstance(e.args[0].elts[0], ast.Name):
            nm = e.args[0].elts[0].id
        if nm is not None:
            out.setdefault(role, nm)
    return out


def rule_header_bits(ctx):
    ctx.rule("C01.2-header-bit-layout")
    # sendFrame: b0 from (fin, rsv, opcode)
    fn = ctx.program.func(f"{WSP}.sendFrame")
    roles = _assembly_names(ctx, fn)
    nm_b0, nm_b1 = roles.get("header0", "b0"), roles.get("header1", "b1")
    # from the first binding of the first header octet up to the first binding of the second one (built step by step or as one expression)
    blk = _between(fn, lambda s: _is_assign(s, nm_b0), lambda s: _is_assign(s, nm_b1))
    ctx.require(blk is not None, "sendFrame: b0 construction block not found")
    fin, rsv, opc = np.meshgrid(np.arange(2), np.arange(8), np.arange(16), indexing="ij")
    fin, rsv, opc = fin.ravel(), rsv.ravel(), opc.ravel()
    res = norm.Resolver(ctx.program, fn.module, fn.cls)
    v = Vec(len(fin), res, lambda t, n, m: NotImplemented, lambda c, m, vv: NotImplemented)
    v.env.update({"fin": fin.astype(bool), "rsv": rsv.astype(np.int64), "opcode": opc.astype(np.int64)})
    v.run(blk)
    b0 = v.env[nm_b0]
    exp = (fin << 7) | (rsv << 4) | opc
    bad = b0 != exp
    ctx.ob("sendFrame: first octet = FIN<<7 | RSV<<4 | opcode (256 combinations)", not bad.any(),
           f"{int(bad.sum())} (fin,rsv,opcode) combinations encoded wrongly, e.g. fin={fin[np.argmax(bad)]} rsv={rsv[np.argmax(bad)]} "
           f"opcode={opc[np.argmax(bad)]} -> {int(b0[np.argmax(bad)]) if bad.any() else ''}", fn.loc())
    # final assembly order: b0, b1, el, mask, payload
    for q, want in ((f"{WSP}.sendFrame", ["header0", "header1", "ext-length", "mask", "payload"]),
                    (f"{WSP}.beginMessageFrame", ["header0", "header1", "ext-length", "mask"]),
                    ("autobahn.websocket.protocol.PreparedMessage.__init__", ["header0", "header1", "ext-length", "mask", "payload"])):
        f2 = ctx.program.func(q)
        ctx.analysed(f2)
        joins = [c for c in calls_in(f2.node) if isinstance(c.func, ast.Attribute) and c.func.attr == "join" and c.args and
                 isinstance(c.args[0], ast.List) and len(c.args[0].elts) >= 4]
        ctx.require(len(joins) == 1, f"{q}: frame assembly join not found")
        got = [_assembly_role(f2, e) for e in joins[0].args[0].elts]
        ctx.ob(f"{q}: octet order header0, header1, ext-length, mask, payload", got == want,
               f"assembled as {got} from {[norm.text(e) for e in joins[0].args[0].elts]}", f2.loc(joins[0]))
    # beginMessageFrame b0: opcode + RSV1 only at message begin
    fn = ctx.program.func(f"{WSP}.beginMessageFrame")
    an = get_analysis(ctx)
    g, mf, res = an.get(fn)
    begin_const = ctx.program.class_const(ctx.program.cls(WSP), "SEND_STATE_MESSAGE_BEGIN")
    nm_b0 = _assembly_names(ctx, fn).get("header0", "b0")
    for n in g.stmt_nodes():
        if n.kind == "stmt" and isinstance(n.ast, ast.AugAssign) and isinstance(n.ast.target, ast.Name) and n.ast.target.id == nm_b0:
            atbegin = ("eq", "self.send_state", ("c", begin_const), True) in mf.at(n)
            ctx.ob(f"beginMessageFrame: {stmt_key(n.ast)} only on the first frame of a message", atbegin,
                   "opcode / RSV bits set on a continuation frame of the streaming API", fn.loc(n.ast))
            t = norm.text(n.ast.value)
            if "send_message_opcode" in t:
                ctx.ob("beginMessageFrame: opcode bits", isinstance(n.ast.op, ast.BitOr) and t == "self.send_message_opcode % 128", f"b0 |= {t}", fn.loc(n.ast))
            else:
                ok, val = ctx.program.try_const(n.ast.value, fn.module, fn.cls)
                ctx.ob("beginMessageFrame: compression bit is RSV1 (0x40) under send_compressed",
                       ok and val == 0x40 and ("truth", "self.send_compressed", None, True) in mf.at(n), f"b0 |= {t}", fn.loc(n.ast))
    # PreparedMessage b0
    fn = ctx.program.func("autobahn.websocket.protocol.PreparedMessage.__init__")
    # evaluated (sa.core.tiny) for a text and a binary message: the first octet of the assembled frame (FIN set, opcode 1 / 2, no RSV bits)
    from ..core.tiny import Tiny, Sym, Buf
    ctx.analysed(fn)
    joins = [c for c in calls_in(fn.node) if isinstance(c.func, ast.Attribute) and c.func.attr == "join" and c.args and isinstance(c.args[0], ast.List) and len(c.args[0].elts) >= 4]
    ctx.require(len(joins) == 1, "PreparedMessage: frame assembly join not found")
    prm = fn.params()
    bad = []
    try:
        for binary in (False, True):
            env = {"self": Sym("prepared"), prm[1]: Buf(0, 5), prm[2]: binary, prm[3]: False, prm[4]: True}
            t = Tiny(env, default_call=lambda f_, a_, k_=None: Sym(f"<{f_}>"), opaque_globals=True, model_strings=True, model_types=True)
            r = t.run([x for x in fn.node.body if not (isinstance(x, ast.Expr) and isinstance(x.value, ast.Constant))],
                      stop=lambda st_: any(x is joins[0] for x in ast.walk(st_)))
            if r[0] != "stop":
                bad.append(f"isBinary={binary}: frame assembly not reached ({r[0]} {str(r[1])[:40]})")
                continue
            first = t.ev(joins[0].args[0].elts[0])
            want = bytes([0x82 if binary else 0x81])
            if first != want and first != ("octets", want[0]):
                bad.append(f"isBinary={binary}: first octet is {first!r}, expected {want!r} (FIN + opcode {2 if binary else 1})")
    except AnalysisError as e:
        raise AnalysisError(f"[C01.2-header-bit-layout] PreparedMessage.__init__ outside the modelled subset: {e}")
    ctx.ob("PreparedMessage: single FIN frame, opcode 2 if binary else 1 [2 cells]", not bad, "; ".join(bad), fn.loc(joins[0]))


def _slice_loop(ctx, fn, loop, payload, step_ok_msg):
    """Proof obligations for a slice-partition loop:
         i = 0; n = len(P); done = False
         while not done: j = i + S; if j >(=) n: done = True; j = n; emit(P[i:j]) ...; i += S
    """
    q = fn.qualname
    body = loop.body
    ok_hdr = isinstance(loop.test, ast.UnaryOp) and isinstance(loop.test.op, ast.Not) and isinstance(loop.test.operand, ast.Name)
    ctx.ob(f"{q}: loop runs while not <done flag>", ok_hdr, f"loop condition is {ast.unparse(loop.test)}", fn.loc(loop))
    if not ok_hdr:
        return None
    done = loop.test.operand.id
    # j = i + S
    first = body[0]
    okj = isinstance(first, ast.Assign) and isinstance(first.value, ast.BinOp) and isinstance(first.value.op, ast.Add) and \
        isinstance(first.targets[0], ast.Name) and isinstance(first.value.left, ast.Name) and isinstance(first.value.right, ast.Name)
    ctx.ob(f"{q}: slice end = start + step", okj, f"first loop statement is {stmt_key(first)}", fn.loc(first))
    if not okj:
        return None
    j, i, S = first.targets[0].id, first.value.left.id, first.value.right.id
    # clamp
    clamp = body[1]
    okc = isinstance(clamp, ast.If) and not clamp.orelse and isinstance(clamp.test, ast.Compare) and len(clamp.test.ops) == 1
    n_name = None
    if okc:
        at = norm.atoms(clamp.test, True)
        # j > n  == ('lt', n, j, True) ; j >= n == ('lt', j, n, False)
        for cand in at:
            if cand[0] == "lt" and cand[3] and cand[2] == ("e", j) and cand[1][0] == "e":
                n_name = cand[1][1]
            if cand[0] == "lt" and not cand[3] and cand[1] == ("e", j) and cand[2][0] == "e":
                n_name = cand[2][1]
        sets = {norm.text(s.targets[0]): norm.text(s.value) for s in clamp.body if isinstance(s, ast.Assign)}
        okc = n_name is not None and sets.get(done) == "True" and sets.get(j) == n_name and len(clamp.body) == 2
    ctx.ob(f"{q}: last slice clamped to the payload length and flagged done", bool(okc),
           f"clamp statement is `{stmt_key(clamp)}` (needs: if end >(=) n: done = True; end = n)", fn.loc(clamp))
    # last statement: i += S
    last = body[-1]
    okl = isinstance(last, ast.AugAssign) and isinstance(last.op, ast.Add) and norm.text(last.target) == i and norm.text(last.value) == S
    ctx.ob(f"{q}: next slice starts where the unclamped end was (start += step)", okl, f"last loop statement is {stmt_key(last)}", fn.loc(last))
    # no other writes to i, j, S, n, done inside the loop
    writes = []
    for s in body[2:-1]:
        for x in ast.walk(s):
            if isinstance(x, (ast.Assign, ast.AugAssign)):
                for t in (x.targets if isinstance(x, ast.Assign) else [x.target]):
                    if isinstance(t, ast.Name) and t.id in (i, j, S, n_name, done, payload):
                        writes.append(t.id)
    ctx.ob(f"{q}: loop roles not modified elsewhere in the body", not writes, f"extra writes to {writes}", fn.loc(loop))
    # every slice of the payload inside the loop is [i:j]
    slices = [x for s in body for x in ast.walk(s) if isinstance(x, ast.Subscript) and norm.text(x.value) == payload]
    oks = bool(slices) and all(isinstance(x.slice, ast.Slice) and x.slice.lower is not None and x.slice.upper is not None and
                               norm.text(x.slice.lower) == i and norm.text(x.slice.upper) == j and x.slice.step is None for x in slices)
    ctx.ob(f"{q}: every emitted piece is payload[start:end]", oks, f"slices: {[norm.text(x) for x in slices]}", fn.loc(loop))
    # initialisation before the loop: i = 0, n = len(payload), done = False
    pre = {}
    for s in walk_no_defs(fn.node):
        if isinstance(s, ast.Assign) and isinstance(s.targets[0], ast.Name) and s.lineno < loop.lineno:
            pre.setdefault(s.targets[0].id, []).append(norm.text(s.value))
    ctx.ob(f"{q}: start index initialised to 0", pre.get(i, [None])[-1] == "0", f"{i} initialised as {pre.get(i)}", fn.loc(loop))
    ctx.ob(f"{q}: bound is len(payload)", n_name is not None and pre.get(n_name, [None])[-1] == f"len({payload})", f"{n_name} initialised as {pre.get(n_name)}", fn.loc(loop))
    ctx.ob(f"{q}: done flag initialised False", pre.get(done, [None])[-1] == "False", f"{done} initialised as {pre.get(done)}", fn.loc(loop))
    return {"i": i, "j": j, "S": S, "n": n_name, "done": done}


def _rsv_values(ctx, fn, expr):
    """Value of an rsv= argument for sendCompressed in (False, True), through single-definition locals."""
    from .common import eval_finite
    if expr is None:
        return None
    try:
        arr = eval_finite(ctx.program, fn, expr, {"sendCompressed": np.array([False, True])}, 2)
        return [int(x) for x in arr]
    except AnalysisError:
        return None


def _rsv_is_compress_bit(ctx, fn, expr):
    return _rsv_values(ctx, fn, expr) == [0, 4]


def _rsv_is_zero(ctx, fn, expr):
    return _rsv_values(ctx, fn, expr) == [0, 0]


def rule_fragment_loops(ctx, rule_id="C01.3-fragment-and-chop-loops"):
    ctx.rule(rule_id)
    an = get_analysis(ctx)
    # --- sendMessage: decided cell-wise ------------------------------------------------
    # over (payload length, text/binary, fragmentSize, autoFragmentSize, compression on/off, doNotCompress): the frames handed to sendFrame
    # tile the wire payload in order; the first carries the message opcode (and RSV1 iff the message is compressed), the others opcode 0 and
    # no RSV bit; FIN only on the last; a payload that fits into one fragment goes out as one frame
    from ..core.tiny import Tiny, Sym, Buf
    import itertools
    fn = ctx.program.func(f"{WSP}.sendMessage")
    ctx.analysed(fn)
    wsp = ctx.program.cls(WSP)
    S_OPEN = ctx.program.class_const(wsp, "STATE_OPEN")
    prm = fn.params()
    body = [x for x in fn.node.body if not (isinstance(x, ast.Expr) and isinstance(x.value, ast.Constant))]
    probs, cells = [], 0
    try:
        for n_, binary, frag, auto, comp, dnc in itertools.product((0, 1, 7, 8, 9, 23), (True, False), (None, 1, 8, 100), (0, 8), (False, True), (False, True)):
            cells += 1
            frames = []
            wire = n_ + 3 if (comp and not dnc) else n_

            def default(f_, a_, k_=None):
                if f_ == "self.sendFrame":
                    frames.append(dict(k_ or {}, _args=list(a_)))
                    return None
                if f_ == "type":
                    return "bytes"
                return Sym(f"<{f_}>")
            pmc = Sym("pmce", methods={"start_compress_message": lambda: None, "compress_message_data": lambda d, w=wire: Buf(0, w - 2), "end_compress_message": lambda: Buf(0, 2)}) if comp else None
            env = {prm[1]: Buf(0, n_), "isBinary": binary, "fragmentSize": frag, "sync": False, "doNotCompress": dnc, "bytes": "bytes",
                   "self.state": S_OPEN, "WebSocketProtocol.STATE_OPEN": S_OPEN, "self.trackedTimings": None, "self._perMessageCompress": pmc,
                   "self.maxMessagePayloadSize": 0, "self.autoFragmentSize": auto, "self.wasMaxMessagePayloadSizeExceeded": False, "self": Sym("p"),
                   "self.trafficStats.outgoingWebSocketMessages": 0, "self.trafficStats.outgoingOctetsAppLevel": 0, "self.trafficStats.outgoingOctetsWebSocketLevel": 0}
            t = Tiny(env, default_call=default, inline_self=lambda name: (ctx.program.lookup_method(wsp, name).node if name.startswith("_") and name not in ("_trigger",) and
                                                                          ctx.program.lookup_method(wsp, name) is not None and name not in ("_fail_connection",) else None))
            r = t.run(body)
            cell = f"payload {n_} octets, {'binary' if binary else 'text'}, fragmentSize={frag}, autoFragmentSize={auto}, compression {'on' if comp else 'off'}, doNotCompress={dnc}"
            if r[0] == "raise":
                probs.append(f"{cell}: raises {str(r[1])[:60]}")
                continue
            compressed = comp and not dnc
            pfs = frag if frag is not None else (auto if auto > 0 else None)
            if pfs is None or wire <= pfs:
                want = [(2 if binary else 1, (0, wire), True, 4 if compressed else 0)]
            else:
                want = []
                i = 0
                while True:
                    j = min(i + pfs, wire)
                    last = j >= wire
                    want.append(((2 if binary else 1) if i == 0 else 0, (i, j), last, (4 if compressed else 0) if i == 0 else 0))
                    if last:
                        break
                    i = j
            got = []
            for f in frames:
                pl = f.get("payload", f["_args"][1] if len(f["_args"]) > 1 else Buf(0, 0))
                op = f.get("opcode", f["_args"][0] if f["_args"] else None)
                if isinstance(pl, Buf) and compressed:
                    span = (pl.lo, pl.hi) if len(frames) > 1 else (0, len(pl))
                else:
                    span = (pl.lo, pl.hi) if isinstance(pl, Buf) and len(pl) else ((0, 0) if isinstance(pl, Buf) else None)
                got.append((op, span, bool(f.get("fin", True)), f.get("rsv", 0) or 0))
            # zero-length slices carry no position: compare lengths there
            def norm_(x):
                return [(o, (sp[1] - sp[0]) if sp is not None and sp[1] == sp[0] else sp, fi, rs) for o, sp, fi, rs in x]
            # a payload that is an exact multiple of the fragment size may end with an empty FIN frame (also a valid tiling)
            alt = None
            if len(want) > 1 and want[-1][1][1] - want[-1][1][0] == pfs:
                alt = want[:-1] + [(want[-1][0], want[-1][1], False, want[-1][3]), (0, (wire, wire), True, 0)]
            if norm_(got) != norm_(want) and (alt is None or norm_(got) != norm_(alt)):
                probs.append(f"{cell}: frames (opcode, payload span, FIN, RSV) = {got}, expected {want}")
        ctx.ob(f"sendMessage: frames tile the wire payload in order; opcode and RSV1 on the first frame only, FIN on the last only; one frame when it fits [{cells} cells]",
               not probs, "; ".join(probs[:2]), fn.loc())
    except AnalysisError as e:
        raise AnalysisError(f"[{rule_id}] sendMessage outside the modelled subset: {e}")
    # --- sendData chop loop ---------------------------------------------------------------
    fn = ctx.program.func(f"{WSP}.sendData")
    ctx.analysed(fn)
    # cell-wise (sa.core.tiny) over (octets to write, chop size): the pieces queued tile the data in order, none is longer than the chop size, at
    # least one piece (possibly empty) is queued, every piece is marked for a synchronous write, and the queue is triggered once
    from ..core.tiny import Tiny, Sym, Buf
    probs, ncell = [], 0
    body = [x for x in fn.node.body if not (isinstance(x, ast.Expr) and isinstance(x.value, ast.Constant))]
    prm = fn.params()
    try:
        for n_ in (0, 1, 5, 10):
            for cs in (1, 3, 5, 20):
                queue, trig = [], []

                def orc(f_, a_, k_=None):
                    if f_ == "self._trigger":
                        trig.append(len(queue))
                        return None
                    return Sym(f"<{f_}>")
                env = {"self": Sym("protocol"), "self.send_queue": queue, prm[1]: Buf(0, n_), prm[2]: False, prm[3]: cs, "self.log": Sym("log"), "self.transport": Sym("tcp")}
                r = Tiny(env, default_call=orc, opaque_globals=True).run(body)
                ncell += 1
                tag = f"{n_} octets, chop size {cs}"
                if r[0] == "raise":
                    probs.append(f"{tag}: raises {r[1]}")
                    continue
                pieces = [q[0] if isinstance(q, (list, tuple)) and q else q for q in queue]
                pos, okp = 0, bool(pieces)
                for pc in pieces:
                    if not isinstance(pc, Buf) or len(pc) > cs or (len(pc) and pc.lo != pos):
                        okp = False
                        break
                    pos += len(pc)
                if not okp or pos != n_ or (n_ and any(len(pc) == 0 for pc in pieces)) or any(not (isinstance(q, (list, tuple)) and len(q) == 2 and q[1] is True) for q in queue):
                    probs.append(f"{tag}: queued {queue}, expected pieces of at most {cs} octets tiling the data in order (each marked sync)")
                if trig != [len(queue)]:
                    probs.append(f"{tag}: queue triggered {len(trig)} time(s) (after {trig} pieces), expected once after all pieces")
    except AnalysisError as e:
        raise AnalysisError(f"[{rule_id}] sendData outside the modelled subset: {e}")
    ctx.ob(f"sendData: a chopped write queues pieces of at most the chop size that tile the data in order, then triggers the queue [{ncell} cells]", not probs, "; ".join(probs[:2]), fn.loc())
    g, mf, res = an.get(fn)
    chop_guard = [n for n in g.stmt_nodes() if n.kind == "test" and ("lt", ("c", 0), ("e", prm[3]), True) in norm.atoms(n.ast, True, res)]
    ctx.ob("sendData: chop size > 0 when chopping", bool(chop_guard), "no `chopsize > 0` guard", fn.loc())


def rule_buffer_splits(ctx):
    ctx.rule("C01.4-buffer-split-agreement")
    an = get_analysis(ctx)
    fn = ctx.program.func(f"{WSP}.processData")
    ctx.analysed(fn)
    g, mf, res = an.get(fn)
    # inside-frame branch: the payload cut and the kept remainder must split the buffer at the same index min(buffered, rest of frame)
    from ..core.tiny import Tiny, Buf
    from .common import inline_private
    top = [st for st in fn.node.body if isinstance(st, ast.If) and norm.text(st.test) == "self.current_frame is None"]
    ctx.require(len(top) == 1, "processData: `if self.current_frame is None` split not found")
    pre = fn.node.body[:fn.node.body.index(top[0])]
    pre = [st for st in pre if not (isinstance(st, ast.Expr) and isinstance(st.value, ast.Constant))]
    inside = top[0].orelse

    def has_call(st, name):
        return any(isinstance(c, ast.Call) and self_call(c, name) for c in ast.walk(st))
    ctx.require(any(has_call(st, "onFrameData") for st in inside), "processData: onFrameData hand-off not found in the in-frame branch")
    bad = []
    cells = 0
    try:
        for L in range(0, 5):
            for ptr in range(0, L + 1):
                for B in range(0, 6):
                    cells += 1
                    R = L - ptr
                    cut = min(B, R)
                    t = Tiny({"self.data": Buf(0, B), "self.current_frame.length": L},
                             calls={"self.current_frame_masker.pointer()": ptr, "self.current_frame_masker.process": lambda x: x},
                             inline_self=inline_private(ctx, ctx.program.cls(WSP)))
                    t.run(pre)
                    r = t.run(inside, stop=lambda st: has_call(st, "onFrameData"))
                    if r[0] != "stop":
                        bad.append(f"buffered={B} frame rest={R}: the frame-data hand-off is not reached")
                        continue
                    call = [c for c in ast.walk(r[1]) if isinstance(c, ast.Call) and self_call(c, "onFrameData")][0]
                    handed = t.ev(call.args[0])
                    procd = [a[0] for f_, a in t.trace if f_ == "self.current_frame_masker.process"]
                    if not (isinstance(handed, Buf) and handed == Buf(0, cut)):
                        bad.append(f"buffered={B} frame rest={R}: payload handed on is {handed}, expected the first {cut} buffered octets")
                    if t.env["self.data"] != Buf(cut, B):
                        bad.append(f"buffered={B} frame rest={R}: kept remainder is {t.env['self.data']}, expected buf[{cut}:{B}] (cut and remainder disagree)")
                    if cut > 0 and procd != [Buf(0, cut)]:
                        bad.append(f"buffered={B} frame rest={R}: unmasker fed with {procd}, expected exactly the {cut} payload octets once")
                    if cut == 0 and any(len(x) for x in procd):
                        bad.append(f"buffered={B} frame rest={R}: unmasker fed although nothing belongs to the frame")
        ctx.ob(f"processData: payload cut, unmasker input and kept remainder split the buffer at min(buffered, rest of frame) [{cells} size cells]",
               not bad, "; ".join(bad[:3]), fn.loc(inside[0]))
    except AnalysisError as e:
        raise AnalysisError(f"[C01.4-buffer-split-agreement] processData in-frame branch outside the modelled subset: {e}")
    end = [n for n in g.stmt_nodes() if n.kind == "test" and isinstance(n.ast, ast.Compare) and len(n.ast.ops) == 1 and isinstance(n.ast.ops[0], ast.Eq) and
           {norm.text(n.ast.left), norm.text(n.ast.comparators[0])} == {"self.current_frame_masker.pointer()", "self.current_frame.length"}]
    ctx.ob("processData: frame ends exactly when processed octets == declared length", len(end) == 1, "frame-end test changed", fn.loc())
    # handshake hand-over
    for q in (f"{WSS}.processHandshake", f"{WSC}.processHandshake", f"{WSC}.processProxyConnect"):
        f2 = ctx.program.func(q)
        ctx.analysed(f2)
        # the local holding the delimiter position is identified by what it is computed from (a search in self.data), not by its name
        finds = [s for s in walk_no_defs(f2.node) if isinstance(s, ast.Assign) and len(s.targets) == 1 and isinstance(s.targets[0], ast.Name) and
                 any(isinstance(c, ast.Call) and norm.text(c.func) in ("self.data.find", "self.data.index", "self.data.rfind") for c in ast.walk(s.value))]
        # ... and by its use: it cuts self.data (the server also searches self.data for a flash policy request)
        cutters = {x.id for sub in walk_no_defs(f2.node) if isinstance(sub, ast.Subscript) and norm.text(sub.value) == "self.data"
                   for x in ast.walk(sub.slice) if isinstance(x, ast.Name)}
        finds = [s for s in finds if s.targets[0].id in cutters]
        ctx.require(len(finds) == 1, f"{q}: end_of_header assignment not found")
        fc = finds[0].value
        eoh = finds[0].targets[0].id
        ok = isinstance(fc, ast.Call) and norm.text(fc.func) == "self.data.find" and isinstance(fc.args[0], ast.Constant) and isinstance(fc.args[0].value, bytes)
        ctx.require(ok, f"{q}: end_of_header is not self.data.find(<bytes literal>)")
        delim = fc.args[0].value
        ctx.ob(f"{q}: header delimiter is CRLF CRLF", delim == b"\r\n\r\n", f"delimiter {delim!r}", f2.loc(finds[0]))
        stores = [s for s in walk_no_defs(f2.node) if isinstance(s, ast.Assign) and norm.text(s.targets[0]) == "self.data"]
        ctx.require(len(stores) == 1, f"{q}: expected exactly one hand-over store to self.data, found {len(stores)}")
        want = f"self.data[{eoh} + {len(delim)}:]"
        ctx.ob(f"{q}: remainder starts right after the delimiter", norm.text(stores[0].value) == want, f"self.data = {norm.text(stores[0].value)} (expected {want})", f2.loc(stores[0]))
        heads = [s for s in walk_no_defs(f2.node) if isinstance(s, (ast.Assign, ast.AnnAssign)) and isinstance(s.value, ast.Subscript)
                 and norm.text(s.value.value) == "self.data" and isinstance(s.value.slice, ast.Slice) and s.value.slice.lower is None]
        okh = len(heads) == 1 and norm.text(heads[0].value) == f"self.data[:{eoh} + {len(delim)}]"
        ctx.ob(f"{q}: parsed header is the prefix up to and including the delimiter", okh, "header slice changed", f2.loc())
        g2, mf2, res2 = an.get(f2)
        sn = [n for n in g2.stmt_nodes() if n.ast is stores[0]][0]
        ctx.ob(f"{q}: hand-over only when the delimiter was found", ("lt", ("e", eoh), ("c", 0), False) in mf2.at(sn),
               "self.data advanced without `end_of_header >= 0`", f2.loc(stores[0]))
    # leftover octets are processed after the handshake completes
    for q, where in ((f"{WSS}.succeedHandshake", None), (f"{WSC}.processHandshake.<locals>.on_connect_success", None), (f"{WSC}.processProxyConnect", None)):
        f2 = ctx.program.func(q)
        cs = [c for c in calls_in(f2.node) if self_call(c, "consumeData")]
        ctx.ob(f"{q}: remaining buffered octets are consumed", len(cs) == 1, "consumeData() call for the leftover bytes missing", f2.loc())


def rule_prepared(ctx):
    """A prepared message reaches the peer with its payload and its text/binary type on both of its send paths."""
    from ..core.flow import bound_arg
    ctx.rule("C01.8-prepared-message")
    p = ctx.program
    fn = p.func(f"{WSP}.sendPreparedMessage")
    sm = p.func(f"{WSP}.sendMessage")
    init = p.func("autobahn.websocket.protocol.PreparedMessage.__init__")
    ctx.analysed(fn, init)
    pm = fn.params()[1]
    stored = {}
    for st in walk_no_defs(init.node):
        if isinstance(st, ast.Assign) and is_self_attr(st.targets[0]) and isinstance(st.value, ast.Name):
            stored[st.targets[0].attr] = st.value.id
    pay = [k for k, v in stored.items() if v == "payload"]
    binf = [k for k, v in stored.items() if v == "isBinary"]
    ctx.ob("PreparedMessage keeps the payload and the text/binary flag it was built with", len(pay) == 1 and len(binf) == 1, f"stored fields {stored}", init.loc())
    calls = [c for c in calls_in(fn.node) if self_call(c, "sendMessage")]
    ctx.require(len(calls) == 1, "sendPreparedMessage: re-framing through sendMessage not found")
    c = calls[0]
    kp, vp = bound_arg(c, sm, "payload")
    kb, vb = bound_arg(c, sm, "isBinary")
    ctx.ob("sendPreparedMessage (compressed link): re-framed with the prepared payload", kp == "arg" and pay and norm.text(vp) == f"{pm}.{pay[0]}",
           f"payload argument {norm.text(vp) if vp is not None else None}", fn.loc(c))
    ctx.ob("sendPreparedMessage (compressed link): re-framed with the prepared text/binary type", kb == "arg" and binf and norm.text(vb) == f"{pm}.{binf[0]}",
           f"isBinary is {'the default (text)' if kb != 'arg' else norm.text(vb)}: a binary prepared message arrives as text (and is failed as invalid UTF-8)", fn.loc(c))
    direct = [c2 for c2 in calls_in(fn.node) if self_call(c2, "sendData")]
    ctx.ob("sendPreparedMessage (plain link): writes the pre-framed octets once", len(direct) == 1 and norm.text(direct[0].args[0]).startswith(pm + "."),
           "direct write changed", fn.loc())
    # (the pre-framed first octet -- FIN and the opcode of the type -- is decided cell-wise under C01.2)


def rule_send_queue(ctx, rule_id="C01.5-send-queue-fifo"):
    ctx.rule(rule_id)
    an = get_analysis(ctx)
    uses = []
    for f in [x for x in ctx.program.all_functions() if not is_test_module(x.module.name)]:
        stack = [f] + list(f.nested().values())
        for ff in stack:
            for n in walk_no_defs(ff.node):
                if isinstance(n, ast.Attribute) and n.attr == "send_queue" and is_self_attr(n):
                    uses.append((ff, n))
    ctx.require(len(uses) >= 5, "send_queue uses not found")
    allowed_ops = {"append", "popleft"}
    parent = {}
    for ff, n in uses:
        for p in ast.walk(ff.node):
            for ch in ast.iter_child_nodes(p):
                parent[id(ch)] = p
    for ff, n in uses:
        p = parent.get(id(n))
        ok = False
        what = ast.unparse(p) if p is not None else "?"
        if isinstance(p, ast.Attribute) and p.attr in allowed_ops:
            ok = True
        elif isinstance(p, ast.Call) and isinstance(p.func, ast.Name) and p.func.id == "len":
            ok = True
        elif isinstance(p, ast.Assign) and isinstance(n.ctx, ast.Store) and isinstance(p.value, ast.Call) and norm.text(p.value.func) == "deque" and not p.value.args:
            ok = True
        elif isinstance(p, ast.BoolOp) or (isinstance(p, ast.UnaryOp) and isinstance(p.op, ast.Not)) or (isinstance(p, (ast.If, ast.While, ast.IfExp)) and p.test is n):
            ok = True   # truth value of the queue (empty or not): reads nothing but its length
        ctx.ob(f"{ff.qualname}: send_queue used as FIFO only ({what[:50]})", ok,
               "send queue touched by an operation other than append / popleft / len / deque()", ff.loc(n))
    fn = ctx.program.func(f"{WSP}.sendData")
    g, mf, res = an.get(fn)
    direct = [(n, c) for n in g.stmt_nodes() for c in node_calls(n) if norm.text(c.func) == "self.transport.write"]
    ctx.require(len(direct) == 1, "sendData: direct transport.write not found")
    facts = mf.at(direct[0][0])
    ok = ("truth", "sync", None, False) in facts and (("lt", ("c", 0), ("e", "len(self.send_queue)"), False) in facts or ("truth", "self.send_queue", None, False) in facts
                                                       or ("eq", "len(self.send_queue)", ("c", 0), True) in facts)
    ctx.ob("sendData: direct write only when not sync and nothing is queued", ok,
           "a direct transport.write can overtake queued (chopped/synced) writes", fn.loc(direct[0][1]))
    ctx.ob("sendData: direct write sends the data unmodified", [norm.text(a) for a in direct[0][1].args] == ["data"], "write argument changed", fn.loc(direct[0][1]))
    fn = ctx.program.func(f"{WSP}._send")
    ctx.analysed(fn)
    g, mf, res = an.get(fn)
    # cell-wise over (queue length, connection state): one wake-up writes exactly the head element (unless the connection is closed, then
    # it is discarded), leaves the rest queued in order and re-arms itself; an empty queue ends the cycle
    from ..core.tiny import Tiny, Sym, Buf
    from .common import inline_private
    cls_ = ctx.program.cls(WSP)
    S = {k_: ctx.program.class_const(cls_, k_) for k_ in ("STATE_CLOSED", "STATE_CONNECTING", "STATE_PROXY_CONNECTING", "STATE_OPEN", "STATE_CLOSING")}
    body = [x for x in fn.node.body if not (isinstance(x, ast.Expr) and isinstance(x.value, ast.Constant))]
    probs = []
    ncell = 0
    try:
        for qlen in (0, 1, 3):
            for sname, sval in S.items():
                items = [[Buf(10 * i, 10 * i + 4), bool(i % 2)] for i in range(qlen)]
                queue = list(items)
                wrote, later = [], []

                def oracle(fname, args, kwargs=None):
                    if fname == "self.transport.write":
                        wrote.append(args[0] if args else None)
                        return None
                    if fname.endswith("call_later"):
                        later.append(args)
                        return Sym("delayed-call")
                    return Sym(f"<{fname}>")
                env = {"self": Sym("protocol"), "self.send_queue": queue, "self.state": sval, "self.logOctets": False, "self.triggered": True,
                       "self.trafficStats": Sym("stats", outgoingOctetsWireLevel=0, preopenOutgoingOctetsWireLevel=0), "self.log": Sym("log"),
                       "self.transport": Sym("transport"), "self._send": Sym("method _send"), "WebSocketProtocol._QUEUED_WRITE_DELAY": 0.00001}
                env.update({f"WebSocketProtocol.{k_}": v_ for k_, v_ in S.items()})
                env["WebSocketProtocol"] = Sym("class WebSocketProtocol", _QUEUED_WRITE_DELAY=0.00001, **S)
                t = Tiny(env, default_call=oracle, inline_self=inline_private(ctx, cls_, exclude=("_send", "_trigger")), opaque_globals=True, model_strings=True)
                r = t.run(body)
                ncell += 1
                tag = f"{qlen} queued, state {sname[6:]}"
                left = t.env.get("self.send_queue")
                if r[0] == "raise":
                    probs.append(f"{tag}: raises {r[1]}")
                    continue
                want_w = [] if qlen == 0 or sname == "STATE_CLOSED" else [items[0][0]]
                if not (len(wrote) == len(want_w) and all(a_ is b_ for a_, b_ in zip(wrote, want_w))):
                    probs.append(f"{tag}: writes {wrote}, expected {want_w}")
                if not (isinstance(left, list) and len(left) == max(0, qlen - 1) and all(a_ is b_ for a_, b_ in zip(left, items[1:]))):
                    probs.append(f"{tag}: queue afterwards {left}, expected the remaining {max(0, qlen - 1)} element(s) in order")
                if qlen and not (len(later) == 1 and len(later[0]) >= 2 and getattr(later[0][1], "name", "") == "method _send"):
                    probs.append(f"{tag}: does not re-arm itself for the rest of the queue")
                if not qlen and (later or t.env.get("self.triggered", t.env["self"].attrs.get("triggered")) is not False):
                    probs.append(f"{tag}: an empty queue must end the cycle (triggered = False, no further wake-up)")
    except AnalysisError as e:
        raise AnalysisError(f"[send-queue] _send outside the modelled subset: {e}")
    ctx.ob(f"_send: writes the head element taken with popleft() [{ncell} cells]", not probs, "queued write does not send the popped head element: " + "; ".join(probs[:2]), fn.loc())
    ctx.ob("_send: one element per call, then re-armed", any(norm.text(c.func) == "txaio.call_later" and norm.text(c.args[1]) == "self._send" for c in calls_in(fn.node)),
           "_send no longer re-schedules itself", fn.loc())
    tr = ctx.program.func(f"{WSP}._trigger")
    g, mf, res = an.get(tr)
    cs = [(n, c) for n in g.stmt_nodes() for c in node_calls(n) if self_call(c, "_send")]
    ok = len(cs) == 1 and ("truth", "self.triggered", None, False) in (mf.IN.get(cs[0][0].id) or ()) or \
        (len(cs) == 1 and g.always_preceded_by(cs[0][0], lambda x: x.kind == "test" and norm.text(x.ast) == "not self.triggered"))
    ctx.ob("_trigger: only one drain chain at a time", bool(ok), "_send started while a drain is already scheduled (reordering)", tr.loc())


def rule_adapters(ctx):
    ctx.rule("C01.6-adapter-agreement")
    wsp_mod = ctx.program.module("autobahn.websocket.protocol")
    hooks = {}
    for c in wsp_mod.classes.values():
        for m in c.methods.values():
            for f in [m] + list(m.nested().values()):
                for call in calls_in(f.node):
                    if self_call(call) and call.func.attr.startswith("_on") and call.func.attr[3:4].isupper():
                        hooks.setdefault(call.func.attr, []).append((f, call))
    ctx.require(len(hooks) >= 11, f"only {len(hooks)} adapter hooks referenced by websocket/protocol.py")
    adapters = ["autobahn.twisted.websocket.WebSocketAdapterProtocol", "autobahn.asyncio.websocket.WebSocketAdapterProtocol"]
    for hook, sites in sorted(hooks.items()):
        nargs = {len(c.args) for f, c in sites}
        for aq in adapters:
            a = ctx.program.cls(aq)
            m = a.methods.get(hook)
            if m is None and hook == "_onConnect":
                # client-only hook, defined on the adapters' client classes
                m = ctx.program.cls(aq.replace("WebSocketAdapterProtocol", "WebSocketClientProtocol")).methods.get(hook)
            if m is None:
                ctx.ob(f"{aq}.{hook} defined", False, "hook called by the protocol core is missing on this adapter", a.loc())
                continue
            ctx.analysed(m)
            params = m.params()[1:]
            target = hook[1:]
            fw = [c for c in calls_in(m.node) if self_call(c, target)]
            ok = len(fw) == 1 and [norm.text(x) for x in fw[0].args] == params and not fw[0].keywords
            ctx.ob(f"{aq}.{hook} forwards to {target}({', '.join(params)}) unchanged", ok,
                   f"adapter forwards as {[ast.unparse(c) for c in fw]}", m.loc())
            ctx.ob(f"{aq}.{hook} arity matches the call sites", nargs == {len(params)}, f"called with {sorted(nargs)} args, defined with {len(params)}", m.loc())
    for aq in adapters:
        a = ctx.program.cls(aq)
        for nm in ("_closeConnection", "unregisterProducer"):
            ctx.ob(f"{aq}.{nm} defined", nm in a.methods, "missing on adapter", a.loc())
    # receive entry points forward the raw data in arrival order
    tw = ctx.program.func("autobahn.twisted.websocket.WebSocketAdapterProtocol.dataReceived")
    cs = [c for c in calls_in(tw.node) if self_call(c, "_dataReceived")]
    ctx.ob("twisted dataReceived forwards the chunk to _dataReceived", len(cs) == 1 and [norm.text(a) for a in cs[0].args] == [tw.params()[1]], "changed", tw.loc())
    rule_asyncio_queue(ctx, None)


def rule_asyncio_queue(ctx, rule_id):
    """The asyncio adapter's receive queue (shared with C02: the verdict is independent of the read split, and C07: a handshake arriving in
    several reads completes): every read is queued at the tail, the consumer hands ALL queued chunks on in arrival order before it re-arms."""
    if rule_id is not None:
        ctx.rule(rule_id)
    ai = ctx.program.cls("autobahn.asyncio.websocket.WebSocketAdapterProtocol")
    dr = ai.methods["data_received"]
    ctx.analysed(dr)
    # the asyncio receive queue, decided cell-wise: every chunk is appended at the tail whatever the state of the waiter; the waiter is
    # woken once; the consumer hands the queued chunks to _dataReceived in arrival order and re-arms itself
    from ..core.tiny import Tiny, Sym
    import itertools

    class _Deque(list):
        def popleft(self):
            return self.pop(0)

        def appendleft(self, x):
            self.insert(0, x)
    probs = []
    try:
        for done, queued in itertools.product((True, False), (0, 1, 2)):
            woke = []
            q = _Deque(Sym(f"earlier-chunk-{i}") for i in range(queued))
            before = list(q)
            chunk = Sym("this-chunk")
            waiter = Sym("waiter", methods={"done": lambda: done, "set_result": lambda v=None: woke.append(v), "cancelled": lambda: False})
            t = Tiny({"self": Sym("adapter"), "self.receive_queue": q, "self.waiter": waiter, dr.params()[1]: chunk}, default_call=lambda f_, a_, k_=None: Sym(f"<{f_}>"))
            r = t.run([x for x in dr.node.body if not (isinstance(x, ast.Expr) and isinstance(x.value, ast.Constant))])
            cell = f"waiter {'already woken' if done else 'waiting'}, {queued} chunk(s) queued"
            if r[0] not in ("fall", "return") or list(t.env["self.receive_queue"]) != before + [chunk]:
                probs.append(f"{cell}: queue afterwards {list(t.env['self.receive_queue'])} ({r[0]}), expected the chunk appended at the tail")
            elif (len(woke) == 1) != (not done) or len(woke) > 1:
                probs.append(f"{cell}: waiter woken {len(woke)} time(s)")
        ctx.ob("asyncio data_received enqueues every chunk at the tail and wakes the consumer once [6 cells]", not probs, "; ".join(probs[:2]), dr.loc())
    except AnalysisError as e:
        raise AnalysisError(f"[{ctx.cur_rule}] asyncio data_received outside the modelled subset: {e}")
    cons = ai.methods["_consume"]
    proc = cons.nested().get("process")
    ctx.require(proc is not None, "asyncio _consume.process closure not found")
    probs = []
    try:
        for n_, has_tr in itertools.product((3, 1, 0), (True, False)):
            got, rearm = [], []
            q = _Deque(Sym(f"chunk-{i}") for i in range(n_))
            order = list(q)

            def default(f_, a_, k_=None):
                if f_ == "self._dataReceived":
                    got.append(a_[0] if a_ else None)
                    return None
                if f_ == "self._consume":
                    rearm.append(1)
                    return None
                return Sym(f"<{f_}>")
            t = Tiny({"self": Sym("adapter"), "self.receive_queue": q, "self.transport": Sym("transport") if has_tr else None, proc.params()[0]: None}, default_call=default)
            r = t.run([x for x in proc.node.body if not (isinstance(x, ast.Expr) and isinstance(x.value, ast.Constant))])
            cell = f"{n_} chunk(s) queued, transport {'up' if has_tr else 'gone'}"
            if r[0] not in ("fall", "return") or list(t.env["self.receive_queue"]):
                probs.append(f"{cell}: {r[0]}, queue left {list(t.env['self.receive_queue'])}")
            elif has_tr and not (len(got) == n_ and all(a is b_ for a, b_ in zip(got, order))):
                probs.append(f"{cell}: _dataReceived got {got}, expected {order}")
            elif not has_tr and got:
                probs.append(f"{cell}: data delivered after the transport is gone")
            elif len(rearm) != 1:
                probs.append(f"{cell}: consumer re-armed {len(rearm)} times")
        ctx.ob("asyncio consumer hands the queued chunks to _dataReceived in arrival order, then re-arms itself [6 cells]", not probs, "; ".join(probs[:2]), cons.loc())
    except AnalysisError as e:
        raise AnalysisError(f"[{ctx.cur_rule}] asyncio _consume.process outside the modelled subset: {e}")


def rule_stream_frame_data(ctx):
    """Streaming send API: sendMessageFrameData(chunk) inside a frame announced with beginMessageFrame(L).  Cell-wise (sa.core.tiny) over
    (L, octets of the frame already sent, chunk length): exactly the part of the chunk that still fits the announced length is masked
    and written (never a surplus octet: the peer would read it as the next frame header), the return value is what is left of the frame
    (negative: surplus not consumed), and the send state leaves the frame exactly when the frame is complete."""
    from ..core.tiny import Tiny, Sym, Buf
    from .common import inline_private
    ctx.rule("C01.9-streaming-frame-data")
    cls_ = ctx.program.cls(WSP)
    fn = ctx.program.func(f"{WSP}.sendMessageFrameData")
    ctx.analysed(fn)
    prm = fn.params()
    consts = {}
    for k_ in ("STATE_OPEN", "SEND_STATE_INSIDE_MESSAGE_FRAME", "SEND_STATE_INSIDE_MESSAGE", "SEND_STATE_GROUND", "SEND_STATE_MESSAGE_BEGIN"):
        consts[k_] = ctx.program.class_const(cls_, k_)
    body = [x for x in fn.node.body if not (isinstance(x, ast.Expr) and isinstance(x.value, ast.Constant))]
    probs = []
    n = 0
    try:
        for L in (0, 4, 10):
            for p0 in sorted({0, min(3, L)}):
                left = L - p0
                for ln in sorted({0, 1, max(0, left - 1), left, left + 1, left + 5}):
                    ptr = [p0]
                    processed, sent = [], []

                    def process(x):
                        processed.append(x)
                        ptr[0] += len(x)
                        return x
                    masker = Sym("masker", methods={"pointer": lambda: ptr[0], "process": process})

                    def oracle(fname, args, kwargs=None):
                        if fname == "self.sendData":
                            sent.append(args[0] if args else None)
                            return None
                        return Sym(f"<{fname}>")
                    env = {"self": Sym("protocol"), "self.state": consts["STATE_OPEN"], "self.send_state": consts["SEND_STATE_INSIDE_MESSAGE_FRAME"], "self.send_compressed": False,
                           "self.trafficStats": Sym("stats", outgoingOctetsAppLevel=0, outgoingOctetsWebSocketLevel=0), "self.send_message_frame_masker": masker,
                           "self.send_message_frame_length": L, prm[1]: Buf(0, ln), "WebSocketProtocol": Sym("class WebSocketProtocol", **consts), "self.log": Sym("log")}
                    if len(prm) > 2:
                        env[prm[2]] = False
                    env.update({f"WebSocketProtocol.{k_}": v_ for k_, v_ in consts.items()})
                    t = Tiny(env, default_call=oracle, inline_self=inline_private(ctx, cls_, exclude=("sendData",)), opaque_globals=True)
                    r = t.run(body)
                    n += 1
                    tag = f"frame of {L} octets, {p0} already sent, chunk of {ln}"
                    take = min(ln, left)
                    if r[0] != "return":
                        probs.append(f"{tag}: {r[0]} {str(r[1])[:50]}")
                        continue
                    wrote = sum(len(x) for x in sent if isinstance(x, Buf))
                    if wrote != take or any(isinstance(x, Buf) and len(x) and x.lo != 0 for x in sent) or any(not isinstance(x, Buf) for x in sent):
                        probs.append(f"{tag}: writes {sent} ({wrote} octets), expected the first {take} octet(s) of the chunk")
                    if sum(len(x) for x in processed) != wrote:
                        probs.append(f"{tag}: {sum(len(x) for x in processed)} octets masked but {wrote} written")
                    if r[1] != left - ln:
                        probs.append(f"{tag}: returns {r[1]}, expected {left - ln}")
                    st = t.env.get("self.send_state", t.env["self"].attrs.get("send_state"))
                    want_st = consts["SEND_STATE_INSIDE_MESSAGE"] if p0 + take >= L else consts["SEND_STATE_INSIDE_MESSAGE_FRAME"]
                    if st != want_st:
                        probs.append(f"{tag}: send state afterwards {st}, expected {want_st}")
    except AnalysisError as e:
        raise AnalysisError(f"[C01.9-streaming-frame-data] sendMessageFrameData outside the modelled subset: {e}")
    ctx.ob(f"sendMessageFrameData: exactly the octets that fit the announced frame length are masked and written; the rest is reported, not sent [{n} cells]",
           not probs, "; ".join(probs[:3]), fn.loc())
    ctx.require(n >= 20, f"only {n} cells")


def rule_stream_sequences(ctx):
    """Streaming / frame send API as a whole: histories beginMessage -> (sendMessageFrame | beginMessageFrame + sendMessageFrameData)* -> endMessage,
    evaluated (sa.core.tiny) on one shared protocol state with the real method bodies; what reaches the wire (frame headers written by
    beginMessageFrame, frames handed to sendFrame) must be a well-formed RFC 6455 message: the first frame carries the message opcode (and RSV1
    iff the message is compressed), every further frame is a continuation without RSV bits, exactly the last frame has FIN -- also for the
    message without any frame in between (the empty message)."""
    from ..core.tiny import Tiny, Sym, Buf
    from .common import inline_private
    ctx.rule("C01.11-streaming-api-frame-sequence")
    cls_ = ctx.program.cls(WSP)
    names = ("beginMessage", "beginMessageFrame", "sendMessageFrameData", "sendMessageFrame", "endMessage")
    fns = {}
    for n_ in names:
        fns[n_] = ctx.program.func(f"{WSP}.{n_}")
        ctx.analysed(fns[n_])
    consts = {}
    for s_ in cls_.node.body:
        if isinstance(s_, ast.Assign) and len(s_.targets) == 1 and isinstance(s_.targets[0], ast.Name) and isinstance(s_.value, ast.Constant) and isinstance(s_.value.value, int):
            consts[s_.targets[0].id] = s_.value.value
    ctx.require("STATE_OPEN" in consts and "SEND_STATE_GROUND" in consts and "MESSAGE_TYPE_BINARY" in consts, "protocol constants not found")
    inl = inline_private(ctx, cls_, exclude=("sendData", "sendFrame") + names)
    histories = [("no frame at all (empty message)", []),
                 ("one frame of 5 octets", [("sendMessageFrame", 5)]),
                 ("an empty frame, then 3 octets", [("sendMessageFrame", 0), ("sendMessageFrame", 3)]),
                 ("a frame announced with beginMessageFrame(4) and filled by sendMessageFrameData", [("beginMessageFrame", 4), ("sendMessageFrameData", 4)])]
    probs = []
    n = 0
    try:
        for what, steps in histories:
            for binary in (False, True):
                for compressed in (False, True):
                    wire = []   # ("frame", opcode, fin, rsv1) | ("data", n)
                    ptr = [0]

                    def mk_masker():
                        ptr[0] = 0

                        def process(x):
                            ptr[0] += len(x)
                            return x
                        return Sym("masker", methods={"pointer": lambda: ptr[0], "process": process})

                    def oracle(fname, args, kwargs=None):
                        kw = kwargs or {}
                        if fname == "self.sendFrame":
                            b_ = dict(zip(("opcode", "payload", "fin", "rsv"), args))
                            b_.update(kw)
                            wire.append(("frame", b_.get("opcode"), bool(b_.get("fin", True)), b_.get("rsv", 0)))
                            return None
                        if fname == "self.sendData":
                            d = args[0] if args else None
                            if isinstance(d, tuple) and len(d) == 2 and d[0] == "joined" and d[1] and all(isinstance(x_, bytes) or (isinstance(x_, Buf) and len(x_) == 0) for x_ in d[1]):
                                d = b"".join(x_ for x_ in d[1] if isinstance(x_, bytes))   # header assembled from octets and empty parts
                            if isinstance(d, bytes) and len(d) >= 2:
                                wire.append(("frame", d[0] & 0x0F, bool(d[0] & 0x80), (d[0] >> 4) & 7))
                            elif isinstance(d, (Buf, bytes)):
                                wire.append(("data", len(d)))
                            else:
                                wire.append(("?", d))
                            return None
                        if fname in ("XorMaskerNull", "create_xor_masker"):
                            return mk_masker()
                        return Sym(f"<{fname}>")
                    comp = Sym("compressor", methods={"start_compress_message": lambda: None, "compress_message_data": lambda x: x,
                                                      "end_compress_message": lambda: Buf(100, 101)}) if compressed else None
                    env = {"self": Sym("protocol"), "self.state": consts["STATE_OPEN"], "self.send_state": consts["SEND_STATE_GROUND"], "self.send_compressed": False,
                           "self._perMessageCompress": comp, "self.factory": Sym("factory", isServer=True), "self.maskServerFrames": False, "self.maskClientFrames": True,
                           "self.applyMask": True, "self.log": Sym("log"),
                           "self.trafficStats": Sym("stats", outgoingOctetsAppLevel=0, outgoingOctetsWebSocketLevel=0, outgoingWebSocketFrames=0, outgoingWebSocketMessages=0),
                           "WebSocketProtocol": Sym("class WebSocketProtocol", **consts)}
                    env.update({f"WebSocketProtocol.{k_}": v_ for k_, v_ in consts.items()})
                    calls = [("beginMessage", {"isBinary": binary})] + [(m_, a_) for m_, a_ in steps] + [("endMessage", {})]
                    tag = f"{'binary' if binary else 'text'} message{', compressed' if compressed else ''}: beginMessage, {what}, endMessage"
                    failed = None
                    off = 0
                    for m_, a_ in calls:
                        fn = fns[m_]
                        prm = fn.params()[1:]
                        d_ = fn.node.args.defaults
                        bind = {p_: (ast.literal_eval(dv) if isinstance(dv, ast.Constant) else None) for p_, dv in zip(prm[len(prm) - len(d_):], d_)}
                        if isinstance(a_, dict):
                            bind.update(a_)
                        elif m_ == "beginMessageFrame":
                            bind[prm[0]] = a_
                        else:
                            bind[prm[0]] = Buf(off, off + a_)
                            off += a_
                        e2 = dict(env)
                        e2.update(bind)
                        body = [x for x in fn.node.body if not (isinstance(x, ast.Expr) and isinstance(x.value, ast.Constant))]
                        t = Tiny(e2, default_call=oracle, inline_self=inl, opaque_globals=True, model_strings=True, model_types=True)
                        r = t.run(body)
                        env = {k_: v_ for k_, v_ in t.env.items() if k_ not in bind}
                        if r[0] == "raise":
                            failed = f"{m_}() raises {str(r[1])[:50]}"
                            break
                    n += 1
                    if failed:
                        probs.append(f"{tag}: {failed}")
                        continue
                    frames = [w for w in wire if w[0] == "frame"]
                    if any(w[0] == "?" for w in wire):
                        probs.append(f"{tag}: writes something the model cannot read as header or payload: {[w for w in wire if w[0] == '?'][:1]}")
                        continue
                    want_op = consts["MESSAGE_TYPE_BINARY"] if binary else consts["MESSAGE_TYPE_TEXT"]
                    if not frames:
                        probs.append(f"{tag}: no frame written")
                    elif frames[0][1] != want_op:
                        probs.append(f"{tag}: first frame on the wire has opcode {frames[0][1]}, expected {want_op} (a continuation frame outside a message is a protocol violation at the peer)")
                    elif bool(frames[0][3] & 4) != compressed or frames[0][3] & 3:
                        probs.append(f"{tag}: first frame has RSV {frames[0][3]}, expected {'4 (RSV1)' if compressed else '0'}")
                    elif any(f_[1] != 0 or f_[3] for f_ in frames[1:]):
                        probs.append(f"{tag}: a later frame is not a plain continuation: {frames[1:]}")
                    elif [f_[2] for f_ in frames] != [False] * (len(frames) - 1) + [True]:
                        probs.append(f"{tag}: FIN flags {[f_[2] for f_ in frames]}, expected only the last frame final")
                    st = env.get("self.send_state")
                    if st != consts["SEND_STATE_GROUND"]:
                        probs.append(f"{tag}: send state afterwards {st}, expected ground ({consts['SEND_STATE_GROUND']})")
    except AnalysisError as e:
        raise AnalysisError(f"[C01.11-streaming-api-frame-sequence] streaming send API outside the modelled subset: {e}")
    ctx.ob(f"beginMessage .. endMessage: the frames written form one well-formed message (opcode / RSV1 on the first frame only, FIN on the last only), "
           f"also with no frame in between [{n} histories]", not probs, "; ".join(probs[:3]), fns["endMessage"].loc())
    ctx.require(n >= 16, f"only {n} histories")


def run(ctx):
    # "identical payload bytes ... with any compression setting": each message is inflated with the PEER direction's context-takeover flag and
    # window (cells shared with C12.8 / C16.4)
    from .c16 import rule_message_start
    rule_message_start(ctx, "C01.12-inflater-follows-the-peer-direction")
    rule_stream_frame_data(ctx)
    rule_stream_sequences(ctx)
    rule_length_coding(ctx)
    rule_header_bits(ctx)
    rule_fragment_loops(ctx)
    rule_buffer_splits(ctx)
    rule_send_queue(ctx)
    rule_adapters(ctx)
    rule_prepared(ctx)
    from .c02 import rule_progress, rule_frame_end
    rule_progress(ctx, "C01.7-complete-frames-need-no-further-octets")
    # reassembly: a fragmented message with control frames between its fragments (RFC 6455 5.4) must still arrive whole
    rule_frame_end(ctx, "C01.10-reassembly-across-interleaved-control-frames")
