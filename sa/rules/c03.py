"""C03 - WAMP messages survive every serializer unchanged (structural agreement of marshal/parse and of the batching codecs)."""
import ast
import struct

from ..core.index import AnalysisError, walk_no_defs, calls_in, call_name, dotted_name
from ..core.cfg import node_calls
from ..core import norm
from ..core.flow import bound_arg
from .common import get_analysis, is_self_attr, stmt_key

META = {
    "explanation": "Writer/reader table agreement per message class: marshal()/marshal_options() are reduced to `key -> (attribute, guard)` "
                   "and `position -> attribute` tables, parse() to `key/position -> constructor parameter` tables (following locals to "
                   "the constructor call); tables must agree key-for-key, each guard must test the field it emits, a truthiness guard "
                   "must not drop an admissible falsy value, every list shape marshal can emit has a length parse accepts. Plus: "
                   "MESSAGE_TYPE_MAP covers every Message subclass under its own code, batching codecs of the object serializers "
                   "(suffix/split, length prefix/unpack) agree, the binary flag is the object serializer's BINARY, JSON bytes convention.",
    "assumptions": ["value-level fidelity of json/msgpack/cbor2/bjdata is third-party code at run time: not decided",
                    "empty args/kwargs/payload are omitted on the wire by design (WAMP treats absent and empty alike): not flagged"],
}

MSGMOD = "autobahn.wamp.message"


# (key, other field) pairs where emitting `key` legitimately depends on `other` (confirmed by reading marshal and parse):
FOREIGN_GUARD_OK = {
    ("enc_algo", "payload"), ("enc_key", "payload"), ("enc_serializer", "payload"),  # describe the opaque payload; parse reads them only with one
    ("reason", "registration"), ("registration", "reason"),  # Unregistered: details emitted when either is set (disjunction)
    ("reason", "subscription"), ("subscription", "reason"),  # Unsubscribed: same
}


def _classes(ctx):
    m = ctx.program.module(MSGMOD)
    base = m.classes["Message"]
    return m, [c for c in m.classes.values() if base in ctx.program.mro(c) and c is not base and "parse" in c.methods and "marshal" in c.methods]


def self_attrs(e):
    out = []
    for x in ast.walk(e):
        if is_self_attr(x) and isinstance(x.ctx, ast.Load):
            out.append(x.attr)
    return out


def _writer_functions(c):
    """marshal(), marshal_options() and the private helpers of the class they call (a details/options dict built in an extracted
    method is still part of what marshal writes)"""
    names = ["marshal_options", "marshal"]
    seen = set(names)
    work = list(names)
    while work:
        fn = c.methods.get(work.pop())
        if fn is None:
            continue
        for call in calls_in(fn.node):
            f = call.func
            if isinstance(f, ast.Attribute) and isinstance(f.value, ast.Name) and f.value.id == "self" and f.attr.startswith("_") and not f.attr.startswith("__") \
                    and f.attr in c.methods and f.attr not in seen:
                seen.add(f.attr)
                names.insert(0, f.attr)
                work.append(f.attr)
    return names


def _is_dict_builder_call(c, v):
    return isinstance(v, ast.Call) and isinstance(v.func, ast.Attribute) and isinstance(v.func.value, ast.Name) and v.func.value.id == "self" \
        and v.func.attr in _writer_functions(c) and v.func.attr != "marshal"


def writer_table(ctx, c):
    """key -> list of (attrs in value, guard facts, node, fn); positions: list of shapes (list of element texts)."""
    an = get_analysis(ctx)
    keys = {}
    shapes = []
    for name in _writer_functions(c):
        fn = c.methods.get(name)
        if fn is None:
            continue
        ctx.analysed(fn)
        g, mf, res = an.get(fn)
        from .common import local_canon, _Subst
        import copy as _copy
        _canon = local_canon(fn)

        def self_attrs_c(e):
            """attributes of self the value is computed from, single-definition locals expanded (`reason = self.reason; d["reason"] = reason`)"""
            return self_attrs(_Subst(_canon).visit(ast.Expression(body=_copy.deepcopy(e))).body)
        for n in g.stmt_nodes():
            if n.kind != "stmt":
                continue
            a = n.ast
            if isinstance(a, ast.Assign) and len(a.targets) == 1 and isinstance(a.targets[0], ast.Subscript) and isinstance(a.targets[0].value, ast.Name) \
                    and isinstance(a.targets[0].slice, ast.Constant) and isinstance(a.targets[0].slice.value, str):
                attrs = self_attrs_c(a.value)
                if not attrs:
                    # container created empty and filled in a loop over an attribute: d["k"] = {}; for x in self.f...: d["k"][..] = ..
                    base = norm.text(a.targets[0])
                    for loop in walk_no_defs(fn.node):
                        if isinstance(loop, ast.For) and any(isinstance(x, ast.Subscript) and isinstance(x.ctx, ast.Store) and norm.text(x).startswith(base + "[") for x in ast.walk(loop)):
                            attrs += self_attrs(loop.iter)
                keys.setdefault(a.targets[0].slice.value, []).append((attrs, mf.at(n) or frozenset(), a, fn))
            if isinstance(a, ast.Assign) and isinstance(a.value, ast.Dict) and isinstance(a.targets[0], ast.Name):
                for k, v in zip(a.value.keys, a.value.values):
                    if isinstance(k, ast.Constant) and isinstance(k.value, str):
                        attrs = self_attrs(v)
                        if not attrs:
                            base = f"{a.targets[0].id}[{k.value!r}]"
                            for loop in walk_no_defs(fn.node):
                                if isinstance(loop, ast.For) and any(isinstance(x, ast.Subscript) and isinstance(x.ctx, ast.Store) and norm.text(x).startswith(base + "[") for x in ast.walk(loop)):
                                    attrs += self_attrs(loop.iter)
                        keys.setdefault(k.value, []).append((attrs, mf.at(n) or frozenset(), a, fn))
            if isinstance(a, ast.Return) and isinstance(a.value, ast.List) and name == "marshal":
                shapes.append(([e for e in a.value.elts], mf.at(n) or frozenset(), a))
    return keys, shapes


def reader_table(ctx, c):
    """key -> set of ctor params; position -> set of ctor params; plus the dict variable names."""
    fn = c.methods["parse"]
    ctx.analysed(fn)
    ctor = [x for x in calls_in(fn.node) if isinstance(x.func, ast.Name) and x.func.id in (c.name, "cls")]
    ctx.require(len(ctor) == 1, f"{c.name}.parse: constructor call not found")
    init = ctx.program.lookup_method(c, "__init__")
    params = init.params()[1:]
    bind = {}
    for i, a in enumerate(ctor[0].args):
        if i < len(params):
            bind[params[i]] = a
    for k in ctor[0].keywords:
        bind[k.arg] = k.value
    assigns = {}
    for s in walk_no_defs(fn.node):
        if isinstance(s, ast.Assign):
            for t in s.targets:
                if isinstance(t, ast.Name):
                    assigns.setdefault(t.id, []).append(s.value)
                elif isinstance(t, ast.Subscript) and isinstance(t.value, ast.Name):
                    # X[k] = v feeds X (containers built element by element); the key expression matters too
                    assigns.setdefault(t.value.id, []).append(s.value)
                    assigns.setdefault(t.value.id, []).append(t.slice)
        elif isinstance(s, ast.For) and isinstance(s.target, ast.Name):
            assigns.setdefault(s.target.id, []).append(s.iter)

    def sources(e, depth=0, seen=None):
        """('key', k) / ('pos', i) items reachable backwards from expression e."""
        seen = seen if seen is not None else set()
        out = set()
        for x in ast.walk(e):
            if isinstance(x, ast.Subscript) and isinstance(x.slice, ast.Constant) and isinstance(x.value, ast.Name):
                if x.value.id == "wmsg" and isinstance(x.slice.value, int):
                    out.add(("pos", x.slice.value))
                elif isinstance(x.slice.value, str):
                    out.add(("key", x.slice.value, x.value.id))
            elif isinstance(x, ast.Call) and isinstance(x.func, ast.Attribute) and x.func.attr == "get" and x.args and isinstance(x.args[0], ast.Constant) \
                    and isinstance(x.func.value, ast.Name) and isinstance(x.args[0].value, str):
                out.add(("key", x.args[0].value, x.func.value.id))
            elif isinstance(x, ast.Name) and isinstance(x.ctx, ast.Load) and x.id in assigns and x.id not in seen and depth < 6 and x.id != "wmsg":
                seen.add(x.id)
                for v in assigns[x.id]:
                    out |= sources(v, depth + 1, seen)
        return out

    keys, pos = {}, {}
    dicts = {v for v, vals in assigns.items() for e in vals if isinstance(e, ast.Call) and call_name(e) == "check_or_raise_extra" and e.args and
             isinstance(e.args[0], ast.Subscript) and norm.text(e.args[0].value) == "wmsg"}
    for p, e in bind.items():
        for src in sources(e):
            if src[0] == "pos":
                pos.setdefault(src[1], set()).add(p)
            elif src[2] in dicts:
                keys.setdefault(src[1], set()).add(p)
    return keys, pos, dicts, init, fn


def falsy_admissible(ctx, init, param):
    """Does the constructor admit a falsy non-None value for `param`? (from `assert p is None or type(p) == T`)."""
    for s in walk_no_defs(init.node):
        if isinstance(s, ast.Assert):
            at = norm.atoms(s.test, False)  # what holds if the assert FAILS
            txt = norm.text(s.test)
            if txt.startswith(f"{param} is None or type({param}) == "):
                t = txt.rsplit("== ", 1)[1]
                # an enumeration assert (`p is None or p in [...]`) makes the empty string inadmissible
                enum = any(isinstance(s2, ast.Assert) and norm.text(s2.test).startswith((f"{param} is None or {param} in ", f"{param} in ")) for s2 in walk_no_defs(init.node))
                if enum and t == "str":
                    return False, t
                return t in ("bool", "int", "str", "list", "dict", "bytes", "float"), t
            if txt.startswith(f"{param} is None or type({param}) in"):
                return True, "several"
    return False, None


def rule_tables(ctx):
    ctx.rule("C03.1-marshal-parse-agreement")
    m, classes = _classes(ctx)
    ctx.require(len(classes) >= 25, f"only {len(classes)} message classes found")
    from .c08 import rule_flow as _c08_flow  # accepted lengths come from the C08 interpretation
    if not hasattr(ctx, "_c08"):
        sub_obl = (ctx.obligations, ctx.discharged, list(ctx.findings), dict(ctx.per_rule), list(ctx.samples))
        _c08_flow(ctx)
        ctx.obligations, ctx.discharged, ctx.findings, ctx.per_rule, ctx.samples = sub_obl
        ctx.rule("C03.1-marshal-parse-agreement")
    for c in classes:
        wkeys, shapes = writer_table(ctx, c)
        rkeys, rpos, dicts, init, pfn = reader_table(ctx, c)
        mfn = c.methods["marshal"]
        # key sets
        skip = set()
        ctx.ob(f"{c.name}: marshal and parse know the same option/detail keys", set(wkeys) == set(rkeys),
               f"written but not read: {sorted(set(wkeys) - set(rkeys))}; read but not written: {sorted(set(rkeys) - set(wkeys))}", mfn.loc())
        for k in sorted(set(wkeys) & set(rkeys)):
            for attrs, facts, node, wfn in wkeys[k]:
                params = rkeys[k]
                ok = bool(set(attrs) & params) or (not attrs and False)
                ctx.ob(f"{c.name}: key '{k}' written from the attribute it is parsed into", ok,
                       f"marshal writes '{k}' from self.{'/'.join(attrs) or '?'} but parse stores it in {sorted(params)}", wfn.loc(node))
                own = [a for a in attrs if a in params]
                gattrs = set()
                for f in facts:
                    for mnt in norm.mentions(f):
                        if mnt.startswith("self."):
                            gattrs.add(mnt[5:].split(".")[0].split("[")[0])
                if gattrs and own:
                    ctx.ob(f"{c.name}: key '{k}' is guarded by its own field", bool(set(own) & gattrs),
                           f"'{k}' (from self.{own[0]}) is emitted only when self.{'/'.join(sorted(gattrs))} is set: the field is lost when that other field is absent",
                           wfn.loc(node))
                foreign = sorted(x for x in gattrs - set(own) if (k, x) not in FOREIGN_GUARD_OK)
                if own:
                    ctx.ob(f"{c.name}: key '{k}' does not depend on another field being set", not foreign,
                           f"'{k}' (from self.{own[0]}) is emitted only under a condition on self.{'/'.join(foreign)}: a message carrying {own[0]} "
                           f"without {'/'.join(foreign)} comes back without it", wfn.loc(node))
                for a in own:
                    if ("truth", f"self.{a}", None, True) in facts:
                        adm, t = falsy_admissible(ctx, init, a)
                        ctx.ob(f"{c.name}: key '{k}' guard keeps admissible falsy values", not adm,
                               f"`if self.{a}:` drops the admissible value {'False' if t == 'bool' else '0' if t == 'int' else 'empty ' + str(t)}: "
                               f"{c.name}({a}=<falsy>) comes back with {a}=None", wfn.loc(node))
        # positions
        for elts, facts, node in shapes:
            for i, e in enumerate(elts):
                if i == 0:
                    ok = norm.text(e).endswith("MESSAGE_TYPE")
                    ctx.ob(f"{c.name}: shape of length {len(elts)} starts with the type code", ok, f"first element {norm.text(e)}", mfn.loc(node))
                    continue
                attrs = self_attrs(e)
                if _is_dict_builder_call(c, e):
                    ctx.ob(f"{c.name}: position {i} of the length-{len(elts)} shape is the options/details dict", True)
                    continue
                if isinstance(e, ast.Name) and not attrs:
                    # local (options/details dict or converted payload)
                    vals = [s.value for s in walk_no_defs(mfn.node) if isinstance(s, ast.Assign) and any(isinstance(t, ast.Name) and t.id == e.id for t in s.targets)]
                    attrs = [a for v in vals for a in self_attrs(v)]
                    if any(_is_dict_builder_call(c, v) for v in vals) or any(isinstance(v, ast.Dict) for v in vals):
                        ctx.ob(f"{c.name}: position {i} of the length-{len(elts)} shape is the options/details dict", i not in rpos or True, "", mfn.loc(node))
                        continue
                params = rpos.get(i, set())
                ok = bool(set(attrs) & params)
                ctx.ob(f"{c.name}: position {i} of the length-{len(elts)} shape is parsed into the field it was written from", ok,
                       f"marshal puts self.{'/'.join(attrs) or norm.text(e)} at position {i}, parse stores position {i} in {sorted(params) or 'nothing'}", mfn.loc(node))
        # shapes vs accepted lengths
        it, ret_states = ctx._c08[c.name]
        lens = set()
        for rs in ret_states:
            lens |= set(rs.get("@len:wmsg") or ())
        for elts, facts, node in shapes:
            ctx.ob(f"{c.name}: emitted shape of length {len(elts)} is accepted by parse", len(elts) in lens, f"parse accepts lengths {sorted(lens)}", mfn.loc(node))
    ctx.floor("C03.1-marshal-parse-agreement", 300)


def rule_type_map(ctx):
    ctx.rule("C03.2-message-type-map")
    m = ctx.program.module(MSGMOD)
    base = m.classes["Message"]
    ser = ctx.program.cls("autobahn.wamp.serializer.Serializer")
    mp = ser.consts.get("MESSAGE_TYPE_MAP")
    ctx.require(isinstance(mp, ast.Dict), "Serializer.MESSAGE_TYPE_MAP dict literal not found")
    entries = {}
    for k, v in zip(mp.keys, mp.values):
        kc = ctx.program.resolve_name(ser.module, k.value) if isinstance(k, ast.Attribute) else None
        vc = ctx.program.resolve_name(ser.module, v)
        ok = kc is not None and vc is not None and kc is vc and isinstance(k, ast.Attribute) and k.attr == "MESSAGE_TYPE"
        ctx.ob(f"map entry {norm.text(k)} -> {norm.text(v)} maps a class's own code to that class", ok, "key and value name different classes", ser.loc(k))
        if vc is not None:
            entries[vc.name] = vc
    codes = {}
    for c in m.classes.values():
        if base in ctx.program.mro(c) and c is not base:
            try:
                code = ctx.program.class_const(c, "MESSAGE_TYPE")
            except KeyError:
                code = None
            if isinstance(code, int):
                ctx.ob(f"{c.name} (code {code}) is in MESSAGE_TYPE_MAP", c.name in entries, "message class missing from the dispatch map: its messages are rejected as unknown", c.loc())
                ctx.ob(f"{c.name}: type code {code} unique", code not in codes, f"code shared with {codes.get(code)}", c.loc())
                codes[code] = c.name
    ctx.require(len(codes) >= 25, "fewer than 25 message classes with integer MESSAGE_TYPE")


def rule_batching(ctx):
    ctx.rule("C03.3-batching-codec-agreement")
    sm = ctx.program.module("autobahn.wamp.serializer")
    objs = [c for c in sm.classes.values() if c.name.endswith("ObjectSerializer") and "serialize" in c.methods and "unserialize" in c.methods
            and not c.name.startswith("FlatBuffers")]  # FlatBuffers has its own framing and is not one of the four transport serializers of the statement
    ctx.require(len(objs) >= 4, f"only {len(objs)} object serializers found")
    for c in objs:
        s, u = c.methods["serialize"], c.methods["unserialize"]
        ctx.analysed(s, u)
        try:
            binary = ctx.program.class_const(c, "BINARY")
        except KeyError:
            binary = None
        ctx.ob(f"{c.name}: BINARY flag declared", isinstance(binary, bool), "BINARY missing", c.loc())
        packs = [x for x in calls_in(s.node) if call_name(x) == "struct.pack"]
        unpacks = [x for x in calls_in(u.node) if call_name(x) == "struct.unpack"]
        if c.name.startswith("Json"):
            ctx.ob(f"{c.name}: text serializer", binary is False, "JSON must report BINARY = False", c.loc())
            # suffix vs split
            suf = [x for x in ast.walk(s.node) if isinstance(x, ast.BinOp) and isinstance(x.op, ast.Add) and isinstance(x.right, ast.Constant) and isinstance(x.right.value, bytes)]
            spl = [x for x in calls_in(u.node) if isinstance(x.func, ast.Attribute) and x.func.attr == "split" and x.args and isinstance(x.args[0], ast.Constant)]
            ok = len(suf) == 1 and len(spl) == 1 and suf[0].right.value == spl[0].args[0].value and len(suf[0].right.value) == 1
            ctx.ob(f"{c.name}: batch delimiter appended == delimiter split on", ok,
                   f"appended {suf[0].right.value if suf else None!r}, split on {spl[0].args[0].value if spl else None!r}", s.loc())
            # split(...)[:-1] drops the empty tail after the last delimiter
            tail = [x for x in ast.walk(u.node) if isinstance(x, ast.Subscript) and isinstance(x.value, ast.Call) and x.value in spl and isinstance(x.slice, ast.Slice)]
            okt = len(tail) == 1 and tail[0].slice.lower is None and norm.text(tail[0].slice.upper) == "-1"
            ctx.ob(f"{c.name}: the empty chunk after the last delimiter is dropped (and nothing else)", okt, "chunk selection changed", u.loc())
        else:
            ctx.ob(f"{c.name}: binary serializer", binary is True, "binary serializer must report BINARY = True", c.loc())
            unpacks = [x for x in calls_in(u.node) if call_name(x) in ("struct.unpack", "struct.unpack_from")]
            okp = len(packs) == 1 and len(unpacks) == 1 and isinstance(packs[0].args[0], ast.Constant) and isinstance(unpacks[0].args[0], ast.Constant) \
                and packs[0].args[0].value == unpacks[0].args[0].value
            ctx.ob(f"{c.name}: batch length prefix packed and unpacked with the same format", okp,
                   f"pack {[norm.text(x.args[0]) for x in packs]} / unpack {[norm.text(x.args[0]) for x in unpacks]}", s.loc())
            if okp:
                w = struct.calcsize(packs[0].args[0].value)
                ctx.ob(f"{c.name}: prefix carries len(payload)", norm.text(packs[0].args[1]).startswith("len("), f"packs {norm.text(packs[0].args[1])}", s.loc())
                _batch_loop(ctx, c, u, w)


class _Bad(Exception):
    pass


def _batch_loop(ctx, c, u, w):
    """Cell-wise evaluation of the batched branch of unserialize() on batches of records [prefix(w) + body(L_k)]: every record's
    body reaches the decoder exactly once, in order; truncated input and trailing garbage are errors."""
    from ..core.tiny import Tiny, Buf
    branch = [x for x in walk_no_defs(u.node) if isinstance(x, ast.If) and norm.text(x.test) == "self._batched"]
    ctx.require(len(branch) == 1, f"{c.name}.unserialize: `if self._batched` branch not found")
    body = branch[0].body
    pay = u.params()[1]
    problems = []
    cases = [[0], [3], [0, 2], [5, 1, 0], [2, 2], [1, 4, 3]]
    try:
        for lens in cases:
            for extra in (0, 2, -1):
                starts, pos = [], 0
                for L in lens:
                    starts.append(pos)
                    pos += w + L
                N = pos + extra if extra >= 0 else pos - 1
                if N < 0:
                    continue

                def length_at(off, lens=lens, starts=starts):
                    if off in starts:
                        return lens[starts.index(off)]
                    return 1000  # garbage read as a length: larger than anything available

                def unpack(fmt, buf):
                    if not isinstance(buf, Buf) or len(buf) != w:
                        raise _Bad(f"length prefix read from {buf}")
                    return (length_at(buf.lo),)

                def unpack_from(fmt, buf, off=0):
                    if not isinstance(buf, Buf) or buf.lo != 0:
                        raise _Bad(f"unpack_from on {buf}")
                    return (length_at(off),)
                decoded = []

                def default(fname, args):
                    if len(args) == 1 and isinstance(args[0], Buf):
                        decoded.append(args[0])
                        return ("msg", args[0].lo)
                    raise AnalysisError(f"call {fname}")
                t = Tiny({pay: Buf(0, N), "self._batched": True}, calls={"struct.unpack": unpack, "struct.unpack_from": unpack_from}, default_call=default)
                try:
                    r = t.run(body)
                except _Bad as e:
                    problems.append(f"record lengths {lens}{' + %d trailing octets' % extra if extra > 0 else ' minus 1 octet' if extra < 0 else ''}: {e}")
                    continue
                want = [Buf(a + w, a + w + L) for a, L in zip(starts, lens)]
                if extra == 0:
                    if r[0] != "return" or decoded != want or not isinstance(r[1], list) or len(r[1]) != len(lens):
                        problems.append(f"record lengths {lens}: decoder fed {decoded} (expected {want}), outcome {r[0]}")
                else:
                    if r[0] != "raise":
                        problems.append(f"record lengths {lens} {'with trailing garbage' if extra > 0 else 'truncated by one octet'}: accepted ({r[0]}), decoder fed {decoded}")
        ctx.ob(f"{c.name}: batched unserialize hands every record body to the decoder once, in order, and refuses truncated / trailing octets [{len(cases) * 3} batches]",
               not problems, "; ".join(problems[:2]), u.loc(branch[0]))
    except AnalysisError as e:
        raise AnalysisError(f"[C03.3-batching-codec-agreement] {c.name}.unserialize batched branch outside the modelled subset: {e}")


def rule_binary_flag(ctx):
    ctx.rule("C03.4-binary-flag")
    fn = ctx.program.func("autobahn.wamp.serializer.Serializer.serialize")
    ctx.analysed(fn)
    rets = [s for s in walk_no_defs(fn.node) if isinstance(s, ast.Return) and isinstance(s.value, ast.Tuple)]
    flags = {}
    for s_ in walk_no_defs(fn.node):
        if isinstance(s_, ast.Assign) and isinstance(s_.targets[0], ast.Tuple) and isinstance(s_.value, ast.Tuple):
            for t, v in zip(s_.targets[0].elts, s_.value.elts):
                flags.setdefault(norm.text(t), []).append(norm.text(v))
        elif isinstance(s_, ast.Assign) and isinstance(s_.targets[0], ast.Name):
            flags.setdefault(s_.targets[0].id, []).append(norm.text(s_.value))
    def _flag(e):
        t = norm.text(e)
        return t == "self._serializer.BINARY" or flags.get(t) == ["self._serializer.BINARY"]
    ok = bool(rets) and all(len(r.value.elts) == 2 and _flag(r.value.elts[1]) for r in rets)
    ctx.ob("Serializer.serialize reports the object serializer's BINARY flag", ok, f"returns {[norm.text(r.value) for r in rets]}", fn.loc())
    un = ctx.program.func("autobahn.wamp.serializer.Serializer.unserialize")
    tests = [s for s in walk_no_defs(un.node) if isinstance(s, ast.If) and "isBinary" in norm.mentions_of(s.test) and "self._serializer.BINARY" in norm.mentions_of(s.test)]
    ctx.ob("Serializer.unserialize compares the caller's flag with the same attribute", len(tests) == 1, "changed", un.loc())


def rule_json_bytes(ctx):
    ctx.rule("C03.5-json-bytes-convention")
    sm = ctx.program.module("autobahn.wamp.serializer")
    enc = sm.classes.get("_WAMPJsonEncoder")
    dec = sm.classes.get("_WAMPJsonDecoder")
    ctx.require(enc is not None and dec is not None, "_WAMPJsonEncoder/_WAMPJsonDecoder missing")
    efn = enc.methods.get("default")
    ctx.require(efn is not None, "_WAMPJsonEncoder.default missing")
    ctx.analysed(efn)
    an = get_analysis(ctx)
    g, mf, res = an.get(efn)
    PAIRS = {"b2a_hex": "a2b_hex", "hexlify": "unhexlify", "b64encode": "b64decode"}
    enc_forms = {}
    for n in g.stmt_nodes():
        if n.kind == "stmt" and isinstance(n.ast, ast.Return) and isinstance(n.ast.value, ast.BinOp) and isinstance(n.ast.value.op, ast.Add) \
                and isinstance(n.ast.value.left, ast.Constant) and isinstance(n.ast.value.left.value, str):
            fns = [call_name(c).split(".")[-1] for c in ast.walk(n.ast.value.right) if isinstance(c, ast.Call) and call_name(c) and call_name(c).split(".")[-1] in PAIRS]
            hexmode = norm.is_truthy_known(mf.at(n), "self._use_binary_hex_encoding")
            isb = ("isinst", "obj", "bytes", True) in mf.at(n)
            ctx.ob(f"encoder: prefix form {n.ast.value.left.value!r} only for bytes", isb, "bytes convention applied to non-bytes", efn.loc(n.ast))
            if len(fns) == 1 and hexmode is not None:
                enc_forms[hexmode] = (n.ast.value.left.value, fns[0])
    ctx.require(set(enc_forms) == {True, False}, "JSON encoder hex / base64 branches not found")
    init = dec.methods.get("__init__")
    ps = init.nested().get("_parse_string") if init else None
    ctx.require(ps is not None, "_WAMPJsonDecoder.__init__._parse_string not found")
    ctx.analysed(ps)
    g2, mf2, res2 = an.get(ps)
    dec_forms = {}
    # the scanned string is the first value of the scanstring() call, whatever the local is called
    scans = [x for x in walk_no_defs(ps.node) if isinstance(x, ast.Assign) and isinstance(x.value, ast.Call) and (call_name(x.value) or "").split(".")[-1] == "scanstring"
             and isinstance(x.targets[0], ast.Tuple) and x.targets[0].elts and isinstance(x.targets[0].elts[0], ast.Name)]
    ctx.require(len(scans) == 1, "_parse_string: `<string>, <index> = scanstring(...)` not found")
    sv = scans[0].targets[0].elts[0].id
    for n in g2.stmt_nodes():
        if n.kind == "stmt" and isinstance(n.ast, ast.Assign) and isinstance(n.ast.value, ast.Call):
            fnm = (call_name(n.ast.value) or "").split(".")[-1]
            if fnm not in PAIRS.values():
                continue
            hexmode = norm.is_truthy_known(mf2.at(n), "self._use_binary_hex_encoding")
            arg = n.ast.value.args[0]
            off = arg.slice.lower.value if isinstance(arg, ast.Subscript) and isinstance(arg.slice, ast.Slice) and isinstance(arg.slice.lower, ast.Constant) and arg.slice.upper is None else None
            pref = None
            for f in mf2.at(n):
                if f[0] == "eq" and f[3] and f[2][0] == "c" and isinstance(f[2][1], str) and f[1].startswith(f"{sv}["):
                    pref = (f[1], f[2][1])
            dec_forms[hexmode] = (pref, fnm, off)
    ctx.require(set(dec_forms) == {True, False}, "JSON decoder hex / base64 branches not found")
    for mode in (True, False):
        epref, efn_ = enc_forms[mode]
        (dexpr, dpref), dfn, off = (dec_forms[mode][0] or (None, None)), dec_forms[mode][1], dec_forms[mode][2]
        nm = "hex ('0x')" if mode else "base64 (NUL)"
        ctx.ob(f"{nm}: decoder tests the prefix the encoder writes", dpref == epref, f"encoder prefix {epref!r}, decoder tests {dexpr} == {dpref!r}", ps.loc())
        want = f"{sv}[0:{len(epref)}]" if len(epref) > 1 else f"{sv}[0]"
        ctx.ob(f"{nm}: prefix test covers exactly the prefix", dexpr in (want, f"{sv}[:{len(epref)}]"), f"decoder tests {dexpr}", ps.loc())
        ctx.ob(f"{nm}: decoder strips exactly the prefix", off == len(epref), f"decodes {sv}[{off}:] after a {len(epref)}-character prefix", ps.loc())
        ctx.ob(f"{nm}: decoder applies the inverse of the encoder's function", PAIRS.get(efn_) == dfn, f"{efn_} vs {dfn}", ps.loc())
    # ... and the round trip itself, cell-wise (sa.core.tiny; hex / base64 of the standard library answered by the oracle): what default()
    # writes for a binary value, handed to _parse_string as the scanned JSON string, comes back as that binary value -- the empty one included
    from ..core.tiny import Tiny, Sym, Buf, _to_py, _from_py
    import binascii as _ba
    import base64 as _b64
    probs, ncell = [], 0

    def lib(f_, a_, k_=None):
        short = f_.split(".")[-1]
        arg = _to_py(a_[0]) if a_ else None
        if isinstance(arg, str) and short in ("a2b_hex", "unhexlify", "b64decode"):
            arg = arg.encode("ascii")
        if isinstance(arg, str) and arg == "":
            arg = b""
        try:
            if short in ("b2a_hex", "hexlify"):
                return _from_py(_ba.b2a_hex(arg))
            if short in ("a2b_hex", "unhexlify"):
                lib.decoded = True
                return _from_py(_ba.a2b_hex(arg))
            if short == "b64encode":
                return _from_py(_b64.b64encode(arg))
            if short == "b64decode":
                lib.decoded = True
                return _from_py(_b64.b64decode(arg))
        except Exception as ex:
            from ..core.tiny import TinyRaise
            raise TinyRaise(type(ex).__name__)
        if short == "scanstring":
            return lib.scanned
        if short == "isinstance":
            return isinstance(_to_py(a_[0]), bytes) or (isinstance(a_[0], Buf))
        return Sym(f"<{f_}>")
    try:
        for hexmode in (True, False):
            for b in (b"", b"\x00", b"\x00\xff\x10abc", b"0x"):
                env = {"self": Sym("codec"), "self._use_binary_hex_encoding": hexmode, "self._use_decimal_from_str": False, efn.params()[1]: _from_py(b),
                       "bytes": bytes}
                r1 = Tiny(env, default_call=lib, model_strings=True, model_types=True, opaque_globals=True).run(
                    [x for x in efn.node.body if not (isinstance(x, ast.Expr) and isinstance(x.value, ast.Constant))])
                ncell += 1
                tag = f"{'hex' if hexmode else 'base64'} mode, binary value {b!r}"
                text = _to_py(r1[1]) if r1[0] == "return" else None
                if not isinstance(text, str):
                    probs.append(f"{tag}: encoder gives {r1[0]} {str(r1[1])[:40]}")
                    continue
                lib.scanned = [_from_py(text), 7]
                lib.decoded = False
                env2 = {"self": Sym("codec"), "self._use_binary_hex_encoding": hexmode, "self._use_decimal_from_str": False, "args": [], "kwargs": {}}
                r2 = Tiny(env2, default_call=lib, model_strings=True, model_types=True, opaque_globals=True).run(
                    [x for x in ps.node.body if not (isinstance(x, ast.Expr) and isinstance(x.value, ast.Constant))])
                got = _to_py(r2[1][0]) if r2[0] == "return" and isinstance(r2[1], list) and len(r2[1]) == 2 else None
                if got == "" and lib.decoded:
                    got = b""  # the empty octet string is modelled like the empty text: told apart by whether the inverse function ran
                if not (isinstance(got, bytes) and got == b):
                    probs.append(f"{tag}: written as {text!r}, read back as {got!r} ({r2[0]})")
            for plain in ("abc", "x0"):
                lib.scanned = [plain, 3]
                env2 = {"self": Sym("codec"), "self._use_binary_hex_encoding": hexmode, "self._use_decimal_from_str": False, "args": [], "kwargs": {}}
                r2 = Tiny(env2, default_call=lib, model_strings=True, model_types=True, opaque_globals=True).run(
                    [x for x in ps.node.body if not (isinstance(x, ast.Expr) and isinstance(x.value, ast.Constant))])
                ncell += 1
                if not (r2[0] == "return" and isinstance(r2[1], list) and _to_py(r2[1][0]) == plain):
                    probs.append(f"{'hex' if hexmode else 'base64'} mode, ordinary string {plain!r}: read back as {r2[1]}")
    except AnalysisError as e:
        raise AnalysisError(f"[C03.5-json-bytes-convention] JSON bytes codec outside the modelled subset: {e}")
    ctx.ob(f"JSON bytes convention round trip: what default() writes for a binary value is read back as that value, the empty one included [{ncell} cells]",
           not probs, "; ".join(probs[:2]), ps.loc())
    for q in ("_loads", "_dumps"):
        f = sm.funcs.get(q)
        ctx.require(f is not None, f"{q} missing")
        kws = [k.arg for c in calls_in(f.node) for k in c.keywords]
        ctx.ob(f"{q} passes use_binary_hex_encoding and the WAMP codec class", "use_binary_hex_encoding" in kws and "cls" in kws, f"keywords {kws}", f.loc())


def rule_role_features(ctx):
    """HELLO / WELCOME marshal(): the announced role features.  Cell-wise over one role object holding a feature set to True, one set to False,
    one left None, a private attribute and the ROLE name: exactly the True and the False feature are emitted, with their values -- an
    explicitly disabled feature (False) must survive the round trip (parse() gives it back as False, absence as None)."""
    from ..core.tiny import Tiny, Sym
    ctx.rule("C03.6-role-features-marshalled")
    for cname in ("Hello", "Welcome"):
        fn = ctx.program.func(f"autobahn.wamp.message.{cname}.marshal")
        ctx.analysed(fn)
        body = [x for x in fn.node.body if not (isinstance(x, ast.Expr) and isinstance(x.value, ast.Constant))]
        role = Sym("role-features")
        feats = {"ROLE": "callee", "_private": 1, "on": True, "off": False, "unset": None}
        role.attrs.update(feats)
        role.attrs["__dict__"] = dict(feats)
        env = {"self": Sym("message"), "self.roles": {"callee": role}, f"{cname}.MESSAGE_TYPE": 1, "self.custom": {}}
        for x in ast.walk(fn.node):
            if isinstance(x, ast.Attribute) and isinstance(x.value, ast.Name) and x.value.id == "self" and isinstance(x.ctx, ast.Load):
                env.setdefault(f"self.{x.attr}", None)

        def default(f_, a_, k_=None):
            if f_ == "getattr" and len(a_) >= 2 and a_[0] is role:
                return feats.get(a_[1], a_[2] if len(a_) > 2 else None)
            if f_ == "hasattr" and len(a_) == 2 and a_[0] is role:
                return a_[1] in feats
            return Sym(f"<{f_}>")
        try:
            t = Tiny(env, default_call=default, opaque_globals=True)
            r = t.run(body)
        except AnalysisError as e:
            raise AnalysisError(f"[C03.6-role-features-marshalled] {cname}.marshal outside the modelled subset: {e}")
        got = None
        if r[0] == "return" and isinstance(r[1], list) and r[1] and isinstance(r[1][-1], dict):
            got = r[1][-1].get("roles")
        want = {"callee": {"features": {"on": True, "off": False}}}
        ctx.ob(f"{cname}.marshal: every feature that is set (True or False) is announced with its value; unset (None), private and ROLE attributes are not [1 role, 5 attributes]",
               got == want, f"roles emitted: {got}, expected {want}", fn.loc())


def _is_data_attr(ctx, c, name):
    f_ = ctx.program.lookup_method(c, name)
    return f_ is None or any((isinstance(d, ast.Name) and d.id == "property") or (isinstance(d, ast.Attribute) and d.attr in ("setter", "getter", "deleter"))
                             for d in f_.node.decorator_list)


def rule_payload_marshal_cells(ctx, rule_id, only=None):
    """marshal() of the messages with application payload, evaluated cell-wise (sa.core.tiny) over (args, kwargs, payload) in
    {absent, empty, given}: after the documented fixed prefix the emitted tail must denote exactly the given arguments -- `[]` none,
    `[args]`, `[args, kwargs]` (args as an empty list when only kwargs are given) or `[payload]` in passthru mode.  How the method orders or
    merges its tests is irrelevant; what is decided is that no argument the application gave is dropped and none is invented."""
    import re
    from ..core.tiny import Tiny, Sym, Buf
    ctx.rule(rule_id)
    m, classes = _classes(ctx)
    n_cls = 0
    for c in classes:
        if only is not None and c.name not in only:
            continue
        doc = ast.get_docstring(c.node) or ""
        fmts = [[x.strip() for x in " ".join(mm.group(1).split()).split(",")] for mm in re.finditer(r"``\[(.*?)\]``", doc, re.S)]
        if not any(f[-1].split("|")[-1].strip() == "binary" for f in fmts) or "marshal" not in c.methods:
            continue
        n_cls += 1
        base = len(min(fmts, key=len))
        fn = c.methods["marshal"]
        ctx.analysed(fn)
        body = [s_ for s_ in fn.node.body if not (isinstance(s_, ast.Expr) and isinstance(s_.value, ast.Constant))]
        reads = {x.attr for x in ast.walk(c.node) if isinstance(x, ast.Attribute) and isinstance(x.value, ast.Name) and x.value.id == "self" and isinstance(x.ctx, ast.Load)}
        inl_names = {k_ for k_ in c.methods}

        def inl(name, _c=c):
            f_ = ctx.program.lookup_method(_c, name)
            return f_.node if f_ is not None and name != "marshal" else None
        A, K, B = [Sym("positional")], {"k": Sym("value")}, Buf(0, 4)
        bad = []
        cells = [(a_, k_, None) for a_ in (None, [], A) for k_ in (None, {}, K)] + [(None, None, B), (None, None, Buf(0, 0))]   # the last: a payload of zero octets
        for args, kwargs, payload in cells:
            env = {f"self.{r_}": None for r_ in reads if _is_data_attr(ctx, c, r_)}
            env.update({"self": Sym("message"), "self.args": args, "self.kwargs": kwargs, "self.payload": payload,
                        "self.MESSAGE_TYPE": ctx.program.class_const(c, "MESSAGE_TYPE")})
            for nm, v_ in (("request", 7), ("request_type", 48), ("error", "com.x.error"), ("topic", "com.x.y"), ("procedure", "com.x.y"), ("subscription", 8),
                           ("publication", 9), ("registration", 10)):
                if f"self.{nm}" in env:
                    env[f"self.{nm}"] = v_
            if payload is not None and "self.enc_algo" in env:
                env["self.enc_algo"] = "cryptobox"
            try:
                r = Tiny(env, default_call=lambda f_, a_, k2=None: Sym(f"<{f_}>"), model_types=True, model_strings=True, opaque_globals=True, inline_self=inl).run(body)
            except AnalysisError as e:
                raise AnalysisError(f"[{rule_id}] {c.name}.marshal outside the modelled subset: {e}")
            tag = f"args={args!r}, kwargs={kwargs!r}" + ((", payload given" if len(payload) else ", payload of zero octets given") if payload is not None else "")
            if r[0] != "return" or not isinstance(r[1], list) or len(r[1]) < base:
                bad.append(f"{tag}: marshal {r[0]} {str(r[1])[:60]}")
                continue
            tail = r[1][base:]
            if payload is not None and "self.enc_algo" in env:
                opts = [x_ for x_ in r[1][:base] if isinstance(x_, dict)]
                if not (opts and opts[0].get("enc_algo") == "cryptobox"):
                    bad.append(f"{tag}: the options/details emitted do not name the payload encoding (enc_algo): {opts[:1]}")
            # ... and parse() of the same class must read the emitted tail back into the same arguments (abstract round trip)
            from .c08 import parse_on, doc_prefix
            pr, made = parse_on(ctx, m, c, doc_prefix(ctx, m, c, fmts) + list(tail), rule_tag=rule_id)
            if pr[0] != "return" or len(made) != 1:
                bad.append(f"{tag}: marshal emits the tail {tail}, which parse() answers with {pr[0]} {str(pr[1])[:70]}")
                continue
            got = made[0]
            same = list(got.get("args") or []) == list(args or []) and dict(got.get("kwargs") or {}) == dict(kwargs or {}) and \
                ((got.get("payload") is None) if payload is None else got.get("payload") is payload)
            if not same:
                bad.append(f"{tag}: marshal emits the tail {tail}; the receiver reads args={got.get('args')!r}, kwargs={got.get('kwargs')!r}, payload={got.get('payload')!r}")
            if len(tail) > 2:
                bad.append(f"{tag}: tail {tail} has more than two elements")
        ctx.ob(f"{c.name}: parse(marshal(m)) has the args / kwargs / payload of m -- nothing given is dropped, nothing invented [{len(cells)} cells]", not bad, "; ".join(bad[:2]), fn.loc())
    ctx.require(n_cls >= (1 if only else 7), f"only {n_cls} payload-carrying message classes with a documented format")


def rule_optional_uri(ctx):
    """HELLO may be sent without a realm (the router assigns one): `Hello(None, roles)` marshals to `[1, null, {..}]`.  parse() validates that position
    with `check_or_raise_uri(.., allow_none=True)`; the validator is evaluated (sa.core.tiny; a compiled pattern answers like `re`: TypeError for a
    non-string) on None and on a URI: None must come back as None (not raise), and without allow_none it must be the library's own error."""
    from ..core.tiny import Tiny, Sym, TinyRaise
    ctx.rule("C03.8-optional-realm-survives")
    m, classes = _classes(ctx)
    hello = [c for c in classes if c.name == "Hello"]
    ctx.require(len(hello) == 1, "Hello class not found")
    pf = hello[0].methods["parse"]
    fn = m.funcs.get("check_or_raise_uri")
    ctx.require(fn is not None, "check_or_raise_uri not found")
    ctx.analysed(pf, fn)
    calls = [c_ for c_ in calls_in(pf.node) if call_name(c_) == "check_or_raise_uri" and c_.args and norm.text(c_.args[0]) == "wmsg[1]"]
    ok = len(calls) == 1 and any(k_.arg == "allow_none" and isinstance(k_.value, ast.Constant) and k_.value.value is True for k_ in calls[0].keywords)
    ctx.ob("Hello.parse validates the realm position as an optional URI (allow_none=True)", ok, "realm no longer optional in parse() although marshal() emits null for it", pf.loc())
    names = fn.params()
    dflt = fn.node.args.defaults
    base = {n_: (d_.value if isinstance(d_, ast.Constant) else None) for n_, d_ in zip(names[len(names) - len(dflt):], dflt)}
    body = [x for x in fn.node.body if not (isinstance(x, ast.Expr) and isinstance(x.value, ast.Constant))]
    probs = []

    def default(f_, a_, k_=None):
        if f_.endswith(".match") or f_.endswith(".fullmatch"):
            if not a_ or not isinstance(a_[0], str):
                raise TinyRaise("TypeError")
            return Sym("match")
        return Sym(f"<{f_}>")
    try:
        for value, allow_none, want in ((None, True, ("return", None)), ("com.realm", True, ("return", "com.realm")), (None, False, ("raise", "InvalidUriError")),
                                        ("com.realm", False, ("return", "com.realm"))):
            # module-level names are opaque objects (compiled patterns ...) -- except tables given as displays, which are evaluated as such
            env = {k_: Sym(f"<{k_}>") for k_, v_ in m.consts.items() if not isinstance(v_, (ast.Dict, ast.List, ast.Tuple, ast.Set))}
            env.update(base)
            env.update({names[0]: value, names[1]: "realm", "allow_none": allow_none})
            r = Tiny(env, default_call=default, model_types=True, model_strings=True, opaque_globals=True).run(body)
            got = (r[0], r[1] if r[0] == "return" else str(r[1]).split("(")[0].strip().split(".")[-1])
            if r[0] == "fall":
                got = ("return", None)
            if got != want:
                probs.append(f"check_or_raise_uri({value!r}, allow_none={allow_none}): {got[0]} {got[1]!r}, expected {want[0]} {want[1]!r}")
    except AnalysisError as e:
        raise AnalysisError(f"[C03.8-optional-realm-survives] check_or_raise_uri outside the modelled subset: {e}")
    ctx.ob("the URI validator hands an allowed None back as None (HELLO without a realm can be read back) and refuses it otherwise with the library's own error [4 cells]",
           not probs, "; ".join(probs[:2]), fn.loc())


def rule_forward_for_roundtrip(ctx):
    """A message the library can BUILD must be one it can READ BACK: a forwarding principal without an authid (`authid: None`, which the constructors
    and the documented field type admit) must be accepted by parse() too -- else the marshalled message of a router-to-router link does not survive
    the serializer.  Cell-wise (sa.core.tiny): the constructor's own assertions on forward_for decide which entries can be built; parse() is evaluated
    on the documented message carrying that entry."""
    import re
    from ..core.tiny import Tiny, Sym
    from .c08 import _classes, doc_prefix, parse_on
    ctx.rule("C03.9-forward-for-entries-read-back")
    m, base, classes = _classes(ctx)
    ENTRIES = [("authid 'a'", {"session": 1, "authid": "a", "authrole": "r"}), ("authid None", {"session": 1, "authid": None, "authrole": "r"})]
    n = 0
    for c in classes:
        init = ctx.program.lookup_method(c, "__init__")
        fn = c.methods.get("parse")
        if init is None or fn is None or "forward_for" not in init.params():
            continue
        doc = ast.get_docstring(c.node) or ""
        fmts = [[x.strip() for x in " ".join(mm.group(1).split()).split(",")] for mm in re.finditer(r"``\[(.*?)\]``", doc, re.S)]
        with_dict = [f for f in fmts if any(p_.split("|")[-1].strip() == "dict" for p_ in f)]
        if not with_dict:
            continue
        prefix = doc_prefix(ctx, m, c, [min(with_dict, key=len)])
        dpos = [i for i, v in enumerate(prefix) if isinstance(v, dict)][0]
        checks = [st for st in init.node.body if isinstance(st, (ast.Assert, ast.If, ast.For)) and any(isinstance(x, ast.Name) and x.id == "forward_for" for x in ast.walk(st))]
        ctx.analysed(fn, init)
        for label, entry in ENTRIES:
            try:
                t = Tiny({"self": Sym("message"), "forward_for": [dict(entry)]}, default_call=lambda f_, a_, k_=None: Sym(f"<{f_}>"), model_types=True, opaque_globals=True)
                rc = t.run(checks)
            except AnalysisError as e:
                raise AnalysisError(f"[C03.9-forward-for-entries-read-back] {c.name}.__init__ forward_for assertions outside the modelled subset: {e}")
            if rc[0] == "raise":
                continue   # the library cannot build such a message: nothing to read back
            msg = list(prefix)
            msg[dpos] = {"forward_for": [dict(entry)]}
            r, made = parse_on(ctx, m, c, msg, "C03.9-forward-for-entries-read-back", typed_validators=True)
            n += 1
            ctx.ob(f"{c.name}: a forward_for entry the constructor admits ({label}) is read back by parse()", r[0] == "return",
                   f"{c.name}(..., forward_for=[{entry}]) can be built and marshalled, but parse() answers {r[0]} {str(r[1])[:70]}: the message does not survive the serializer",
                   fn.loc())
    ctx.require(n >= 20, f"only {n} forward_for cells evaluated")


def run(ctx):
    rule_forward_for_roundtrip(ctx)
    rule_optional_uri(ctx)
    rule_payload_marshal_cells(ctx, "C03.7-payload-tail-marshalled")
    rule_role_features(ctx)
    rule_tables(ctx)
    rule_type_map(ctx)
    rule_batching(ctx)
    rule_binary_flag(ctx)
    rule_json_bytes(ctx)
