"""C14 - Components reconnect within their retry budget and finish exactly once (budget arithmetic and wiring)."""
import ast

import numpy as np

from ..core.index import AnalysisError, walk_no_defs, calls_in, call_name, kwarg
from ..core.cfg import CFG, MustFacts, node_calls
from ..core.vec import Vec, Opaque
from ..core.bounds import Bounds
from ..core.flow import CallGraph
from ..core import norm
from .common import get_analysis, is_self_attr, self_call, stmt_key, is_test_module, APPSESSION

COMPONENT = "autobahn.wamp.component.Component"
TRANSPORT = "autobahn.wamp.component._Transport"
TX_COMPONENT = "autobahn.twisted.component.Component"
AIO_COMPONENT = "autobahn.asyncio.component.Component"
OBSERVABLE = "autobahn.util.ObservableMixin"

META = {
    "explanation": "Decision-table extraction of _Transport.can_reconnect()/next_delay() over (failed flag x max_retries x attempts) "
                   "compared with the statement's budget (not failed and (unlimited or attempts <= max_retries); first attempt "
                   "delay 0; next_delay never raises where can_reconnect holds); must-bounds dataflow proving every returned delay "
                   "lies in [0, max_retry_delay]; who-may-write rules for the per-transport counters (one increment per attempt "
                   "dominating the connect, reset only on join, failed() only under the fatal classifier); reachability rules of the "
                   "reconnect loop (attempt only via transport_check -> sleep -> attempt_connect, candidate chosen round-robin under "
                   "can_reconnect, every failure handler re-enters transport_check, exhaustion rejects and returns); guard rules on "
                   "every completion of the per-connection and overall futures; agreement of the event names fired by the session, "
                   "accepted by the component and registered by its decorators; parent wiring for bubbling.",
    "assumptions": ["max_retry_delay is configured non-negative (lower bound of min(.., max_retry_delay))",
                    "exactly-once completion under stop()/timer/connection interleavings, fairness over histories and delays on a "
                    "virtual clock are schedules: not decided"],
}

BUDGET_ATTRS = ("connect_attempts", "connect_sucesses", "connect_failures", "_permanent_failure", "max_retries", "max_retry_delay",
                "initial_retry_delay", "retry_delay_growth", "retry_delay_jitter", "retry_delay")


def closure(fn, path):
    cur = fn
    for name in path.split("."):
        cands = [c for c in cur.nested_list() if c.name == name and _direct_child(cur, c)]
        if not cands:
            raise AnalysisError(f"closure {path} not found in {fn.qualname}")
        cur = cands[0]
    return cur


def _direct_child(parent, c):
    return any(n is c.node for n in walk_no_defs(parent.node, include_defs=True))


# ------------------------------------------------------------------------------------------
def _table(ctx, fn, n, env):
    res = norm.Resolver(ctx.program, fn.module, fn.cls)

    def attr_hook(text, node, mask):
        if text in env:
            return env[text]
        if text.startswith("self."):
            return np.ones(n, dtype=np.float64)
        return NotImplemented

    def call_hook(call, mask, interp):
        for a in call.args:
            interp.eval(a, mask)
        return np.ones(n, dtype=np.float64)

    v = Vec(n, res, attr_hook, call_hook, store_hook=lambda text, val, mask, interp: None)
    v.run(fn.node.body)
    return v


def rule_budget(ctx):
    ctx.rule("C14.1-retry-budget-decision-table")
    p = ctx.program
    can = p.func(f"{TRANSPORT}.can_reconnect")
    nd = p.func(f"{TRANSPORT}.next_delay")
    ctx.analysed(can, nd)
    # the window is sound when every integer the functions compare with lies well inside it (piecewise-constant verdict)
    consts = set()
    for fn in (can, nd):
        for x in walk_no_defs(fn.node):
            if isinstance(x, ast.Compare):
                for t in [x.left] + list(x.comparators):
                    for y in ast.walk(t):
                        if isinstance(y, ast.Constant) and isinstance(y.value, int) and not isinstance(y.value, bool):
                            consts.add(y.value)
    ctx.require(all(-2 <= c <= 3 for c in consts), f"budget functions compare with constants outside the analysed window: {sorted(consts)}")
    PF, MR, AT = np.meshgrid(np.array([0, 1]), np.arange(-4, 10), np.arange(0, 14), indexing="ij")
    pf, mr, at = PF.ravel().astype(bool), MR.ravel().astype(np.int64), AT.ravel().astype(np.int64)
    n = len(pf)
    env = {"self._permanent_failure": pf, "self.max_retries": mr, "self.connect_attempts": at}
    ref = ~pf & ((mr == -1) | (at <= mr))

    v = _table(ctx, can, n, env)
    got_true = v.retval.get("True", np.zeros(n, bool)).copy()
    got_false = v.retval.get("False", np.zeros(n, bool)).copy()
    for kind, mask, val, st in v.events:
        if kind == "return-expr":
            if isinstance(val, np.ndarray) and val.dtype == bool:
                got_true |= mask & val
                got_false |= mask & ~val
            else:
                ctx.require(False, f"can_reconnect returns a non-boolean expression `{ast.unparse(st)}`")
    decided = got_true | got_false
    ctx.ob("can_reconnect() gives a verdict for every (failed, max_retries, attempts)", bool(decided.all()) and not v.raised.any(),
           f"{int((~decided).sum())} cells without verdict", can.loc())
    bad = np.nonzero(decided & (got_true != ref))[0]
    ex = ""
    if len(bad):
        i = bad[0]
        ex = f"e.g. failed={bool(pf[i])} max_retries={int(mr[i])} attempts={int(at[i])}: {'may' if got_true[i] else 'may not'} reconnect"
    ctx.ob(f"can_reconnect() == not failed and (max_retries == -1 or attempts <= max_retries) ({n} cells)", len(bad) == 0,
           f"{len(bad)} cells differ from the budget, {ex}: more than max_retries+1 attempts, or attempts refused within the budget", can.loc())
    ctx.instances(n)

    w = _table(ctx, nd, n, env)
    zero = w.retval.get("0", np.zeros(n, bool)) | w.retval.get("0.0", np.zeros(n, bool))
    other = w.returned & ~zero
    ctx.ob("next_delay(): first attempt of a transport (attempts == 0) is made without delay", bool((zero == (at == 0)).all()),
           f"{int((zero != (at == 0)).sum())} cells: delay 0 returned iff attempts == 0 does not hold", nd.loc())
    ctx.ob("next_delay() never raises where can_reconnect() allows the attempt", not bool((w.raised & ref).any()),
           f"{int((w.raised & ref).sum())} cells raise although the budget allows the attempt (the reconnect loop would die in transport_check)", nd.loc())
    ctx.ob("next_delay() returns or raises on every path", bool((w.returned | w.raised).all()) and not (w.retval.get("None", np.zeros(n, bool))).any(),
           "a path falls off the end / returns None as delay", nd.loc())
    ctx.instances(n)

    # every returned delay within [0, max_retry_delay]
    g = CFG(nd.node)
    b = Bounds(g, assume_lo={"self.max_retry_delay": 0})
    rets = [x for x in g.stmt_nodes() if x.kind == "stmt" and isinstance(x.ast, ast.Return)]
    ctx.require(len(rets) >= 2, "next_delay: return statements not found")
    for r in rets:
        st = b.at(r)
        if st is None or r.ast.value is None:
            continue
        bb = b.of(r.ast.value, st)
        hi_ok = "self.max_retry_delay" in bb.hi_e or (bb.hi_c is not None and bb.hi_c <= 0)
        lo_ok = bb.lo_c is not None and bb.lo_c >= 0
        ctx.ob(f"next_delay(): `{stmt_key(r.ast)}` is at most max_retry_delay", hi_ok,
               f"no upper clamp to self.max_retry_delay dominates the returned value (bounds {bb})", nd.loc(r.ast))
        ctx.ob(f"next_delay(): `{stmt_key(r.ast)}` is a valid (non-negative) timer delay", lo_ok,
               f"the jittered value can be negative: Twisted's callLater() refuses it, the reconnect loop dies inside transport_check "
               f"and start()'s result never fires (bounds {bb})", nd.loc(r.ast))

    # reset/failed/init
    rs = p.func(f"{TRANSPORT}.reset")
    init = p.func(f"{TRANSPORT}.__init__")
    fl = p.func(f"{TRANSPORT}.failed")
    ctx.analysed(rs, init, fl)
    zeroed = {t.attr for s in walk_no_defs(rs.node) if isinstance(s, ast.Assign) and isinstance(s.value, ast.Constant) and s.value.value == 0
              for t in s.targets if is_self_attr(t)}
    ctx.ob("reset() zeroes connect_attempts", "connect_attempts" in zeroed, f"reset() zeroes {sorted(zeroed)}", rs.loc())
    rd = [s for s in walk_no_defs(rs.node) if isinstance(s, ast.Assign) and any(is_self_attr(t, "retry_delay") for t in s.targets)]
    ctx.ob("reset() restores retry_delay from initial_retry_delay", len(rd) == 1 and is_self_attr(rd[0].value, "initial_retry_delay"),
           "retry_delay not re-initialised", rs.loc())
    pfw = [s for s in walk_no_defs(init.node) if isinstance(s, ast.Assign) and any(is_self_attr(t, "_permanent_failure") for t in s.targets)]
    ctx.ob("a new transport is not failed", len(pfw) == 1 and isinstance(pfw[0].value, ast.Constant) and pfw[0].value.value is False,
           "_permanent_failure not initialised to False", init.loc())
    ctx.ob("a new transport starts with reset counters", any(self_call(c, "reset") for c in calls_in(init.node)), "__init__ does not call reset()", init.loc())
    pff = [s for s in walk_no_defs(fl.node) if isinstance(s, ast.Assign) and any(is_self_attr(t, "_permanent_failure") for t in s.targets)]
    ctx.ob("failed() sets the permanent-failure flag", len(pff) == 1 and isinstance(pff[0].value, ast.Constant) and pff[0].value.value is True,
           "failed() does not set _permanent_failure = True", fl.loc())
    # parameters stored under their own names
    params = {a.arg for a in init.node.args.args}
    for name in ("max_retries", "max_retry_delay", "initial_retry_delay", "retry_delay_growth", "retry_delay_jitter"):
        st = [s for s in walk_no_defs(init.node) if isinstance(s, ast.Assign) and any(is_self_attr(t, name) for t in s.targets)]
        ok = name in params and len(st) == 1 and isinstance(st[0].value, ast.Name) and st[0].value.id == name
        ctx.ob(f"_Transport stores the configured {name}", ok, f"self.{name} is not the constructor argument of that name", init.loc())


# ------------------------------------------------------------------------------------------
def _attr_writes(program, names):
    """(fn, stmt, attr, kind) for every store to <anything>.<attr> with attr in names, in non-test modules."""
    out = []
    for mn, m in program.modules.items():
        if is_test_module(mn):
            continue
        fns = []
        for f in list(m.funcs.values()) + [x for c in m.classes.values() for x in c.methods.values()]:
            fns.append(f)
            stack = list(f.nested_list())
            while stack:
                g = stack.pop()
                fns.append(g)
                stack.extend(g.nested_list())
        for f in fns:
            for s in walk_no_defs(f.node):
                tg = []
                if isinstance(s, ast.Assign):
                    tg = [(t, "=") for t in s.targets]
                elif isinstance(s, ast.AugAssign):
                    tg = [(s.target, "aug")]
                elif isinstance(s, ast.AnnAssign) and s.value is not None:
                    tg = [(s.target, "=")]
                elif isinstance(s, ast.Delete):
                    tg = [(t, "del") for t in s.targets]
                flat = []
                for t, k in tg:
                    if isinstance(t, (ast.Tuple, ast.List)):
                        flat.extend((e, k) for e in t.elts)
                    else:
                        flat.append((t, k))
                for t, k in flat:
                    if isinstance(t, ast.Attribute) and t.attr in names:
                        out.append((f, s, t, k))
                if isinstance(s, ast.Call) and isinstance(s.func, ast.Name) and s.func.id == "setattr" and len(s.args) >= 2 \
                        and isinstance(s.args[1], ast.Constant) and s.args[1].value in names:
                    out.append((f, s, s.args[1], "setattr"))
    return out


def rule_ownership(ctx):
    ctx.rule("C14.2-counter-ownership")
    p = ctx.program
    once = p.func(f"{COMPONENT}._connect_once")
    ctx.analysed(once)
    writes = _attr_writes(p, {"connect_attempts", "_permanent_failure", "max_retries"})
    ctx.require(len(writes) >= 5, "writers of the budget state not found")
    incs = []
    for f, s, t, k in writes:
        if isinstance(t, ast.Attribute) and isinstance(t.value, ast.Name) and t.value.id == "self" and (f.cls is None or f.cls.qualname != TRANSPORT):
            continue  # `self` of another class is not a _Transport (e.g. ApplicationRunner.max_retries)
        where = f.qualname.replace("autobahn.", "")
        if t.attr == "connect_attempts" if isinstance(t, ast.Attribute) else t.value == "connect_attempts":
            if f.qualname == f"{TRANSPORT}.reset":
                ctx.ob(f"connect_attempts written by {where}: reset to 0", k == "=" and isinstance(s.value, ast.Constant) and s.value.value == 0,
                       "reset() must zero the attempt counter", f.loc(s))
            elif f.qualname == once.qualname:
                ok = k == "aug" and isinstance(s.op, ast.Add) and isinstance(s.value, ast.Constant) and s.value.value == 1
                ctx.ob(f"connect_attempts written by {where}: `{stmt_key(s)}` counts one attempt", ok,
                       "the per-attempt increment must be exactly += 1", f.loc(s))
                incs.append(s)
            else:
                ctx.ob(f"connect_attempts written by {where}: `{stmt_key(s)}`", False,
                       "the attempt counter is owned by _Transport.reset() and the single increment in _connect_once: another writer "
                       "changes how many attempts the budget sees", f.loc(s))
        elif (t.attr if isinstance(t, ast.Attribute) else t.value) == "_permanent_failure":
            ok = f.qualname in (f"{TRANSPORT}.__init__", f"{TRANSPORT}.failed")
            ctx.ob(f"_permanent_failure written by {where}", ok, "only __init__ (False) and failed() (True) own the flag", f.loc(s))
        else:
            ok = f.qualname == f"{TRANSPORT}.__init__"
            ctx.ob(f"max_retries written by {where}", ok, "the configured budget is changed after construction", f.loc(s))
    ctx.ob("exactly one increment of connect_attempts per _connect_once", len(incs) == 1, f"{len(incs)} increments", once.loc())
    if len(incs) == 1:
        g = CFG(once.node)
        inc_n = [n for n in g.stmt_nodes() if n.ast is incs[0]]
        conn = [n for n in g.stmt_nodes() for c in node_calls(n) if any(is_self_attr(a, "_connect_transport") for a in c.args) or self_call(c, "_connect_transport")]
        ctx.require(len(conn) == 1 and len(inc_n) == 1, "_connect_once: the _connect_transport hand-off not found")
        ctx.ob("the attempt is counted on every path before the connection is started",
               g.always_preceded_by(conn[0], lambda x: x is inc_n[0]), "a path reaches _connect_transport without counting the attempt", once.loc(conn[0].ast))
        tname = norm.text(incs[0].target.value)
        c = [c for c in node_calls(conn[0])][0]
        ctx.ob("the counted transport is the one being connected", tname in [norm.text(a) for a in c.args] and tname in once.params(),
               f"counter of `{tname}` incremented, other transport connected", once.loc(c))
        in_loop = any(isinstance(x, (ast.For, ast.While)) and any(y is incs[0] for y in ast.walk(x)) for x in walk_no_defs(once.node))
        ctx.ob("the increment is not inside a loop", not in_loop, "increment inside a loop", once.loc(incs[0]))

    # who calls reset() / failed()
    cg = ctx._cg
    rs, fl = p.func(f"{TRANSPORT}.reset"), p.func(f"{TRANSPORT}.failed")
    def attr_call_sites(name):
        out = []
        for f in cg.funcs:
            for c in calls_in(f.node):
                if isinstance(c.func, ast.Attribute) and c.func.attr == name and f.module.name.startswith("autobahn.wamp.component") or \
                        (isinstance(c.func, ast.Attribute) and c.func.attr == name and f.module.name in ("autobahn.twisted.component", "autobahn.asyncio.component")):
                    out.append((f, c))
        return out
    resets = attr_call_sites("reset")
    ctx.require(len(resets) >= 2, "reset() call sites not found")
    for f, c in resets:
        where = f.qualname.replace("autobahn.wamp.component.", "")
        ok = f.qualname == f"{TRANSPORT}.__init__" or (f.name == "on_join" and f.parent is not None and f.parent.name == "create_session")
        ctx.ob(f"reset() called from {where}", ok, "the attempt budget is refilled somewhere else than at construction or at a successful join: "
               "more than max_retries+1 attempts since the last join become possible", f.loc(c))
    oj = closure(once, "create_session.on_join")
    ctx.ob("a successful join refills the budget of the joined transport",
           any(isinstance(c.func, ast.Attribute) and c.func.attr == "reset" and norm.text(c.func.value) == "transport" for c in calls_in(oj.node)),
           "on_join does not reset the transport", oj.loc())
    # "since that transport's last successful join": the listener that refills the budget is attached to EVERY session, whatever else the
    # component was configured with (main function or not), and reaches the reset on every path
    cs = closure(once, "create_session")
    gcs = CFG(cs.node)
    from ..core.cfg import MustFacts as _MF
    mcs = _MF(gcs, resolver=norm.Resolver(p, cs.module, cs.cls))
    regs = [(n, c) for n in gcs.stmt_nodes() for c in node_calls(n) if isinstance(c.func, ast.Attribute) and c.func.attr == "on" and len(c.args) == 2
            and isinstance(c.args[0], ast.Constant) and c.args[0].value == "join" and norm.text(c.args[1]) == oj.name]
    cond = [f for n, c in regs for f in (mcs.at(n) or ()) if any(m.startswith("self._") for m in norm.mentions(f))]
    ctx.ob("the budget-refilling join listener is attached to every session the component creates", len(regs) == 1 and not cond,
           f"registration {'missing' if not regs else 'only under ' + str(cond[:1])}: a component configured without that option counts its attempts across successful "
           f"joins and gives up after max_retries reconnects in total", cs.loc(regs[0][1]) if regs else cs.loc())
    goj = CFG(oj.node)
    rnode = [n for n in goj.stmt_nodes() for c in node_calls(n) if isinstance(c.func, ast.Attribute) and c.func.attr == "reset" and norm.text(c.func.value) == "transport"]
    ctx.ob("the join listener reaches the reset on every path", bool(rnode) and goj.always_followed_by(goj.entry, lambda x: x in rnode, exc=False),
           "a path through on_join skips transport.reset()", oj.loc())
    fails = attr_call_sites("failed")
    ctx.require(len(fails) >= 1, "failed() call site not found")
    for f, c in fails:
        g = CFG(f.node)
        from ..core.cfg import MustFacts
        mf = MustFacts(g, resolver=norm.Resolver(p, f.module, f.cls))
        ctx.ob(f"failed() called from {f.name} only (when the classifier says so: decided cell-wise in C14.3)", f.name == "handle_connect_error",
               "a transport is failed permanently outside the connect-error handler", f.loc(c))


# ------------------------------------------------------------------------------------------
def rule_loop(ctx):
    ctx.rule("C14.3-reconnect-loop")
    p = ctx.program
    cg = ctx._cg
    start = p.func(f"{COMPONENT}._start")
    once = p.func(f"{COMPONENT}._connect_once")
    ctx.analysed(start)
    tc = closure(start, "transport_check")
    ac = closure(start, "attempt_connect")
    hce = closure(start, "attempt_connect.handle_connect_error")
    ce = closure(start, "attempt_connect.connect_error")
    nce = closure(start, "attempt_connect.notify_connect_error")
    sd = closure(start, "attempt_connect.session_done")
    err = closure(start, "error")

    # _connect_once is started only from attempt_connect
    refs = cg.deferred_refs(once)
    calls = cg.callers(once)
    users = {f.qualname for f, _ in refs} | {f.qualname for f, _, _ in calls}
    ctx.ob("_connect_once is started only by attempt_connect", users == {ac.qualname}, f"used from {sorted(users)}", once.loc())
    # attempt_connect runs only as the continuation of the delay armed by transport_check
    arefs = cg.deferred_refs(ac)
    acalls = cg.callers(ac)
    ok = not acalls and len(arefs) == 1 and arefs[0][0].qualname == tc.qualname
    ctx.ob("attempt_connect runs only as continuation of the delay armed by transport_check", ok,
           f"{len(acalls)} direct calls, referenced from {[f.qualname for f, _ in arefs]}", ac.loc())

    # transport_check, evaluated cell by cell: three transports with every pattern of can_reconnect(), the round-robin cycle at every
    # position. Exhausted -> start() is failed and nothing is armed; otherwise the next transport in cyclic order that may still be
    # tried becomes the candidate, its next_delay() is slept and the delay continues with attempt_connect / error.
    from ..core.tiny import Tiny, Sym
    import itertools
    gens = [s_ for s_ in walk_no_defs(start.node) if isinstance(s_, ast.Assign) and isinstance(s_.value, ast.Call) and call_name(s_.value) == "itertools.cycle"]
    ok = len(gens) == 1 and len(gens[0].value.args) == 1 and is_self_attr(gens[0].value.args[0], "_transports") and isinstance(gens[0].targets[0], ast.Name) and \
        not any(isinstance(x, (ast.For, ast.While)) and any(y is gens[0] for y in ast.walk(x)) for x in walk_no_defs(start.node))
    ctx.ob("candidates come round-robin from itertools.cycle(self._transports), created once per start", ok,
           "no single cycle over the configured transports", start.loc(gens[0]) if gens else start.loc())
    ctx.require(ok, "_start: itertools.cycle(self._transports) not found")
    gen_name = gens[0].targets[0].id
    # the holder through which transport_check publishes the chosen transport to attempt_connect / handle_connect_error: what attempt_connect
    # hands to _connect_once -- a one-element list shared by the closures (`holder[0]`) or a variable of _start rebound with `nonlocal`
    co0 = [c for c in calls_in(ac.node) if any(is_self_attr(a, "_connect_once") for a in c.args) or self_call(c, "_connect_once")]
    ctx.require(len(co0) == 1, "attempt_connect: _connect_once hand-off not found")
    outer_names = {t_.id for s_ in walk_no_defs(start.node) if isinstance(s_, ast.Assign) for t_ in s_.targets if isinstance(t_, ast.Name)}
    holder = None
    for a_ in co0[0].args:
        if isinstance(a_, ast.Subscript) and isinstance(a_.value, ast.Name) and a_.value.id in outer_names and isinstance(a_.slice, ast.Constant) and a_.slice.value == 0:
            holder = ("cell", a_.value.id)
        elif isinstance(a_, ast.Name) and a_.id in outer_names and any(isinstance(x, ast.Nonlocal) and a_.id in x.names for x in ast.walk(tc.node)):
            holder = ("nonlocal", a_.id)
    ctx.require(holder is not None, "_start: the candidate holder shared by transport_check and attempt_connect not found")
    cand_kind, cand_name = holder

    def cand_env(value):
        return [value] if cand_kind == "cell" else value

    def cand_get(t_, cellobj):
        return cellobj[0] if cand_kind == "cell" else t_.env.get(cand_name)
    body = [x for x in tc.node.body if not (isinstance(x, ast.Expr) and isinstance(x.value, ast.Constant))]
    problems = []
    try:
        for flags in itertools.product((True, False), repeat=3):
            for k in range(3):
                ts = []
                for i, fl in enumerate(flags):
                    ts.append(Sym(f"transport{i}", idx=i, url=f"ws://t{i}", methods={"can_reconnect": (lambda fl=fl: fl), "next_delay": (lambda i=i: 100 + i)}))
                cyc = itertools.cycle(ts)
                for _ in range(k):
                    next(cyc)
                cell = cand_env(0)
                calls = []

                def default(f_, a_, k_=None):
                    calls.append((f_, list(a_)))
                    if f_ == "self._can_reconnect":
                        return any(flags)
                    if f_ == "txaio.sleep":
                        return Sym("delay-future", delay=a_[0])
                    return Sym(f"<{f_}>")
                env = {gen_name: cyc, cand_name: cell, "self": Sym("component"), "self._done_f": Sym("done"), "attempt_connect": Sym("attempt_connect"), "error": Sym("error"),
                       tc.params()[0]: None}
                t = Tiny(env, default_call=default)
                r = t.run(body)
                slept = [a for f_, a in calls if f_ == "txaio.sleep"]
                rejected = [a for f_, a in calls if f_ == "txaio.reject"]
                name = f"can_reconnect={list(flags)}, cycle at {k}"
                if r[0] == "raise":
                    problems.append(f"{name}: transport_check ends with {r[1]}")
                    continue
                if not any(flags):
                    if not (len(rejected) == 1 and rejected[0][0] is env["self._done_f"] and not slept and cand_get(t, cell) == 0):
                        problems.append(f"{name}: exhausted, but start() rejected {len(rejected)}x and {len(slept)} delay(s) armed")
                    continue
                want = next(ts[(k + j) % 3] for j in range(3) if flags[(k + j) % 3])
                if rejected:
                    problems.append(f"{name}: start() is failed although {want.name} has attempts left")
                if cand_get(t, cell) is not want:
                    problems.append(f"{name}: candidate is {cand_get(t, cell)}, expected {want.name} (next in round-robin order that can reconnect)")
                if not (len(slept) == 1 and slept[0][0] == 100 + want.attrs["idx"]):
                    problems.append(f"{name}: delay armed {[a[0] for a in slept]}, expected next_delay() of {want.name}")
                df = t.env.get("self._delay_f") or env["self"].attrs.get("_delay_f")
                cbs = [a for f_, a in calls if f_ == "txaio.add_callbacks"]
                if not (isinstance(df, Sym) and df.name == "delay-future" and len(cbs) == 1 and cbs[0][0] is df and cbs[0][1] is env["attempt_connect"] and cbs[0][2] is env["error"]):
                    problems.append(f"{name}: the pending delay is not kept in self._delay_f / does not continue with attempt_connect, error")
        ctx.ob("transport_check: exhaustion fails start() and arms nothing; otherwise the next transport in round-robin order that may still be tried is "
               "attempted after its own next_delay() [24 cells]", not problems, "; ".join(sorted(set(problems))[:2]), tc.loc())
    except AnalysisError as e:
        raise AnalysisError(f"[C14.3-reconnect-loop] transport_check outside the modelled subset: {e}")

    # _can_reconnect == any(transport.can_reconnect())
    cr = p.func(f"{COMPONENT}._can_reconnect")
    ctx.analysed(cr)
    _check_any(ctx, cr)

    # attempt_connect: connects the candidate, success -> session_done, failure -> connect_error
    co = [c for c in calls_in(ac.node) if any(is_self_attr(a, "_connect_once") for a in c.args) or self_call(c, "_connect_once")]
    ctx.require(len(co) == 1, "attempt_connect: _connect_once hand-off not found")
    ctx.ob("attempt_connect connects the chosen candidate", (f"{cand_name}[0]" if cand_kind == "cell" else cand_name) in [norm.text(a) for a in co[0].args], "another transport is connected", ac.loc(co[0]))
    acb = [c for c in calls_in(ac.node) if call_name(c) == "txaio.add_callbacks" and norm.text(c.args[0]) == "connect_f"]
    ok = len(acb) == 1 and [norm.text(a) for a in acb[0].args[1:]] == ["session_done", "connect_error"]
    ctx.ob("connection result: success -> session_done, failure -> connect_error", ok, "continuations of the connect future changed", ac.loc())
    ctx.ob("session_done resolves the result of start()", any(call_name(c) == "txaio.resolve" and is_self_attr(c.args[0], "_done_f") for c in calls_in(sd.node))
           and not any(call_name(c) == "txaio.reject" for c in calls_in(sd.node)), "session_done does not resolve _done_f", sd.loc())
    # failure chain reaches handle_connect_error whatever the connectfailure listeners do
    ncb = [c for c in calls_in(ce.node) if call_name(c) == "txaio.add_callbacks"]
    ok = len(ncb) == 1 and norm.text(ncb[0].args[-1]) == "handle_connect_error" and any(norm.text(c.func) == "notify_connect_error" for c in calls_in(ce.node))
    ctx.ob("connect_error -> notify_connect_error -> handle_connect_error", ok, "failure chain changed", ce.loc())
    lam = [c for c in calls_in(nce.node) if call_name(c) == "txaio.add_callbacks"]
    rets = [s for s in walk_no_defs(nce.node) if isinstance(s, ast.Return)]
    chain = norm.text(rets[0].value) if len(rets) == 1 else None

    def hands_on(a):
        """the callback (a lambda, or a closure of notify_connect_error given by name) does nothing but reject the chained future with the failure"""
        if isinstance(a, ast.Lambda):
            calls_ = [a.body]
        elif isinstance(a, ast.Name):
            defs_ = [f_ for f_ in nce.nested_list() if f_.name == a.id]
            stm = [x for x in defs_[-1].node.body if not (isinstance(x, ast.Expr) and isinstance(x.value, ast.Constant))] if defs_ else []
            calls_ = [x.value for x in stm if isinstance(x, (ast.Expr, ast.Return)) and x.value is not None] if len(stm) == 1 else []
        else:
            calls_ = []
        return len(calls_) == 1 and isinstance(calls_[0], ast.Call) and call_name(calls_[0]) == "txaio.reject" and len(calls_[0].args) == 2 \
            and norm.text(calls_[0].args[0]) == chain and norm.text(calls_[0].args[1]) == nce.params()[0]
    ok = len(lam) == 1 and len(lam[0].args) == 3 and chain is not None and all(hands_on(a) for a in lam[0].args[1:])
    ctx.ob("a failing or succeeding connectfailure listener both hand the original failure on", ok,
           "listener outcome decides whether the reconnect logic runs", nce.loc())
    # handle_connect_error: every non-raising path re-enters transport_check
    gh = CFG(hce.node)
    re_n = [(n, c) for n in gh.stmt_nodes() for c in node_calls(n) if (call_name(c) == "txaio.call_later" and len(c.args) >= 2 and norm.text(c.args[1]) == "transport_check")
            or norm.text(c.func) == "transport_check"]
    ctx.ob("handle_connect_error re-enters the reconnect loop", len(re_n) == 1, f"{len(re_n)} re-entry sites", hce.loc())
    if re_n:
        n0 = re_n[0][0]
        # ... unless the path completes the result of start() itself (the component is finished: main failed)
        fin_n = {n for n in gh.stmt_nodes() for c in node_calls(n) if call_name(c) in ("txaio.reject", "txaio.resolve") and c.args and is_self_attr(c.args[0], "_done_f")}
        ctx.ob("every failed or lost connection leads back to transport_check (all non-raising paths that do not complete start() themselves)",
               not gh.path_exists(gh.entry, gh.exit, avoid=lambda x: x is n0 or x in fin_n, edge_ok=CFG._no_exc(None)),
               "a path through handle_connect_error ends without scheduling transport_check: no new attempt although transports have attempts left",
               hce.loc(n0.ast))
        # cell-wise: classifier absent / says fatal / says not fatal, for each kind of error value
        problems = []
        try:
            for classifier in (None, True, False):
                for kind in ("ApplicationError", "OSError", "ssl", "other"):
                    failed = []
                    candidate = Sym("candidate", methods={"failed": lambda: failed.append(1)})
                    err_value = Sym("error-value", args=[[["lib", "func", "reason"]]], methods={"error_message": lambda: "msg"})
                    asked = []
                    calls = []

                    def default(f_, a_, k_=None):
                        calls.append((f_, list(a_)))
                        if f_ == "isinstance":
                            tn = a_[1].name if isinstance(a_[1], Sym) else str(a_[1])
                            return kind in tn
                        if f_ == "self._is_ssl_error":
                            return kind == "ssl"
                        if f_ == "self._is_fatal":
                            asked.append(a_[0])
                            return classifier
                        return Sym(f"<{f_}>")
                    env = _ctor_defaults(ctx)
                    def classify_(v_, _ans=classifier):
                        asked.append(v_)
                        return _ans
                    env.update({cand_name: cand_env(candidate), "self": Sym("component"),
                                "self._is_fatal": (Sym("classifier", methods={"__call__": classify_}) if classifier is not None else None),
                                hce.params()[0]: Sym("failure", value=err_value), "transport_check": Sym("transport_check"),
                                "ApplicationError": Sym("ApplicationError"), "OSError": Sym("OSError")})
                    t = Tiny(env, default_call=default)
                    r = t.run([x for x in hce.node.body if not (isinstance(x, ast.Expr) and isinstance(x.value, ast.Constant))])
                    again = [a for f_, a in calls if (f_ == "txaio.call_later" and len(a) >= 2 and a[1] is env["transport_check"]) or f_ == "transport_check"]
                    cell = f"classifier {'absent' if classifier is None else 'says ' + ('fatal' if classifier else 'not fatal')}, {kind} error"
                    if r[0] == "raise":
                        problems.append(f"{cell}: the handler itself raises {r[1]}")
                        continue
                    if bool(failed) != (classifier is True):
                        problems.append(f"{cell}: candidate {'failed permanently' if failed else 'not failed'}")
                    if classifier is not None and not (len(asked) == 1 and asked[0] is err_value):
                        problems.append(f"{cell}: classifier asked {len(asked)}x / not with the error value")
                    if len(again) != 1:
                        problems.append(f"{cell}: transport_check re-entered {len(again)}x, expected once")
            ctx.ob("handle_connect_error: the candidate is failed permanently iff the classifier exists and calls the error fatal; the loop is re-entered once in every case "
                   "[12 cells]", not problems, "; ".join(sorted(set(problems))[:2]), hce.loc())
        except AnalysisError as e:
            raise AnalysisError(f"[C14.3-reconnect-loop] handle_connect_error outside the modelled subset: {e}")
    # start-up: `start` event then the loop
    # the 'start' event's result: the local holding what self.fire("start", ...) returned (whatever it is called)
    sfn = {s_.targets[0].id for s_ in walk_no_defs(start.node) if isinstance(s_, ast.Assign) and len(s_.targets) == 1 and isinstance(s_.targets[0], ast.Name) and
           isinstance(s_.value, ast.Call) and norm.text(s_.value.func) == "self.fire" and s_.value.args and isinstance(s_.value.args[0], ast.Constant) and s_.value.args[0].value == "start"} or {"start_f"}
    sf = [c for c in calls_in(start.node) if call_name(c) == "txaio.add_callbacks" and norm.text(c.args[0]) in sfn]
    ctx.ob("start(): the loop is entered after the 'start' listeners", len(sf) == 1 and [norm.text(a) for a in sf[0].args[1:]] == ["transport_check", "error"],
           "start continuation changed", start.loc())
    rt = sorted([s for s in walk_no_defs(start.node) if isinstance(s, ast.Return)], key=lambda s: s.lineno)
    ctx.ob("start() returns the overall future", rt and is_self_attr(rt[-1].value, "_done_f"), "another object is returned", start.loc())
    # error(): stop -> success, else failure
    ge = CFG(err.node)
    mfe = MustFacts(ge, resolver=norm.Resolver(p, err.module, err.cls))
    for n in ge.stmt_nodes():
        for c in node_calls(n):
            if call_name(c) in ("txaio.resolve", "txaio.reject") and is_self_attr(c.args[0], "_done_f"):
                f = mfe.at(n) or ()
                if call_name(c) == "txaio.resolve":
                    ctx.ob("error(): a cancelled delay completes start() successfully only while stopping", ("truth", "self._stopping", None, True) in f,
                           "resolve not guarded by self._stopping", err.loc(c))
                else:
                    ctx.ob("error(): any other failure fails start()", ("truth", "self._stopping", None, False) in f, "reject not on the non-stopping branch", err.loc(c))


def _check_any(ctx, cr):
    loops = [s for s in cr.node.body if isinstance(s, ast.For)]
    ok = False
    if len(loops) == 1 and is_self_attr(loops[0].iter, "_transports") and isinstance(loops[0].target, ast.Name):
        v = loops[0].target.id
        body = loops[0].body
        if len(body) == 1 and isinstance(body[0], ast.If) and norm.text(body[0].test) == f"{v}.can_reconnect()" and not body[0].orelse \
                and len(body[0].body) == 1 and isinstance(body[0].body[0], ast.Return) and isinstance(body[0].body[0].value, ast.Constant) \
                and body[0].body[0].value.value is True and not loops[0].orelse:
            after = cr.node.body[cr.node.body.index(loops[0]) + 1:]
            ok = len(after) == 1 and isinstance(after[0], ast.Return) and isinstance(after[0].value, ast.Constant) and after[0].value.value is False
    if not ok:
        # any(...) form
        rets = [s for s in cr.node.body if isinstance(s, ast.Return)]
        if len(rets) == 1 and isinstance(rets[0].value, ast.Call) and isinstance(rets[0].value.func, ast.Name) and rets[0].value.func.id == "any" \
                and isinstance(rets[0].value.args[0], (ast.GeneratorExp, ast.ListComp)):
            ge = rets[0].value.args[0]
            gen = ge.generators[0]
            ok = len(ge.generators) == 1 and is_self_attr(gen.iter, "_transports") and not gen.ifs and isinstance(gen.target, ast.Name) \
                and norm.text(ge.elt) == f"{gen.target.id}.can_reconnect()"
    ctx.ob("_can_reconnect() is true iff some configured transport can reconnect", ok, "not the disjunction of can_reconnect() over self._transports", cr.loc())


# ------------------------------------------------------------------------------------------
def _guarded_completions(ctx, fn, fut, label, must_guard=True, allow_unguarded=()):
    """Every txaio.resolve/reject(fut, ..) in fn sits under `not txaio.is_called(fut)`."""
    from ..core.cfg import MustFacts
    g = CFG(fn.node)
    mf = MustFacts(g, resolver=norm.Resolver(ctx.program, fn.module, fn.cls))
    n_sites = 0
    for n in g.stmt_nodes():
        for c in node_calls(n):
            if call_name(c) in ("txaio.resolve", "txaio.reject") and c.args and norm.text(c.args[0]) == fut:
                n_sites += 1
                f = mf.at(n) or ()
                guarded = ("truth", f"txaio.is_called({fut})", None, False) in f
                if must_guard:
                    ctx.ob(f"{label}: `{stmt_key(c)[:50]}` only if the future is not completed yet", guarded,
                           f"{fut} completed without the is_called() guard: a second completion raises AlreadyCalled/InvalidStateError "
                           "inside the callback and loses the rest of the handler", fn.loc(c))
    return n_sites


def rule_completion(ctx):
    ctx.rule("C14.5-completion-guards")
    p = ctx.program
    once = p.func(f"{COMPONENT}._connect_once")
    stop = p.func(f"{COMPONENT}.stop")
    ctx.analysed(once, stop)
    ol = closure(once, "create_session.on_leave")
    od = closure(once, "create_session.on_disconnect")
    oe = closure(once, "on_error")
    me = closure(once, "create_session.on_join.main_error")
    ms = closure(once, "create_session.on_join.main_success")
    oj = closure(once, "create_session.on_join")
    cs = closure(once, "create_session")
    n = 0
    n += _guarded_completions(ctx, ol, "done", "on_leave listener")
    n += _guarded_completions(ctx, od, "done", "on_disconnect listener")
    n += _guarded_completions(ctx, oe, "done", "_connect_once.on_error")
    ctx.require(n >= 3, "completions of the per-connection future not found")
    # on_leave: normal reasons resolve, others reject
    from ..core.cfg import MustFacts
    g = CFG(ol.node)
    mf = MustFacts(g, resolver=norm.Resolver(p, ol.module, ol.cls))
    for nd in g.stmt_nodes():
        for c in node_calls(nd):
            if call_name(c) in ("txaio.resolve", "txaio.reject") and norm.text(c.args[0]) == "done":
                f = mf.at(nd) or ()
                inn = [x for x in f if x[0] == "in" and x[1] == "details.reason"]
                if call_name(c) == "txaio.resolve":
                    ok = any(x[3] for x in inn) and any(set(x[2][1]) == {"wamp.close.normal", "wamp.close.goodbye_and_out"} for x in inn if x[2][0] == "c")
                    ctx.ob("on_leave: a normal leave (close.normal / goodbye_and_out) finishes the connection successfully", ok,
                           f"resolve under {inn}", ol.loc(c))
                else:
                    ok = any(not x[3] for x in inn)
                    ctx.ob("on_leave: any other leave reason fails the connection (reconnect logic decides)", ok, f"reject under {inn}", ol.loc(c))
    # the two listeners together, as histories of one connection (sa.core.tiny, shared state: the per-connection future).  "A failed or lost
    # connection leads to a new attempt": only a session that LEFT the realm normally finishes the connection successfully -- a transport that
    # goes away without that (even in an orderly way, even before the session ever joined) must leave the future to be failed, so that the
    # reconnect logic runs
    from ..core.tiny import Tiny, Sym
    probs = []
    try:
        histories = [("the transport closes cleanly, the session never left (e.g. orderly EOF before WELCOME)", [("disconnect", True)], "not-success"),
                     ("the transport is lost uncleanly, the session never left", [("disconnect", False)], "not-success"),
                     ("normal leave, then clean disconnect", [("leave", "wamp.close.normal"), ("disconnect", True)], "success"),
                     ("leave with goodbye_and_out, then clean disconnect", [("leave", "wamp.close.goodbye_and_out"), ("disconnect", True)], "success"),
                     ("normal leave, then unclean disconnect", [("leave", "wamp.close.normal"), ("disconnect", False)], "success"),
                     ("leave for another reason, then clean disconnect", [("leave", "wamp.error.no_such_realm"), ("disconnect", True)], "failure"),
                     ("transport lost while joined (leave reason transport_lost), then disconnect", [("leave", "wamp.close.transport_lost"), ("disconnect", True)], "failure")]
        for name, events, want in histories:
            done = Sym("per-connection-future")
            outcome = []

            def oracle(f_, a_, k_=None):
                if f_ == "txaio.is_called" and a_ and a_[0] is done:
                    return bool(outcome)
                if f_ in ("txaio.resolve", "txaio.reject") and a_ and a_[0] is done:
                    outcome.append(f_.split(".")[1])
                    return None
                return Sym(f"<{f_}>")
            for kind, arg in events:
                fn_ = ol if kind == "leave" else od
                prm = fn_.params()
                env = {"self": Sym("component", log=Sym("log")), "self.log": Sym("log"), "done": done, prm[0]: Sym("session")}
                env[prm[1]] = Sym("close-details", reason=arg, message="m") if kind == "leave" else arg
                r = Tiny(env, default_call=oracle, opaque_globals=True, model_strings=True).run(
                    [x for x in fn_.node.body if not (isinstance(x, ast.Expr) and isinstance(x.value, ast.Constant))])
                if r[0] == "raise":
                    outcome.append(f"raises {r[1]}")
            got = "success" if outcome == ["resolve"] else ("failure" if outcome == ["reject"] else ("untouched" if not outcome else "+".join(outcome)))
            ok = (want == "success" and got == "success") or (want == "failure" and got == "failure") or (want == "not-success" and got in ("untouched", "failure"))
            if not ok:
                probs.append(f"{name}: the connection's future ends {got}, expected {want.replace('not-success', 'untouched or failed (so that the next attempt is made)')}")
    except AnalysisError as e:
        raise AnalysisError(f"[C14.5-completion-guards] on_leave / on_disconnect outside the modelled subset: {e}")
    ctx.ob(f"a connection finishes successfully only through a normal leave of its session, never merely because the transport went away [{len(histories)} histories]",
           not probs, "; ".join(probs[:2]), od.loc())
    # "... and with an error when main fails": the history [join, main fails] evaluated over the two closures that decide it -- main's error
    # continuation in _connect_once and the connect-error handler of the reconnect loop in _start (shared state: the component's attributes).
    # The overall future (the result of start()) must fail with main's exception and no further attempt may be scheduled; an ordinary failed
    # connection (control) must schedule the next attempt and leave the overall future alone.
    start_fn = p.func(f"{COMPONENT}._start")
    hce = closure(start_fn, "attempt_connect.handle_connect_error")
    init_fn = p.func(f"{COMPONENT}.__init__")
    probs = []
    try:
        exc_main, exc_other = Sym("ValueError raised by main"), Sym("ConnectionRefusedError")
        for name, with_main in (("the session joins, main fails", True), ("the connection attempt fails (control)", False)):
            overall, done = Sym("result of start()"), Sym("per-connection-future")
            comp = {"self": Sym("component"), "self.log": Sym("log"), "self._done_f": overall, "self._is_fatal": None, "self._stopping": False}
            for s_ in walk_no_defs(init_fn.node):   # attributes the constructor initialises with None / False
                if isinstance(s_, ast.Assign) and len(s_.targets) == 1 and is_self_attr(s_.targets[0]) and isinstance(s_.value, ast.Constant) and s_.value.value in (None, False):
                    comp.setdefault(f"self.{s_.targets[0].attr}", s_.value.value)
            comp["self._done_f"] = overall
            events = []

            def oracle(f_, a_, k_=None):
                if f_ in ("txaio.resolve", "txaio.reject") and a_:
                    events.append((f_.split(".")[1], a_[0], a_[1] if len(a_) > 1 else None))
                    return None
                if f_ == "txaio.call_later":
                    events.append(("call_later", a_[1] if len(a_) > 1 else None, None))
                    return None
                if f_ == "isinstance" or f_.endswith("._is_ssl_error"):
                    return False
                if f_ == "txaio.is_called":
                    return any(e_[1] is a_[0] for e_ in events if e_[0] in ("resolve", "reject"))
                return Sym(f"<{f_}>")
            if with_main:
                failure = Sym("failure of main", value=exc_main)
                env = dict(comp)
                env.update({"done": done, "session": Sym("session"), me.params()[0]: failure})
                t = Tiny(env, default_call=oracle, opaque_globals=True, model_strings=True)
                r = t.run([x for x in me.node.body if not (isinstance(x, ast.Expr) and isinstance(x.value, ast.Constant))])
                if r[0] == "raise":
                    probs.append(f"{name}: main's error continuation raises {r[1]}")
                    continue
                rej = [e_ for e_ in events if e_[0] == "reject" and e_[1] is done]
                if len(rej) != 1:
                    probs.append(f"{name}: the per-connection future is rejected {len(rej)} time(s) by main's error continuation")
                    continue
                fail = rej[0][2]
                comp = {k_: v_ for k_, v_ in t.env.items() if k_ == "self" or k_.startswith("self.")}
            else:
                fail = Sym("failure of the connection attempt", value=exc_other)
            del events[:]
            env = dict(comp)
            env.update({hce.params()[0]: fail, "transport_candidate": [Sym("transport")], "transport_check": Sym("transport_check"), "ApplicationError": Sym("ApplicationError"),
                        "OSError": Sym("OSError")})
            t = Tiny(env, default_call=oracle, opaque_globals=True, model_strings=True)
            r = t.run([x for x in hce.node.body if not (isinstance(x, ast.Expr) and isinstance(x.value, ast.Constant))])
            if r[0] == "raise":
                probs.append(f"{name}: the connect-error handler raises {r[1]}")
                continue
            fin = [e_ for e_ in events if e_[0] in ("resolve", "reject") and e_[1] is overall]
            again = [e_ for e_ in events if e_[0] == "call_later"]
            if with_main:
                val = fin[0][2] if fin else None
                is_main = val is fail or val is exc_main or (isinstance(val, Sym) and val.attrs.get("value") is exc_main)
                if not (len(fin) == 1 and fin[0][0] == "reject" and is_main) or again:
                    probs.append(f"{name}: the result of start() is {'left pending' if not fin else fin[0][0] + ' with ' + str(val)} and "
                                 f"{'another connection attempt is scheduled' if again else 'no attempt is scheduled'}; expected: start() fails with main's error, no further attempt "
                                 f"(as it is, a main that always fails reconnects without bound and without delay: the join has just reset the retry budget)")
            else:
                if fin or len(again) != 1:
                    probs.append(f"{name}: result of start() {'completed' if fin else 'pending'}, {len(again)} attempt(s) scheduled; expected pending and the next attempt scheduled")
    except AnalysisError as e:
        raise AnalysisError(f"[C14.5-completion-guards] main_error / handle_connect_error outside the modelled subset: {e}")
    ctx.ob("the result of start() fails with main's error when main fails (and only a failed connection leads to another attempt) [2 histories]", not probs, "; ".join(probs[:2]), me.loc())
    # main wiring
    reg = [(nd, c) for nd in CFG(cs.node).stmt_nodes() for c in node_calls(nd) if isinstance(c.func, ast.Attribute) and c.func.attr == "on"
           and norm.text(c.func.value) == "session" and c.args and isinstance(c.args[0], ast.Constant)]
    regd = {c.args[0].value: norm.text(c.args[1]) for _, c in reg}
    ctx.ob("the per-connection listeners are registered on the new session", regd.get("leave") == "on_leave" and regd.get("disconnect") == "on_disconnect"
           and regd.get("join") == "on_join", f"registered: {regd}", cs.loc())
    gcs = CFG(cs.node)
    mfc = MustFacts(gcs, resolver=norm.Resolver(p, cs.module, cs.cls))
    for nd, c in reg:
        f = mfc.at(nd) or ()
        if c.args[0].value == "join":
            # main is started only when there is one: the guard sits at the registration or inside the listener, before main is called
            ojf = closure(once, "create_session.on_join")
            goj_ = CFG(ojf.node)
            mfo = MustFacts(goj_, resolver=norm.Resolver(p, ojf.module, ojf.cls))
            runs = [n_ for n_ in goj_.stmt_nodes() for c_ in node_calls(n_) if call_name(c_) == "txaio.as_future" and c_.args and is_self_attr(c_.args[0], "_entry")]
            guard = ("is", "self._entry", ("c", None), False)
            okm = bool(runs) and all(guard in f or guard in (mfo.at(n_) or ()) or ("truth", "self._entry", None, True) in (mfo.at(n_) or ()) for n_ in runs)
            ctx.ob("main is run on join only when a main function was given", okm, "main started without a test that there is one", ojf.loc())
        else:
            cond = [x for x in f if x[0] in ("truth", "is", "eq", "in") and "session" not in str(x[1]) and "auth" not in str(x[1])]
            ctx.ob(f"the {c.args[0].value} listener is registered unconditionally", not cond, f"registered only under {cond}", cs.loc(c))
    ctx.ob("main's failure fails the connection with main's error", any(call_name(c) == "txaio.reject" and [norm.text(a) for a in c.args] == ["done", "err"] for c in calls_in(me.node)),
           "main_error does not reject done with the error", me.loc())
    ctx.ob("main's success leaves the session", any(isinstance(c.func, ast.Attribute) and c.func.attr == "leave" and norm.text(c.func.value) == "session" for c in calls_in(ms.node, include_nested=True)),
           "main_success does not leave", ms.loc())
    mcb = [c for c in calls_in(oj.node) if call_name(c) == "txaio.add_callbacks"]
    ctx.ob("main's result continues with main_success / main_error", len(mcb) == 1 and [norm.text(a) for a in mcb[0].args[1:]] == ["main_success", "main_error"], "continuations changed", oj.loc())
    mcall = [c for c in calls_in(oj.node) if call_name(c) == "txaio.as_future" and c.args and is_self_attr(c.args[0], "_entry")]
    ctx.ob("main is called with (reactor, session)", len(mcall) == 1 and [norm.text(a) for a in mcall[0].args[1:]] == ["reactor", "session"], "main arguments changed", oj.loc())
    rts = [s for s in walk_no_defs(once.node) if isinstance(s, ast.Return)]
    ctx.ob("_connect_once returns the per-connection future", len(rts) == 1 and norm.text(rts[0].value) == "done", "another object returned", once.loc())
    # create_session failure rejects done and re-raises
    tries = [s for s in walk_no_defs(cs.node) if isinstance(s, ast.Try)]
    ctx.require(len(tries) >= 1, "create_session: try block not found")
    h = tries[0].handlers
    okh = len(h) == 1 and norm.text(h[0].type) == "Exception" and any(isinstance(x, ast.Raise) and x.exc is None for x in h[0].body) and \
        any(isinstance(x, ast.Call) and call_name(x) == "txaio.reject" and norm.text(x.args[0]) == "done" for b in h[0].body for x in ast.walk(b))
    ctx.ob("a failing session factory fails the connection and propagates", okh, "handler shape changed", cs.loc(tries[0]))

    # the framework wrappers
    for q in (TX_COMPONENT, AIO_COMPONENT):
        fw = q.split(".")[1]
        c = p.cls(q)
        host = c.methods["_connect_transport"] if fw == "twisted" else c.methods["_wrap_connection_future"]
        ctx.analysed(host)
        if fw == "asyncio":
            # every connection future that _connect_transport hands back (proxy, tcp, unix endpoint alike) goes through the wrapper that fails the
            # per-connection future when the connection is refused or dies before a session exists -- else no further attempt is ever made
            ct = c.methods["_connect_transport"]
            ctx.analysed(ct)

            def wrapped(fn_, depth=0):
                rets = [s_ for s_ in walk_no_defs(fn_.node) if isinstance(s_, ast.Return) and s_.value is not None]
                if not rets:
                    return False
                okr = True
                for s_ in rets:
                    v = s_.value
                    if isinstance(v, ast.Call) and self_call(v, "_wrap_connection_future"):
                        continue
                    if depth < 2 and isinstance(v, ast.Call) and self_call(v) and v.func.attr.startswith("_") and v.func.attr in c.methods and wrapped(c.methods[v.func.attr], depth + 1):
                        continue
                    okr = False
                return okr
            ctx.ob("asyncio: every connection future returned by _connect_transport is wrapped by _wrap_connection_future (all endpoint kinds)", wrapped(ct),
                   "an endpoint branch returns the bare connection future: a connection that is established but dies before the session exists neither fails the "
                   "per-connection future nor leads to another attempt", ct.loc())
        succ = closure(host, "on_connect_success")
        lost = closure(host, "on_connect_success.lost")
        ocf = closure(host, "on_connect_failure")
        k = _guarded_completions(ctx, lost, "done", f"{fw} connection-lost wrapper")
        k += _guarded_completions(ctx, succ, "done", f"{fw} on_connect_success")
        ctx.ob(f"{fw}: a lost connection fails the per-connection future", k >= 1 and any(call_name(x) == "txaio.reject" for x in calls_in(lost.node)), "no reject in the wrapper", lost.loc())
        # cell-wise: whatever reason the framework reports (None on asyncio for a plain close, an exception otherwise), a lost connection
        # fails the per-connection future exactly when it is still pending, with a real error, after the protocol's own handler ran
        from ..core.tiny import Tiny, Sym
        probs = []
        try:
            # Twisted always passes a Failure; asyncio passes None for a plain close
            for reason in ((None, Sym("ConnectionResetError")) if fw == "asyncio" else (Sym("Failure(ConnectionLost)"), Sym("Failure(ConnectionDone)"))):
                for called in (False, True):
                    seq = []

                    def default(f_, a_, k_=None):
                        seq.append((f_, list(a_)))
                        if f_ == "txaio.is_called":
                            return called
                        return Sym(f"<{f_}>")
                    done_f = Sym("done")
                    t = Tiny({lost.params()[0]: reason, "done": done_f, "orig": Sym("orig")}, default_call=default)
                    r = t.run([x for x in lost.node.body if not (isinstance(x, ast.Expr) and isinstance(x.value, ast.Constant))])
                    rej = [a for f_, a in seq if f_ == "txaio.reject"]
                    names = [f_ for f_, a in seq]
                    cell = f"lost with reason {reason}, per-connection future {'already completed' if called else 'pending'}"
                    if (len(rej) == 1) != (not called) or len(rej) > 1:
                        probs.append(f"{cell}: rejected {len(rej)}x")
                    elif rej and (rej[0][0] is not done_f or rej[0][1] is None):
                        probs.append(f"{cell}: rejected with {rej[0][1]}")
                    if "orig" not in names or (rej and names.index("orig") > names.index("txaio.reject")):
                        probs.append(f"{cell}: the protocol's own connection-lost handler is not called first")
            ctx.ob(f"{fw}: a lost connection always fails a still pending per-connection future (so that the reconnect logic runs) [4 cells]", not probs,
                   "; ".join(probs[:2]) + ": no new attempt is made although transports have attempts left, start() stays pending", lost.loc())
        except AnalysisError as e:
            raise AnalysisError(f"[C14.5-completion-guards] {fw} connection-lost wrapper outside the modelled subset: {e}")
        oc = [x for x in calls_in(lost.node) if norm.text(x.func) == "orig"]
        ctx.ob(f"{fw}: the wrapper still calls the protocol's own connection-lost handler", len(oc) == 1, "orig() not called", lost.loc())
        attr = "connectionLost" if fw == "twisted" else "connection_lost"
        inst = [s for s in walk_no_defs(succ.node) if isinstance(s, ast.Assign) and norm.text(s.targets[0]) == f"proto.{attr}" and norm.text(s.value) == "lost"]
        ctx.ob(f"{fw}: the wrapper is installed on the protocol", len(inst) == 1, f"proto.{attr} = lost missing", succ.loc())
        ctx.ob(f"{fw}: a refused connection fails the per-connection future", any(call_name(x) == "txaio.reject" and norm.text(x.args[0]) == "done" for x in calls_in(ocf.node)),
               "on_connect_failure does not reject done", ocf.loc())
        cbs = [x for x in calls_in(host.node) if call_name(x) == "txaio.add_callbacks"]
        names = [[norm.text(a) for a in x.args[1:]] for x in cbs]
        ctx.ob(f"{fw}: success and failure continuations attached", ["on_connect_success", "None"] in names and ["None", "on_connect_failure"] in names, f"{names}", host.loc())

    # stop()
    g = CFG(stop.node)
    mf = MustFacts(g, resolver=norm.Resolver(p, stop.module, stop.cls))
    first = [n for n in g.stmt_nodes()][0]
    ctx.ob("stop() marks the component as stopping before anything else", isinstance(first.ast, ast.Assign) and is_self_attr(first.ast.targets[0], "_stopping")
           and isinstance(first.ast.value, ast.Constant) and first.ast.value.value is True, "first statement is not self._stopping = True", stop.loc())
    k = _guarded_completions(ctx, stop, "self._done_f", "stop()")
    ctx.require(k == 1, "stop(): completion of _done_f not found")
    lv = [(n, c) for n in g.stmt_nodes() for c in node_calls(n) if isinstance(c.func, ast.Attribute) and c.func.attr == "leave"]
    fl = (mf.at(lv[0][0]) or ()) if len(lv) == 1 else ()
    ctx.ob("stop() ends a session by leave() only when it has joined (is_attached()); otherwise it completes start() itself",
           len(lv) == 1 and ("truth", "self._session", None, True) in fl and ("truth", "self._session.is_attached()", None, True) in fl,
           "leave() is chosen without `self._session.is_attached()`: on a session that is connected but not joined leave() does nothing, "
           "so stop() between transport open and WELCOME never completes start()", stop.loc())
    cn = [(n, c) for n in g.stmt_nodes() for c in node_calls(n) if any(norm.text(a) == "txaio.cancel" for a in c.args) or call_name(c) == "txaio.cancel"]
    ctx.ob("stop() cancels a pending delay", len(cn) == 1 and ("truth", "self._delay_f", None, True) in (mf.at(cn[0][0]) or ()), "cancel not under `self._delay_f`", stop.loc())
    # _delay_f cleared by both continuations
    start = p.func(f"{COMPONENT}._start")
    for nm in ("attempt_connect", "error"):
        f = closure(start, nm)
        s0 = f.node.body[0]
        ctx.ob(f"{nm} clears self._delay_f first", isinstance(s0, ast.Assign) and is_self_attr(s0.targets[0], "_delay_f") and isinstance(s0.value, ast.Constant) and s0.value.value is None,
               "a fired delay stays in _delay_f: stop() would cancel a completed future instead of finishing", f.loc())
    # _done_f created once, cleared on completion
    mk = [s for s in walk_no_defs(start.node) if isinstance(s, ast.Assign) and is_self_attr(s.targets[0], "_done_f")]
    gs = CFG(start.node)
    mfs = MustFacts(gs, resolver=norm.Resolver(p, start.module, start.cls))
    nmk = [n for n in gs.stmt_nodes() if n.ast in mk]
    ok = len(nmk) == 1 and ("is", "self._done_f", ("c", None), True) in (mfs.at(nmk[0]) or ())
    ctx.ob("a second start() while running does not replace the overall future", ok, "self._done_f re-created although one exists", start.loc())


def _ctor_defaults(ctx):
    """component attributes the constructor initialises with None / False (the state of a component on which nothing special has happened)"""
    init_fn = ctx.program.func(f"{COMPONENT}.__init__")
    out = {}
    for s_ in walk_no_defs(init_fn.node):
        if isinstance(s_, ast.Assign) and len(s_.targets) == 1 and is_self_attr(s_.targets[0]) and isinstance(s_.value, ast.Constant) and s_.value.value in (None, False):
            out.setdefault(f"self.{s_.targets[0].attr}", s_.value.value)
    return out


# ------------------------------------------------------------------------------------------
def rule_events(ctx):
    ctx.rule("C14.6-event-bubbling")
    p = ctx.program
    init = p.func(f"{COMPONENT}.__init__")
    once = p.func(f"{COMPONENT}._connect_once")
    cs = closure(once, "create_session")
    fire = p.func(f"{OBSERVABLE}.fire")
    on = p.func(f"{OBSERVABLE}.on")
    ctx.analysed(init, fire, on)

    def valid_events(fn):
        for c in calls_in(fn.node):
            if self_call(c, "set_valid_events"):
                v = kwarg(c, "valid_events", 0)
                if isinstance(v, (ast.List, ast.Tuple)):
                    return [e.value for e in v.elts if isinstance(e, ast.Constant)]
        return None
    comp_ev = valid_events(init)
    ctx.require(comp_ev is not None, "Component.__init__: set_valid_events not found")
    # events fired by sessions
    sess_cls = p.cls(APPSESSION)
    fired = {}
    for c in p.all_classes():
        if c.module.name != "autobahn.wamp.protocol":
            continue
        for f in c.methods.values():
            for call in calls_in(f.node, include_nested=True):  # closures and lambdas included
                if self_call(call, "fire") and call.args and isinstance(call.args[0], ast.Constant):
                    fired.setdefault(call.args[0].value, []).append((f, call))
                elif self_call(call, "fire"):
                    ctx.ob(f"session fires a constant event name in {f.qualname}", False, "event name is computed", f.loc(call))
    ctx.require(len(fired) >= 5, f"session fire sites not found ({sorted(fired)})")
    for ev in ("connect", "join", "ready", "leave", "disconnect"):
        ctx.ob(f"session fires '{ev}'", ev in fired, "event of the statement is never fired by the session", sess_cls.loc())
    for ev, sites in sorted(fired.items()):
        ctx.ob(f"component accepts the session event '{ev}'", ev in comp_ev,
               f"'{ev}' is fired by the session and forwarded to the component, whose valid-event list lacks it: fire() raises RuntimeError in the session", init.loc())
        for f, call in sites:
            ctx.ob(f"'{ev}' listeners get the session first ({f.name})", len(call.args) >= 2 and norm.text(call.args[1]) == "self", "session not passed", f.loc(call))
    sinit = p.lookup_method(sess_cls, "__init__")
    sv = None
    for k in p.mro(sess_cls):
        if "__init__" in k.methods and valid_events(k.methods["__init__"]) is not None:
            sv = valid_events(k.methods["__init__"])
            break
    ctx.ob("the session's own valid-event list covers what it fires", sv is not None and set(fired) <= set(sv), f"fired {sorted(fired)} vs valid {sv}", sess_cls.loc())
    # decorators
    comp = p.cls(COMPONENT)
    for ev in ("join", "leave", "connect", "disconnect", "ready", "connectfailure"):
        m = comp.methods.get(f"on_{ev}")
        ok = m is not None and any(self_call(c, "on") and len(c.args) == 2 and isinstance(c.args[0], ast.Constant) and c.args[0].value == ev
                                   and norm.text(c.args[1]) == m.params()[1] for c in calls_in(m.node))
        ctx.ob(f"Component.on_{ev} registers the '{ev}' event", ok, "decorator registers another event / handler", m.loc() if m else comp.loc())
    # parent wiring
    g = CFG(cs.node)
    par = [n for n in g.stmt_nodes() if n.kind == "stmt" and isinstance(n.ast, ast.Assign) and norm.text(n.ast.targets[0]).endswith("._parent")]
    rets = [n for n in g.stmt_nodes() if n.kind == "stmt" and isinstance(n.ast, ast.Return) and n.ast.value is not None]
    ctx.require(len(rets) == 1, "create_session: return session not found")
    sv_ = norm.text(rets[0].ast.value)
    ok = len(par) == 1 and norm.text(par[0].ast.targets[0]) == f"{sv_}._parent" and norm.text(par[0].ast.value) == "self" and \
        g.always_preceded_by(rets[0], lambda x: x is par[0], exc=False)
    ctx.ob("every created session gets the component as event parent", ok, "a path returns the session without `_parent = self`: component listeners see nothing", cs.loc())
    mk = [n for n in g.stmt_nodes() if n.kind == "stmt" and isinstance(n.ast, ast.Assign) and any(call_name(c) == "self.session_factory" for c in node_calls(n))]
    ok = len(mk) == 1 and sv_ in [norm.text(t) for t in mk[0].ast.targets] and any(is_self_attr(t, "_session") for t in mk[0].ast.targets)
    ctx.ob("the returned session is the one made by session_factory and remembered as self._session", ok, "session object mismatch", cs.loc())
    ons = [n for n in g.stmt_nodes() for c in node_calls(n) if isinstance(c.func, ast.Attribute) and c.func.attr == "on" and norm.text(c.func.value) == sv_]
    uncond = [n for n in ons if g.always_preceded_by(rets[0], lambda x, n=n: x is n, exc=False)]
    # fire(): forwards to parent
    gf = CFG(fire.node)
    from ..core.cfg import MustFacts
    mff = MustFacts(gf, resolver=norm.Resolver(p, fire.module, fire.cls))
    fw = [(n, c) for n in gf.stmt_nodes() for c in node_calls(n) if norm.text(c.func) == "self._parent.fire"]
    ctx.ob("fire() forwards to the parent", len(fw) == 1, f"{len(fw)} forwarding sites", fire.loc())
    early = [n for n in gf.stmt_nodes() if n.kind == "stmt" and isinstance(n.ast, ast.Return) and fw and not gf.path_exists(fw[0][0], n)]
    if fw:
        n, c = fw[0]
        f = mff.at(n) or ()
        conds = [x for x in f if x[0] in ("is", "truth", "eq", "in", "lt") and (str(x[1]).startswith("self.") or str(x[1]) == "event")]
        # plus every conjunct of the enclosing if-tests (locals such as `res` included)
        resf = norm.Resolver(p, fire.module, fire.cls)
        for x in walk_no_defs(fire.node):
            if isinstance(x, ast.If):
                if any(y is c for b_ in x.body for y in ast.walk(b_)):
                    conds += [a_ for a_ in norm.atoms(x.test, True, resf) if a_ not in conds]
                elif any(y is c for b_ in x.orelse for y in ast.walk(b_)):
                    conds += [a_ for a_ in norm.atoms(x.test, False, resf) if a_ not in conds]
        allowed = {("is", "self._parent", ("c", None), False), ("is", "self._listeners", ("c", None), False)}
        ctx.ob("forwarding depends only on a parent being set (and the session having listeners)", set(conds) <= allowed and ("is", "self._parent", ("c", None), False) in conds,
               f"forwarding guarded by {sorted(map(str, set(conds) - allowed))}", fire.loc(c))
        a = c.args
        ok = len(a) == 2 and norm.text(a[0]) == "event" and isinstance(a[1], ast.Starred) and norm.text(a[1].value) == "args" and \
            any(k.arg is None and norm.text(k.value) == "kwargs" for k in c.keywords)
        ctx.ob("the parent gets the same event and arguments", ok, f"forwarded as {norm.text(c)}", fire.loc(c))
        in_loop = any(isinstance(x, (ast.For, ast.While)) and any(y is c for y in ast.walk(x)) for x in walk_no_defs(fire.node))
        ctx.ob("the parent is notified once per event (not per listener)", not in_loop, "forwarding inside the listener loop", fire.loc(c))
        needs_listeners = ("is", "self._listeners", ("c", None), False) in conds
        ctx.ob("sessions created by the component always have listeners, so the no-listener shortcut of fire() cannot skip the parent",
               (not needs_listeners) or bool(uncond), "fire() returns early without listeners and create_session registers none unconditionally", cs.loc())
    # listeners loop calls every handler of the event
    loops = [s for s in walk_no_defs(fire.node) if isinstance(s, ast.For)]
    ok = len(loops) == 1 and norm.text(loops[0].iter).startswith("self._listeners.get(event") and \
        any(isinstance(c, ast.Call) and call_name(c) == "txaio.as_future" and norm.text(c.args[0]) == norm.text(loops[0].target) for c in ast.walk(loops[0]))
    ctx.ob("fire() invokes every listener registered for the event with the given arguments", ok, "listener loop changed", fire.loc())
    brk = [x for l in loops for x in ast.walk(l) if isinstance(x, (ast.Break, ast.Return))]
    ctx.ob("the listener loop is not cut short", not brk, "break/return inside the listener loop", fire.loc())
    # on(): appends
    app = [c for c in calls_in(on.node) if isinstance(c.func, ast.Attribute) and c.func.attr == "append" and norm.text(c.func.value) == "self._listeners[event]"
           and norm.text(c.args[0]) == on.params()[2]]
    ctx.ob("on() appends the handler to the event's listener list", len(app) == 1, "on() does not append", on.loc())


def rule_config(ctx):
    """"at most max_retries+1 attempts ... waits no longer than the configured maximum": the configured numbers must be the ones the transport
    object gets.  `_create_transport` is evaluated (sa.core.tiny; URL parsing answered by the model) with each retry setting given as 0, given as a
    non-zero number and not given: what the _Transport constructor receives is exactly what was given -- 0 included (`max_retries: 0` means "one
    attempt", not "the default")."""
    from ..core.tiny import Tiny, Sym
    ctx.rule("C14.7-retry-settings-reach-the-transport")
    m = ctx.program.module(COMPONENT.rsplit(".", 1)[0])
    fn = m.funcs.get("_create_transport")
    ctx.require(fn is not None, "_create_transport not found")
    ctx.analysed(fn)
    tinit = ctx.program.func(f"{TRANSPORT}.__init__")
    keys = [a.arg for a in tinit.node.args.args + tinit.node.args.kwonlyargs if "retr" in a.arg]
    ctx.require(len(keys) >= 5, f"retry parameters of _Transport not found: {keys}")
    body = [x for x in fn.node.body if not (isinstance(x, ast.Expr) and isinstance(x.value, ast.Constant))]
    probs, n = [], 0
    try:
        for k in keys:
            for label, given, v in (("given as 0", True, 0), ("given as 2.5", True, 2.5), ("not given", False, None)):
                made = []

                def default(f_, a_, k_=None):
                    if f_ == "_Transport":
                        made.append(dict(k_ or {}))
                        return Sym("transport-object")
                    if f_ == "parse_ws_url":
                        return [False, "example.com", 8080, "/ws", "/ws", {}]
                    if f_ == "isinstance":
                        return True
                    return Sym(f"<{f_}>")
                cfg = {"type": "websocket", "url": "ws://example.com:8080/ws"}
                if given:
                    cfg[k] = v
                prm = fn.params()
                env = {prm[0]: 0, prm[1]: cfg}
                for p_ in prm[2:]:
                    env[p_] = None
                t = Tiny(env, default_call=default, model_types=True, model_strings=True, opaque_globals=True)
                r = t.run(body)
                n += 1
                cell = f"{k} {label}"
                if r[0] != "return" or len(made) != 1:
                    probs.append(f"{cell}: {r[0]} {str(r[1])[:40]}, {len(made)} transport object(s) built")
                elif given and not (k in made[0] and made[0][k] == v and type(made[0][k]) is type(v)):
                    probs.append(f"{cell}: the transport object gets {k}={made[0].get(k, '<nothing: the default applies>')!r}")
                elif not given and k in made[0]:
                    probs.append(f"{cell}: the transport object gets {k}={made[0][k]!r}")
    except AnalysisError as e:
        raise AnalysisError(f"[C14.7-retry-settings-reach-the-transport] _create_transport outside the modelled subset: {e}")
    ctx.ob(f"_create_transport hands every configured retry setting to the transport object as given (0 included), and nothing that was not given [{n} cells]",
           not probs, "; ".join(probs[:2]), fn.loc())


def run(ctx):
    rule_config(ctx)
    ctx._cg = CallGraph(ctx.program)
    rule_budget(ctx)
    rule_ownership(ctx)
    rule_loop(ctx)
    rule_completion(ctx)
    rule_events(ctx)
    ctx.floor("C14.1-retry-budget-decision-table", 14)
    ctx.floor("C14.2-counter-ownership", 10)
    ctx.floor("C14.3-reconnect-loop", 12)
    ctx.floor("C14.5-completion-guards", 25)
    ctx.floor("C14.6-event-bubbling", 25)
