"""Shared machinery for the rules over ApplicationSession.onMessage and the request APIs."""
import ast

from ..core.index import AnalysisError, walk_no_defs, calls_in, call_name
from ..core.cfg import node_calls
from ..core import norm
from .common import get_analysis, is_self_attr, self_call, stmt_key, APPSESSION, BASESESSION

REPLY_TABLE = {"Published": "_publish_reqs", "Subscribed": "_subscribe_reqs", "Unsubscribed": "_unsubscribe_reqs",
               "Result": "_call_reqs", "Registered": "_register_reqs", "Unregistered": "_unregister_reqs"}
REQUEST_KIND = {"Call": "_call_reqs", "Publish": "_publish_reqs", "Subscribe": "_subscribe_reqs", "Unsubscribe": "_unsubscribe_reqs",
                "Register": "_register_reqs", "Unregister": "_unregister_reqs"}
ALL_TABLES = sorted(set(REPLY_TABLE.values()))


def _is_enc_error(v):
    return isinstance(v, ast.Call) and norm.text(v.func) == "ApplicationError" and v.args and (norm.text(v.args[0]) or "").startswith("ApplicationError.ENC_")


ONMESSAGE_ROLES = [
    ("enc_err", "def", _is_enc_error),                                                  # the payload-decryption failure
    ("endpoint", "def", lambda v: isinstance(v, ast.Attribute) and v.attr == "endpoint"),      # the registered endpoint of an INVOCATION
    ("registration", "def", lambda v: (norm.text(v) or "").replace(" ", "") in ("self._registrations[msg.registration]", "self._registrations.get(msg.registration)")),
]


class OnMessage:
    def __init__(self, ctx):
        self.ctx = ctx
        self.an = get_analysis(ctx)
        self.fn = ctx.program.func(f"{APPSESSION}.onMessage")
        ctx.analysed(self.fn)
        # single-expression private helpers (`self._h(x)` returning one expression) are read as the expression they return: whether a repeated
        # test was extracted into such a helper does not change what the branches do
        from .common import expand_expr_helpers
        self.fn = expand_expr_helpers(ctx, self.fn)
        # a few locals of this long method are read by name: they are identified by what they are computed from and renamed back first (common.recover_names)
        from .common import recover_names
        self.fn = recover_names(ctx, self.fn, ONMESSAGE_ROLES)
        self.g, self.mf, self.res = self.an.get(self.fn)
        self._closure_arm = {}

    def arm_of_facts(self, facts):
        arms = [f[2].split(".")[-1] for f in (facts or ()) if f[0] == "isinst" and f[1] == "msg" and f[3]]
        return arms[0] if len(arms) == 1 else None

    def phase_of_facts(self, facts):
        if ("is", "self._session_id", ("c", None), True) in (facts or ()):
            return "pre"
        if ("is", "self._session_id", ("c", None), False) in (facts or ()):
            return "established"
        return None

    def arm_nodes(self, arm):
        return [n for n in self.g.stmt_nodes() if self.arm_of_facts(self.mf.at(n)) == arm]

    def arm_test(self, arm):
        """The `isinstance(msg, message.<arm>)` test node."""
        ts = [n for n in self.g.stmt_nodes() if n.kind == "test" and norm.atoms(n.ast, True, self.res) == [("isinst", "msg", f"message.{arm}", True)]]
        return ts

    def closures(self):
        out = []

        def rec(f):
            for g in f.nested_list():
                out.append(g)
                rec(g)

        rec(self.fn)
        return out

    def closure_arm(self, clo):
        """Arm / facts at the `def` statement of a closure (through its enclosing closures)."""
        top = clo
        while top.parent is not None and top.parent is not self.fn:
            top = top.parent
        for n in self.g.stmt_nodes():
            if n.kind == "stmt" and n.ast is top.node:
                return self.arm_of_facts(self.mf.at(n)), self.mf.at(n)
        return None, None

    def funcs_of_arm(self, arm):
        """(FuncInfo, cfg, mf, predicate selecting the nodes of that arm)"""
        out = [(self.fn, self.g, self.mf, lambda n: self.arm_of_facts(self.mf.at(n)) == arm)]
        for c in self.closures():
            a, _ = self.closure_arm(c)
            if a == arm:
                g, mf, res = self.an.get(c)
                out.append((c, g, mf, lambda n: True))
        return out


def table_uses(node_ast):
    """self._xxx_reqs tables mentioned in an AST."""
    out = []
    for x in ast.walk(node_ast):
        if is_self_attr(x) and x.attr.endswith("_reqs"):
            out.append(x.attr)
    return out


def get_onmessage(ctx):
    if not hasattr(ctx, "_onmsg"):
        ctx._onmsg = OnMessage(ctx)
    return ctx._onmsg
