"""C16 - Configured payload limits are enforced early and never by truncation."""
import ast

from ..core.index import AnalysisError, walk_no_defs, calls_in, call_name, kwarg
from ..core.cfg import node_calls
from ..core import norm
from .common import (WSP, get_analysis, is_self_attr, self_call, stmt_key, find_assign_nodes, is_test_module)

META = {
    "explanation": "Guard-dominance rules: the receive-side limit comparison (strict, disabled at 0) sits in "
                   "onMessageFrameBegin, which onFrameBegin reaches before any payload octet is buffered; its sink fails the "
                   "connection with 1009; buffering and delivery are gated by `not failedByMe`; sendMessage's limit test "
                   "dominates every frame write and compares the wire length; bounded decompress() calls must inspect "
                   "unconsumed_tail/eof (otherwise excess output is silently dropped).",
    "assumptions": ["interaction of limits with fragment spreading at run time is not decided beyond the running-total update",
                    "branches under websocket_version == 0 (Hixie-76) are unreachable"],
}


def rule_early_check(ctx):
    ctx.rule("C16.1-early-limit-check")
    an = get_analysis(ctx)
    wsp = ctx.program.cls(WSP)
    fn = wsp.methods["onMessageFrameBegin"]
    ctx.analysed(fn)
    g, mf, res = an.get(fn)
    plen = fn.params()[1]
    upd = [n for n in g.stmt_nodes() if n.kind == "stmt" and isinstance(n.ast, ast.AugAssign) and is_self_attr(n.ast.target, "message_data_total_length")]
    ok = len(upd) == 1 and isinstance(upd[0].ast.op, ast.Add) and norm.text(upd[0].ast.value) == plen and not norm.mentions(())
    ctx.ob("running message length += declared frame length", bool(ok), "message_data_total_length no longer accumulates the declared frame length", fn.loc())
    sinks = [(n, c) for n in g.stmt_nodes() for c in node_calls(n) if self_call(c, "_max_message_size_exceeded")]
    ctx.require(len(sinks) == 2, "onMessageFrameBegin: expected message- and frame-limit sinks")
    seen = set()
    for n, c in sinks:
        facts = mf.at(n)
        which = None
        for lim, val in (("self.maxMessagePayloadSize", "self.message_data_total_length"), ("self.maxFramePayloadSize", plen)):
            if ("lt", ("c", 0), ("e", lim), True) in facts and ("lt", ("e", lim), ("e", val), True) in facts:
                which = lim
        ctx.ob(f"limit sink {len(seen) + 1}: fires iff limit > 0 and size > limit (strict)", which is not None,
               "limit comparison is not `0 < limit < size` (size == limit must pass, limit 0 disables)", fn.loc(c))
        if which:
            seen.add(which)
        ctx.ob(f"limit sink {len(seen)}: only while this side has not already failed", ("truth", "self.failedByMe", None, False) in facts,
               "limit check not under `not failedByMe`", fn.loc(c))
        if upd:
            ctx.ob(f"limit sink {len(seen)}: compares the updated running total", g.always_preceded_by(n, lambda x: x is upd[0]), "limit compared before the total is updated", fn.loc(c))
    ctx.ob("both message and frame limits are checked", seen == {"self.maxMessagePayloadSize", "self.maxFramePayloadSize"}, f"checked: {sorted(seen)}", fn.loc())
    # the sink fails with 1009
    sk = wsp.methods["_max_message_size_exceeded"]
    ctx.analysed(sk)
    g2, mf2, res2 = an.get(sk)
    fc = [(n, c) for n in g2.stmt_nodes() for c in node_calls(n) if self_call(c, "_fail_connection")]
    ok = len(fc) == 1 and fc[0][1].args and norm.key(fc[0][1].args[0], res2) == ("c", 1009) and g2.always_followed_by(g2.entry, lambda x: x is fc[0][0])
    ctx.ob("_max_message_size_exceeded fails the connection with 1009 on every path", bool(ok), "sink no longer calls _fail_connection(1009, ...) unconditionally", sk.loc())
    # reset per message
    mb = wsp.methods["onMessageBegin"]
    g3, mf3, res3 = an.get(mb)
    rs = [n for n, v in find_assign_nodes(g3, "message_data_total_length") if norm.key(v, res3) == ("c", 0)]
    ctx.ob("running total reset at message begin", len(rs) == 1, "message_data_total_length not reset to 0 in onMessageBegin", mb.loc())
    # onFrameBegin: the frame-begin hook is reached for every data frame, with the declared length, before any payload processing
    fb = wsp.methods["onFrameBegin"]
    ctx.analysed(fb)
    g4, mf4, res4 = an.get(fb)
    hook = [(n, c) for n in g4.stmt_nodes() for c in node_calls(n) if self_call(c, "_onMessageFrameBegin")]
    ok = len(hook) == 1 and [norm.text(a) for a in hook[0][1].args] == ["self.current_frame.length"]
    ctx.ob("onFrameBegin passes the declared frame length to the limit check", ok, "hook argument changed", fb.loc())
    if hook:
        f = mf4.at(hook[0][0])
        data_branch = ("lt", ("c", 7), ("e", "self.current_frame.opcode"), False) in f
        # on the data-frame branch every path reaches the hook
        tests = [n for n in g4.stmt_nodes() if n.kind == "test" and ("lt", ("c", 7), ("e", "self.current_frame.opcode"), True) in norm.atoms(n.ast, True, res4)]
        okp = data_branch and len(tests) == 1 and all(g4.always_followed_by(m, lambda x: x is hook[0][0]) or m is hook[0][0]
                                                      for m, lab in tests[0].succ if lab and lab[0] == "F")
        ctx.ob("every data frame reaches the limit check at frame begin", bool(okp), "some data-frame path through onFrameBegin skips _onMessageFrameBegin", fb.loc())
    # processData: onFrameBegin is called in the header branch right after the header is consumed (C02.1 proves consumed == header length)
    pd = wsp.methods["processData"]
    g5, mf5, res5 = an.get(pd)
    ob = [(n, c) for n in g5.stmt_nodes() for c in node_calls(n) if self_call(c, "onFrameBegin")]
    okh = len(ob) == 1 and ("is", "self.current_frame", ("c", None), True) not in (mf5.at(ob[0][0]) or ())
    unmask = [(n, c) for n in g5.stmt_nodes() for c in node_calls(n) if norm.text(c.func) == "self.current_frame_masker.process" or self_call(c, "onFrameData")]
    ok2 = bool(unmask) and all(not g5.path_exists(ob[0][0], n) for n, c in unmask) if ob else False
    ctx.ob("frame begin fires in the header branch, before any payload octet is unmasked or buffered in that call", okh and ok2,
           "payload processing reachable between the header and onFrameBegin", pd.loc())


def rule_gates(ctx):
    ctx.rule("C16.2-no-buffering-after-failure")
    an = get_analysis(ctx)
    wsp = ctx.program.cls(WSP)
    fc = wsp.methods["_fail_connection"]
    g, mf, res = an.get(fc)
    flag = [n for n, v in find_assign_nodes(g, "failedByMe") if norm.key(v, res) == ("c", True)]
    acts = [(n, c) for n in g.stmt_nodes() for c in node_calls(n) if self_call(c, ("dropConnection", "sendCloseFrame"))]
    ok = len(flag) == 1 and acts and all(g.always_preceded_by(n, lambda x: x is flag[0]) for n, c in acts)
    ctx.ob("_fail_connection raises the failedByMe gate before acting", bool(ok), "failedByMe not set first", fc.loc())
    buffers = ("self.message_data", "self.frame_data")
    count = 0
    for f in wsp.methods.values():
        if f.name in ("onMessageBegin", "onMessageFrameBegin"):
            continue  # (re)initialise the buffers, add no payload
        gg = None
        for c in calls_in(f.node):
            isbuf = isinstance(c.func, ast.Attribute) and c.func.attr in ("append", "extend", "insert") and norm.text(c.func.value) in buffers
            isdel = self_call(c, ("_onMessage", "_onMessageFrame"))
            if not (isbuf or isdel):
                continue
            gg, mm, rr = an.get(f)
            n = [x for x in gg.stmt_nodes() if any(cc is c for cc in node_calls(x))][0]
            if ("eq", "self.websocket_version", ("c", 0), True) in mm.at(n):
                ctx.note(f"{f.name}: {stmt_key(c)[:40]} in unreachable Hixie-76 branch; not armed")
                continue
            count += 1
            ctx.ob(f"{f.name}: {stmt_key(c)[:50]} gated by not failedByMe", ("truth", "self.failedByMe", None, False) in mm.at(n),
                   "payload buffered or delivered after this side failed the connection (e.g. after an over-limit frame header)", f.loc(c))
        ctx.analysed(f) if gg else None
    ctx.require(count >= 4, f"only {count} buffering/delivery sites found")
    # += on the buffers
    for f in wsp.methods.values():
        for n in walk_no_defs(f.node):
            if isinstance(n, ast.AugAssign) and norm.text(n.target) in buffers:
                ctx.ob(f"{f.name}: {stmt_key(n)}", False, "receive buffer grown by augmented assignment outside the gated append sites", f.loc(n))


def rule_send_refusal(ctx):
    ctx.rule("C16.3-send-refusal")
    an = get_analysis(ctx)
    fn = ctx.program.func(f"{WSP}.sendMessage")
    ctx.analysed(fn)
    g, mf, res = an.get(fn)
    raises = [n for n in g.stmt_nodes() if n.kind == "stmt" and isinstance(n.ast, ast.Raise) and n.ast.exc is not None and
              isinstance(n.ast.exc, ast.Call) and norm.text(n.ast.exc.func) == "PayloadExceededError"]
    ctx.require(len(raises) == 1, "sendMessage: raise PayloadExceededError not found")
    r = raises[0]
    facts = mf.at(r)
    ok = ("lt", ("c", 0), ("e", "self.maxMessagePayloadSize"), True) in facts and ("lt", ("e", "self.maxMessagePayloadSize"), ("e", "payload_len"), True) in facts
    ctx.ob("send refused iff limit > 0 and wire length > limit (strict)", ok, "send-side limit comparison changed", fn.loc(r.ast))
    tests = [n for n in g.stmt_nodes() if n.kind == "test" and any(m is r or r.id in g.reachable(m, avoid=lambda x: x.kind == "test") for m, lab in n.succ if lab and lab[0] == "T")
             and "payload_len" in norm.mentions_of(n.ast)]
    ctx.require(len(tests) == 1, "sendMessage: limit test not found")
    t = tests[0]
    frames = [(n, c) for n in g.stmt_nodes() for c in node_calls(n) if self_call(c, ("sendFrame", "sendData"))]
    ctx.require(len(frames) >= 3, "sendMessage: sendFrame sites not found")
    for n, c in frames:
        ctx.ob(f"limit test dominates {stmt_key(c)[:40]}", g.always_preceded_by(n, lambda x: x is t) and
               not any(n.id in g.reachable(m) for m, lab in t.succ if lab and lab[0] == "T"),
               "a frame can be written before / despite the size check", fn.loc(c))
    # payload_len is the length of what goes on the wire (after compression)
    pl = [n for n in g.stmt_nodes() if n.kind == "stmt" and isinstance(n.ast, ast.Assign) and norm.text(n.ast.targets[0]) == "payload_len"]
    ok = len(pl) == 2 and all(norm.text(n.ast.value) == "len(payload)" for n in pl)
    comp = [n for n in pl if norm.is_truthy_known(mf.at(n), "doNotCompress") is False]
    if comp:
        joined = [n for n in g.stmt_nodes() if n.kind == "stmt" and isinstance(n.ast, ast.Assign) and norm.text(n.ast.targets[0]) == "payload"
                  and "join" in norm.text(n.ast.value)]
        ok = ok and len(joined) == 1 and g.always_preceded_by(comp[0], lambda x: x is joined[0])
    ctx.ob("compared length is len(payload) after compression", bool(ok), "payload_len is not the wire length", fn.loc())
    ctx.ob("limit test precedes nothing that writes", g.always_preceded_by(t, lambda x: x.kind == "test" and "self.state" in norm.mentions_of(x.ast)), "state test no longer first", fn.loc())


def rule_bounded_decompress(ctx):
    """A size-bounded inflate must never hand out a silently truncated message: either the unread input is inspected
    (unconsumed_tail / eof idiom) or one octet more than the allowance is requested and an excess raises before the data
    is returned; the protocol turns that error into 1009 and delivers nothing."""
    from ..core.terms import TermEval, show, subterms
    ctx.rule("C16.4-bounded-decompress-pairing")
    p = ctx.program
    found = 0
    for mn in ("compress_deflate", "compress_bzip2", "compress_brotli", "compress_snappy"):
        m = p.modules.get(f"autobahn.websocket.{mn}")
        if m is None:
            continue
        for c in m.classes.values():
            for f in c.methods.values():
                sites = [call for call in calls_in(f.node) if isinstance(call.func, ast.Attribute) and call.func.attr == "decompress" and
                         (len(call.args) >= 2 or any(k.arg == "max_length" for k in call.keywords))]
                if not sites:
                    continue
                found += len(sites)
                ctx.analysed(f)
                name = f"{c.qualname}.{f.name}"
                tail_idiom = any(isinstance(n, ast.Attribute) and n.attr in ("unconsumed_tail", "eof", "needs_input") for n in ast.walk(f.node))
                te = TermEval(p, f, inline=lambda call, fn: None).run()
                rets = [o for o in te.outcomes if o.kind == "return"]
                raises = [o for o in te.outcomes if o.kind == "raise"]

                def bounded(t):
                    return [x for x in subterms(t) if x[0] == "m" and x[2] == "decompress" and (len(x[3]) >= 2 or any(k[1] == "max_length" for k in x[4]))]

                def limit_cmps(conds):
                    out = []
                    for cnd, pol in conds:
                        for x in subterms(cnd):
                            if x[0] == "cmp" and x[1] in (">", ">=", "<", "<=") and any(y[0] == "attr" and y[2] == "max_message_size" for z in x[2:] for y in subterms(z)) \
                                    and any(y[0] == "call" and y[1] == ("g", "len") and bounded(y) for z in x[2:] for y in subterms(z)):
                                out.append((x, pol))
                    return out
                for o in rets:
                    b = bounded(o.term)
                    if not b:
                        continue
                    guarded = bool(limit_cmps(o.conds))
                    ctx.ob(f"{name}: bounded decompress() output is returned only after the produced length was compared with the limit (or the unread tail inspected)",
                           guarded or tail_idiom,
                           "decompress(data, max_length) drops everything beyond max_length silently: the over-limit message is delivered truncated and the "
                           "decompressor keeps the unread tail (corrupting later messages)", f.loc(o.node))
                    if guarded and not tail_idiom:
                        # the requested bound must exceed the remaining allowance, else an overflow is indistinguishable from an exact fit
                        bound = b[0][3][1] if len(b[0][3]) >= 2 else dict((k[1], k[2]) for k in b[0][4]).get("max_length")
                        plus_one = bound[0] == "op" and bound[1] == "+" and ("c", 1) in bound[2:] and \
                            any(y[0] == "attr" and y[2] == "max_message_size" for y in subterms(bound))
                        ctx.ob(f"{name}: the inflater is asked for one octet more than the message may still grow", plus_one,
                               f"bound is {show(bound)}: with a bound equal to the allowance, an over-limit message is cut at the limit and cannot be told from one that fits",
                               f.loc(o.node))
                if not tail_idiom:
                    exc = [o for o in raises if limit_cmps(o.conds)]
                    ctx.ob(f"{name}: exceeding the limit raises instead of returning data", bool(exc) and all("PayloadExceededError" in show(o.term) for o in exc),
                           "no raise under `produced > max_message_size`", f.loc())
    ctx.per_rule[ctx.cur_rule]["bounded_decompress_sites"] = found
    # the embedded positive example keeps the rule from passing vacuously if the pattern stops matching
    probe = ast.parse("class X:\n def d(self, data):\n  return self._d.decompress(data, self.max)\n")
    hits = [c for c in ast.walk(probe) if isinstance(c, ast.Call) and isinstance(c.func, ast.Attribute) and c.func.attr == "decompress" and len(c.args) >= 2]
    ctx.require(len(hits) == 1, "bounded-decompress matcher lost its positive example")
    # protocol side: the error becomes 1009 and nothing of that message is delivered
    fn = p.func(f"{WSP}.onFrameData")
    ctx.analysed(fn)
    an = get_analysis(ctx)
    g, mf, res = an.get(fn)
    dn = [(n, c) for n in g.stmt_nodes() for c in node_calls(n) if norm.text(c.func) == "self._perMessageCompress.decompress_message_data"]
    ctx.require(len(dn) == 1, "onFrameData: decompress_message_data call not found")
    raises_pe = found > 0 and any("PayloadExceededError" in ast.unparse(f.node) for mn in ("compress_deflate",) for c in p.modules[f"autobahn.websocket.{mn}"].classes.values()
                                  for f in c.methods.values() if f.name == "decompress_message_data")
    if raises_pe:
        hs = [m_ for m_, lab in dn[0][0].succ if lab and lab[0] == "exc"]
        hs = [h for h in hs if h.ast.type is not None and "PayloadExceededError" in norm.text(h.ast.type)]
        ctx.ob("onFrameData: an over-limit decompressed message is caught where it is inflated", len(hs) == 1,
               "PayloadExceededError from the PMCE escapes onFrameData (into dataReceived)", fn.loc(dn[0][1]))
        if hs:
            body_calls = [c for b in hs[0].ast.body for c in ast.walk(b) if isinstance(c, ast.Call)]
            ctx.ob("onFrameData: the connection is failed with 1009 (message too big)", any(self_call(c, "_max_message_size_exceeded") for c in body_calls),
                   "handler does not call _max_message_size_exceeded", fn.loc(hs[0].ast))
            # after the handler nothing of the inflated data survives: either return False or payload replaced by empty bytes
            ends = []
            for b in hs[0].ast.body:
                for x in ast.walk(b):
                    if isinstance(x, ast.Assign) and norm.text(x.targets[0]) == "payload":
                        ends.append(norm.text(x.value))
            last = hs[0].ast.body[-1]
            ok = (isinstance(last, ast.Return)) or (ends and ends[-1] in ("b''", 'b""'))
            ctx.ob("onFrameData: nothing of the over-limit message is passed on", bool(ok), "handler falls through with the partial payload", fn.loc(hs[0].ast))


def run(ctx):
    rule_early_check(ctx)
    rule_gates(ctx)
    rule_send_refusal(ctx)
    rule_bounded_decompress(ctx)
