"""C16 - Configured payload limits are enforced early and never by truncation."""
import ast

from ..core.index import AnalysisError, walk_no_defs, calls_in, call_name, kwarg
from ..core.cfg import node_calls
from ..core import norm
from .common import (inline_private, WSP, WSS, WSC, get_analysis, is_self_attr, self_call, stmt_key, find_assign_nodes, is_test_module)

META = {
    "explanation": "Guard-dominance rules: the receive-side limit comparison (strict, disabled at 0) sits in "
                   "onMessageFrameBegin, which onFrameBegin reaches before any payload octet is buffered; its sink fails the "
                   "connection with 1009; buffering and delivery are gated by `not failedByMe`; sendMessage's limit test "
                   "dominates every frame write and compares the wire length; bounded decompress() calls must inspect "
                   "unconsumed_tail/eof (otherwise excess output is silently dropped).",
    "assumptions": ["interaction of limits with fragment spreading at run time is not decided beyond the running-total update",
                    "branches under websocket_version == 0 (Hixie-76) are unreachable"],
}


def rule_early_check(ctx):
    ctx.rule("C16.1-early-limit-check")
    an = get_analysis(ctx)
    wsp = ctx.program.cls(WSP)
    fn = wsp.methods["onMessageFrameBegin"]
    ctx.analysed(fn)
    g, mf, res = an.get(fn)
    # cell-wise over (message limit, frame limit, octets already counted, declared frame length, already failed): the 1009 sink fires
    # iff this side has not failed yet and (message limit > 0 and total > limit) or (frame limit > 0 and length > limit)
    from ..core.tiny import Tiny, Sym
    import itertools
    body = [x for x in fn.node.body if not (isinstance(x, ast.Expr) and isinstance(x.value, ast.Constant))]
    plen = fn.params()[1]
    probs = []
    cells = 0
    try:
        S_OPEN_, S_CLOSING_ = ctx.program.class_const(wsp, "STATE_OPEN"), ctx.program.class_const(wsp, "STATE_CLOSING")
        for M, F, T0, L, failed, state in itertools.product((0, 8, 16), (0, 8, 16), (0, 10), (0, 6, 7, 8, 9, 15, 16, 17, 100), (False, True), (S_OPEN_, S_CLOSING_)):
            cells += 1
            fired = []
            t = Tiny({plen: L, "self.maxMessagePayloadSize": M, "self.maxFramePayloadSize": F, "self.message_data_total_length": T0, "self.failedByMe": failed, "self": Sym("p"),
                      "self.state": state, "WebSocketProtocol.STATE_OPEN": S_OPEN_, "WebSocketProtocol.STATE_CLOSING": S_CLOSING_,
                      "WebSocketProtocol.STATE_CLOSED": ctx.program.class_const(wsp, "STATE_CLOSED")},
                     default_call=lambda f_, a_, k_=None: fired.append((f_, list(a_))) or Sym(f"<{f_}>"),
                     inline_self=inline_private(ctx, wsp, exclude=("_max_message_size_exceeded", "_fail_connection", "_trigger")))
            t.run(body)
            total = t.env.get("self.message_data_total_length")
            want = (not failed) and ((M > 0 and T0 + L > M) or (F > 0 and L > F))
            sink = [a for f_, a in fired if f_ == "self._max_message_size_exceeded"]
            cell = f"maxMessage={M} maxFrame={F} counted={T0} frame length={L} failedByMe={failed} state={'OPEN' if state == S_OPEN_ else 'CLOSING'}"
            if total != T0 + L:
                probs.append(f"{cell}: running total becomes {total}, expected {T0 + L}")
            if bool(sink) != want:
                probs.append(f"{cell}: connection {'failed' if sink else 'NOT failed'} with 1009 at the frame header")
        ctx.ob(f"at each data-frame header: 1009 iff not yet failed and (message limit > 0 and running total > limit) or (frame limit > 0 and frame length > limit) "
               f"[{cells} cells]", not probs, "; ".join(sorted(set(probs))[:2]), fn.loc())
    except AnalysisError as e:
        raise AnalysisError(f"[C16.1-early-limit-check] onMessageFrameBegin outside the modelled subset: {e}")
    # the sink fails with 1009
    sk = wsp.methods["_max_message_size_exceeded"]
    ctx.analysed(sk)
    # evaluated (sa.core.tiny) on what the call sites hand in: whatever the sizes, the connection is failed exactly once, with 1009 and the given reason
    probs = []
    try:
        prm_ = sk.params()[1:]
        consts_ = {}
        for s_ in wsp.node.body:
            if isinstance(s_, ast.Assign) and len(s_.targets) == 1 and isinstance(s_.targets[0], ast.Name) and isinstance(s_.value, ast.Constant) and isinstance(s_.value.value, int):
                consts_[s_.targets[0].id] = s_.value.value
        for size, limit in ((11, 10), (2 ** 40, 1), (10, 10)):
            fired = []
            reason = Sym("reason-text")
            env = {"self": Sym("p"), "WebSocketProtocol": Sym("class WebSocketProtocol", **consts_), "self.log": Sym("log")}
            env.update({f"WebSocketProtocol.{k_}": v_ for k_, v_ in consts_.items()})
            env.update({f"self.{k_}": v_ for k_, v_ in consts_.items()})
            for nm_, v_ in zip(prm_, (size, limit, reason)):
                env[nm_] = v_
            t = Tiny(env, default_call=lambda f_, a_, k_=None: fired.append((f_, list(a_))) or Sym(f"<{f_}>"), opaque_globals=True, model_strings=True,
                     inline_self=inline_private(ctx, wsp, exclude=("_fail_connection", "_trigger")))
            r = t.run([x for x in sk.node.body if not (isinstance(x, ast.Expr) and isinstance(x.value, ast.Constant))])
            fc_ = [a for f_, a in fired if f_ == "self._fail_connection"]
            cell = f"size {size}, limit {limit}"
            if r[0] == "raise":
                probs.append(f"{cell}: raises {r[1]}")
            elif len(fc_) != 1 or not fc_[0] or fc_[0][0] != 1009:
                probs.append(f"{cell}: _fail_connection called {len(fc_)} time(s){' with ' + str(fc_[0][0]) if fc_ and fc_[0] else ''}, expected once with 1009")
            elif len(fc_[0]) < 2 or fc_[0][1] is not reason:
                probs.append(f"{cell}: the reason handed to _fail_connection is {fc_[0][1:] or 'missing'}")
    except AnalysisError as e:
        raise AnalysisError(f"[C16.1-early-limit-check] _max_message_size_exceeded outside the modelled subset: {e}")
    ctx.ob("_max_message_size_exceeded fails the connection exactly once, with 1009 and the reason given [3 cells]", not probs, "; ".join(probs[:2]), sk.loc())
    # reset per message
    mb = wsp.methods["onMessageBegin"]
    g3, mf3, res3 = an.get(mb)
    rs = [n for n, v in find_assign_nodes(g3, "message_data_total_length") if norm.key(v, res3) == ("c", 0)]
    ctx.ob("running total reset at message begin", len(rs) == 1, "message_data_total_length not reset to 0 in onMessageBegin", mb.loc())
    # onFrameBegin: the frame-begin hook is reached for every data frame, with the declared length, before any payload processing
    fb = wsp.methods["onFrameBegin"]
    ctx.analysed(fb)
    g4, mf4, res4 = an.get(fb)
    hook = [(n, c) for n in g4.stmt_nodes() for c in node_calls(n) if self_call(c, "_onMessageFrameBegin")]
    ok = len(hook) == 1 and [norm.text(a) for a in hook[0][1].args] == ["self.current_frame.length"]
    ctx.ob("onFrameBegin passes the declared frame length to the limit check", ok, "hook argument changed", fb.loc())
    if hook:
        f = mf4.at(hook[0][0])
        data_branch = ("lt", ("c", 7), ("e", "self.current_frame.opcode"), False) in f
        # on the data-frame branch every path reaches the hook
        tests = [n for n in g4.stmt_nodes() if n.kind == "test" and ("lt", ("c", 7), ("e", "self.current_frame.opcode"), True) in norm.atoms(n.ast, True, res4)]
        okp = data_branch and len(tests) == 1 and all(g4.always_followed_by(m, lambda x: x is hook[0][0]) or m is hook[0][0]
                                                      for m, lab in tests[0].succ if lab and lab[0] == "F")
        ctx.ob("every data frame reaches the limit check at frame begin", bool(okp), "some data-frame path through onFrameBegin skips _onMessageFrameBegin", fb.loc())
    # processData: onFrameBegin is called in the header branch right after the header is consumed (C02.1 proves consumed == header length)
    pd = wsp.methods["processData"]
    g5, mf5, res5 = an.get(pd)
    ob = [(n, c) for n in g5.stmt_nodes() for c in node_calls(n) if self_call(c, "onFrameBegin")]
    okh = len(ob) == 1 and ("is", "self.current_frame", ("c", None), True) not in (mf5.at(ob[0][0]) or ())
    unmask = [(n, c) for n in g5.stmt_nodes() for c in node_calls(n) if norm.text(c.func) == "self.current_frame_masker.process" or self_call(c, "onFrameData")]
    ok2 = bool(unmask) and all(not g5.path_exists(ob[0][0], n) for n, c in unmask) if ob else False
    ctx.ob("frame begin fires in the header branch, before any payload octet is unmasked or buffered in that call", okh and ok2,
           "payload processing reachable between the header and onFrameBegin", pd.loc())


def rule_gates(ctx):
    ctx.rule("C16.2-no-buffering-after-failure")
    an = get_analysis(ctx)
    wsp = ctx.program.cls(WSP)
    fc = wsp.methods["_fail_connection"]
    g, mf, res = an.get(fc)
    flag = [n for n, v in find_assign_nodes(g, "failedByMe") if norm.key(v, res) == ("c", True)]
    acts = [(n, c) for n in g.stmt_nodes() for c in node_calls(n) if self_call(c, ("dropConnection", "sendCloseFrame"))]
    ok = len(flag) == 1 and acts and all(g.always_preceded_by(n, lambda x: x is flag[0]) for n, c in acts)
    ctx.ob("_fail_connection raises the failedByMe gate before acting", bool(ok), "failedByMe not set first", fc.loc())
    buffers = ("self.message_data", "self.frame_data")
    count = 0
    for f in wsp.methods.values():
        if f.name in ("onMessageBegin", "onMessageFrameBegin"):
            continue  # (re)initialise the buffers, add no payload
        gg = None
        for c in calls_in(f.node):
            isbuf = isinstance(c.func, ast.Attribute) and c.func.attr in ("append", "extend", "insert") and norm.text(c.func.value) in buffers
            isdel = self_call(c, ("_onMessage", "_onMessageFrame"))
            if not (isbuf or isdel):
                continue
            gg, mm, rr = an.get(f)
            n = [x for x in gg.stmt_nodes() if any(cc is c for cc in node_calls(x))][0]
            if ("eq", "self.websocket_version", ("c", 0), True) in mm.at(n):
                ctx.note(f"{f.name}: {stmt_key(c)[:40]} in unreachable Hixie-76 branch; not armed")
                continue
            count += 1
            ctx.ob(f"{f.name}: {stmt_key(c)[:50]} gated by not failedByMe", ("truth", "self.failedByMe", None, False) in mm.at(n),
                   "payload buffered or delivered after this side failed the connection (e.g. after an over-limit frame header)", f.loc(c))
        ctx.analysed(f) if gg else None
    ctx.require(count >= 4, f"only {count} buffering/delivery sites found")
    # += on the buffers
    for f in wsp.methods.values():
        for n in walk_no_defs(f.node):
            if isinstance(n, ast.AugAssign) and norm.text(n.target) in buffers:
                ctx.ob(f"{f.name}: {stmt_key(n)}", False, "receive buffer grown by augmented assignment outside the gated append sites", f.loc(n))


def rule_send_refusal(ctx):
    ctx.rule("C16.3-send-refusal")
    an = get_analysis(ctx)
    fn = ctx.program.func(f"{WSP}.sendMessage")
    ctx.analysed(fn)
    g, mf, res = an.get(fn)
    # cell-wise over (limit, application length, wire length after optional compression, fragmentSize, autoFragmentSize): the message is
    # refused with PayloadExceededError, nothing written, iff limit > 0 and its WIRE payload exceeds the limit; otherwise the frames written
    # carry exactly the wire payload
    from ..core.tiny import Tiny, Sym, Buf
    import itertools
    wsp = ctx.program.cls(WSP)
    S_OPEN = ctx.program.class_const(wsp, "STATE_OPEN")
    body = [x for x in fn.node.body if not (isinstance(x, ast.Expr) and isinstance(x.value, ast.Constant))]
    probs = []
    cells = 0
    try:
        shapes = [(n_, None) for n_ in (0, 63, 64, 65, 200)] + [(63, 69), (64, 70), (2000, 18), (65, 64)]
        for M, (n_, wire), frag, auto in itertools.product((0, 64), shapes, (None, 16), (0, 16)):
            cells += 1
            written = []

            def default(f_, a_, k_=None):
                if f_ in ("self.sendFrame", "self.sendData"):
                    written.append(dict(k_ or {}, args=list(a_)))
                    return None
                if f_ == "type":
                    return "bytes"
                return Sym(f"<{f_}>")
            pmc = None
            if wire is not None:
                pmc = Sym("pmce", methods={"start_compress_message": lambda: None, "compress_message_data": lambda d, wire=wire: Buf(0, wire - 2), "end_compress_message": lambda: Buf(0, 2)})
            prm = fn.params()
            env = {prm[1]: Buf(0, n_), "isBinary": True, "fragmentSize": frag, "sync": False, "doNotCompress": False, "bytes": "bytes",
                   "self.state": S_OPEN, "WebSocketProtocol.STATE_OPEN": S_OPEN, "self.trackedTimings": None, "self._perMessageCompress": pmc,
                   "self.maxMessagePayloadSize": M, "self.autoFragmentSize": auto, "self.wasMaxMessagePayloadSizeExceeded": False, "self": Sym("p"),
                   "self.trafficStats.outgoingWebSocketMessages": 0, "self.trafficStats.outgoingOctetsAppLevel": 0, "self.trafficStats.outgoingOctetsWebSocketLevel": 0}
            t = Tiny(env, default_call=default, inline_self=inline_private(ctx, wsp, exclude=("_trigger", "_fail_connection", "_max_message_size_exceeded")))
            r = t.run(body)
            w = wire if wire is not None else n_
            want_refuse = M > 0 and w > M
            cell = f"limit={M} app length={n_} wire length={w} fragmentSize={frag} autoFragmentSize={auto}"
            refused = r[0] == "raise" and "PayloadExceededError" in str(r[1])
            if r[0] == "raise" and not refused:
                probs.append(f"{cell}: raises {r[1]}")
                continue
            if refused != want_refuse:
                probs.append(f"{cell}: {'refused' if refused else 'NOT refused'}, expected {'refusal' if want_refuse else 'sending'}")
            if refused and written:
                probs.append(f"{cell}: refused, but {len(written)} frame(s) were already written")
            if not refused:
                tot = sum(len(x["payload"]) if isinstance(x.get("payload"), Buf) else 0 for x in written)
                if tot != w or not written:
                    probs.append(f"{cell}: frames written carry {tot} payload octets, expected {w}")
        ctx.ob(f"sendMessage: refused locally (PayloadExceededError, nothing written) iff limit > 0 and the wire payload exceeds it [{cells} cells]", not probs,
               "; ".join(sorted(set(probs))[:2]), fn.loc())
    except AnalysisError as e:
        raise AnalysisError(f"[C16.3-send-refusal] sendMessage outside the modelled subset: {e}")


def rule_prepared_send_refusal(ctx):
    """sendPreparedMessage(): a prepared message that goes out pre-framed (no compression extension, or doNotCompress) is subject to the same
    local limit as sendMessage(); otherwise it is handed to sendMessage(), which applies the limit to the compressed length."""
    from ..core.tiny import Tiny, Sym, Buf
    import itertools
    ctx.rule("C16.3-send-refusal")
    wsp = ctx.program.cls(WSP)
    fn = wsp.methods["sendPreparedMessage"]
    ctx.analysed(fn)
    S_OPEN = ctx.program.class_const(wsp, "STATE_OPEN")
    pi = ctx.program.func("autobahn.websocket.protocol.PreparedMessage.__init__")
    # attributes of a prepared message that hold the payload length: assigned from len(payload) (possibly through a local)
    from .common import canon_text
    len_attrs = {s_.targets[0].attr for s_ in walk_no_defs(pi.node) if isinstance(s_, ast.Assign) and is_self_attr(s_.targets[0]) and canon_text(pi, s_.value) == f"len({pi.params()[1]})"}
    body = [x for x in fn.node.body if not (isinstance(x, ast.Expr) and isinstance(x.value, ast.Constant))]
    probs, cells = [], 0
    try:
        for M, n_, ext, dnc in itertools.product((0, 64), (0, 63, 64, 65, 200), (False, True), (False, True)):
            cells += 1
            written, delegated = [], []

            def default(f_, a_, k_=None):
                if f_ == "self.sendData":
                    written.append(a_[0])
                    return None
                if f_ == "self.sendMessage":
                    delegated.append(list(a_))
                    return None
                return Sym(f"<{f_}>")
            framed = Buf(0, n_ + 2)
            pm = Sym("prepared-message", payloadHybi=framed, doNotCompress=dnc, payload=Buf(0, n_), binary=True, **{a_: n_ for a_ in len_attrs})
            env = {"self": Sym("protocol"), fn.params()[1]: pm, "self.state": S_OPEN, "WebSocketProtocol.STATE_OPEN": S_OPEN, "self.maxMessagePayloadSize": M,
                   "self._perMessageCompress": Sym("pmce") if ext else None, "self.wasMaxMessagePayloadSizeExceeded": False}
            t = Tiny(env, default_call=default, inline_self=inline_private(ctx, wsp, exclude=("_trigger", "_fail_connection")))
            r = t.run(body)
            cell = f"limit {M}, prepared payload {n_} octets, extension {'active' if ext else 'absent'}, doNotCompress={dnc}"
            raw = (not ext) or dnc
            if raw:
                over = M > 0 and n_ > M
                refused = r[0] == "raise" and "PayloadExceededError" in str(r[1])
                if r[0] == "raise" and not refused:
                    probs.append(f"{cell}: raises {str(r[1])[:60]}")
                elif over and (not refused or written):
                    probs.append(f"{cell}: the over-limit message is {'written' if written else 'not refused'} ({len(written)} write(s)) although sendMessage() refuses the same payload")
                elif not over and (refused or written != [framed]):
                    probs.append(f"{cell}: {'refused' if refused else 'writes ' + str(written)}, expected the pre-framed octets to be written once")
            else:
                if not (len(delegated) == 1 and not written and r[0] != "raise"):
                    probs.append(f"{cell}: expected to be handed to sendMessage() (which compresses and applies the limit); {len(delegated)} hand-over(s), {len(written)} direct write(s)")
        ctx.ob(f"sendPreparedMessage: a pre-framed message over the local limit is refused (PayloadExceededError, nothing written); compressed ones go through sendMessage [{cells} cells]",
               not probs, "; ".join(sorted(set(probs))[:2]), fn.loc())
    except AnalysisError as e:
        raise AnalysisError(f"[C16.3-send-refusal] sendPreparedMessage outside the modelled subset: {e}")


def _accounting_cells(ctx, cls, f, name):
    """The over-limit decision is about the MESSAGE, which arrives in pieces: cell-wise over (limit, octets inflated by earlier calls, what this
    piece inflates to, already refused): the inflater is asked for (remaining allowance + 1) octets; the call raises PayloadExceededError
    iff the running total exceeds the limit, and stays refused afterwards; otherwise it returns what was inflated and adds it to the total."""
    from ..core.tiny import Tiny, Sym, Buf
    import itertools
    body = [x for x in f.node.body if not (isinstance(x, ast.Expr) and isinstance(x.value, ast.Constant))]
    # the running counter / sticky flag of this class: attributes the method both reads and writes
    written = {norm.text(t_) for st_ in walk_no_defs(f.node) if isinstance(st_, (ast.Assign, ast.AugAssign)) for t_ in (st_.targets if isinstance(st_, ast.Assign) else [st_.target])
               if is_self_attr(t_)}
    # ... told apart by how the per-message state is initialised when a message starts (counter = 0, flag = False); without such an
    # initialiser, by the accumulation idiom
    start = cls.methods.get("start_decompress_message")
    init0 = {norm.text(st_.targets[0]): st_.value.value for st_ in (walk_no_defs(start.node) if start is not None else ())
             if isinstance(st_, ast.Assign) and len(st_.targets) == 1 and is_self_attr(st_.targets[0]) and isinstance(st_.value, ast.Constant)}
    ints = sorted(w for w in written if (w in init0 and type(init0[w]) is int) or
                  (w not in init0 and any(isinstance(st_, ast.AugAssign) and norm.text(st_.target) == w for st_ in walk_no_defs(f.node))))
    flags = sorted(written - set(ints))
    if not ints and not flags:
        return  # no per-message accounting in this method: the term rules below decide (and report) what it does with the bound
    ctx.require(len(ints) == 1 and len(flags) <= 1, f"{name}: running total / refusal flag not identified (writes {sorted(written)})")
    TOT = ints[0]
    FLAG = flags[0] if flags else None
    probs, cells = [], 0
    try:
        for N, D, avail, refused in itertools.product((None, 4), (0, 2, 4), (0, 1, 2, 3, 5, 9), (False, True)):
            if N is None and (D or refused):
                continue
            if refused and FLAG is None:
                continue
            cells += 1
            asked = []

            def decompress(data, max_length=None):
                asked.append(max_length)
                n_ = avail if max_length is None else min(avail, max_length)
                return Buf(0, n_)
            env = {"self": Sym("pmce"), "self.max_message_size": N, TOT: (5 if refused else D), "self._decompressor": Sym("inflater", methods={"decompress": decompress}),
                   f.params()[1]: Buf(100, 100 + 7)}
            if FLAG:
                env[FLAG] = refused
            t = Tiny(env, default_call=lambda f_, a_, k_=None: Sym(f"<{f_}>"))
            r = t.run(body)
            cell = f"limit {N}, {D} octet(s) inflated before, this piece inflates to {avail}" + (", message already refused" if refused else "")
            if N is None:
                if not (r[0] == "return" and isinstance(r[1], Buf) and len(r[1]) == avail and asked == [None]):
                    probs.append(f"{cell}: {r[0]} {r[1]} (inflater asked for {asked})")
                continue
            if refused:
                if not (r[0] == "raise" and "PayloadExceededError" in str(r[1])) or asked:
                    probs.append(f"{cell}: {r[0]} {str(r[1])[:40]}, inflater used {len(asked)} time(s); expected the refusal to stick")
                continue
            want_len = min(avail, N - D + 1)
            over = D + want_len > N
            if asked != [N - D + 1]:
                probs.append(f"{cell}: inflater asked for {asked}, expected the remaining allowance + 1 = {N - D + 1}")
            elif over and not (r[0] == "raise" and "PayloadExceededError" in str(r[1])):
                probs.append(f"{cell}: running total {D + want_len} exceeds the limit but the piece is handed on ({r[0]} {r[1]})")
            elif not over and not (r[0] == "return" and isinstance(r[1], Buf) and len(r[1]) == want_len and t.env.get(TOT) == D + want_len):
                probs.append(f"{cell}: {r[0]} {str(r[1])[:40]}, total {t.env.get(TOT)}; expected {want_len} octets handed on and a total of {D + want_len}")
            elif over and FLAG and t.env.get(FLAG) is not True:
                probs.append(f"{cell}: refused, but the refusal is not remembered (later pieces of the message would be inflated again)")
        ctx.ob(f"{name}: the limit applies to the running total of the message across calls; asks for allowance + 1, refuses iff exceeded, refusal sticks [{cells} cells]",
               not probs, "; ".join(probs[:2]), f.loc())
    except AnalysisError as e:
        raise AnalysisError(f"[C16.4-bounded-decompress-pairing] {name} outside the modelled subset: {e}")


def rule_bounded_decompress(ctx):
    """A size-bounded inflate must never hand out a silently truncated message: either the unread input is inspected
    (unconsumed_tail / eof idiom) or one octet more than the allowance is requested and an excess raises before the data
    is returned; the protocol turns that error into 1009 and delivers nothing."""
    from ..core.terms import TermEval, show, subterms
    ctx.rule("C16.4-bounded-decompress-pairing")
    p = ctx.program
    found = 0
    for mn in ("compress_deflate", "compress_bzip2", "compress_brotli", "compress_snappy"):
        m = p.modules.get(f"autobahn.websocket.{mn}")
        if m is None:
            continue
        for c in m.classes.values():
            for f in c.methods.values():
                sites = [call for call in calls_in(f.node) if isinstance(call.func, ast.Attribute) and call.func.attr == "decompress" and
                         (len(call.args) >= 2 or any(k.arg == "max_length" for k in call.keywords))]
                if not sites:
                    continue
                found += len(sites)
                ctx.analysed(f)
                name = f"{c.qualname}.{f.name}"
                tail_idiom = any(isinstance(n, ast.Attribute) and n.attr in ("unconsumed_tail", "eof", "needs_input") for n in ast.walk(f.node))
                te = TermEval(p, f, inline=lambda call, fn: None).run()
                rets = [o for o in te.outcomes if o.kind == "return"]
                raises = [o for o in te.outcomes if o.kind == "raise"]

                def bounded(t):
                    return [x for x in subterms(t) if x[0] == "m" and x[2] == "decompress" and (len(x[3]) >= 2 or any(k[1] == "max_length" for k in x[4]))]

                def limit_cmps(conds):
                    out = []
                    for cnd, pol in conds:
                        for x in subterms(cnd):
                            if x[0] == "cmp" and x[1] in (">", ">=", "<", "<=") and any(y[0] == "attr" and y[2] == "max_message_size" for z in x[2:] for y in subterms(z)) \
                                    and any(y[0] == "call" and y[1] == ("g", "len") and bounded(y) for z in x[2:] for y in subterms(z)):
                                out.append((x, pol))
                    return out
                for o in rets:
                    b = bounded(o.term)
                    if not b:
                        continue
                    guarded = bool(limit_cmps(o.conds))
                    ctx.ob(f"{name}: bounded decompress() output is returned only after the produced length was compared with the limit (or the unread tail inspected)",
                           guarded or tail_idiom,
                           "decompress(data, max_length) drops everything beyond max_length silently: the over-limit message is delivered truncated and the "
                           "decompressor keeps the unread tail (corrupting later messages)", f.loc(o.node))
                    if guarded and not tail_idiom:
                        # the requested bound must exceed the remaining allowance, else an overflow is indistinguishable from an exact fit
                        bound = b[0][3][1] if len(b[0][3]) >= 2 else dict((k[1], k[2]) for k in b[0][4]).get("max_length")
                        plus_one = bound[0] == "op" and bound[1] == "+" and ("c", 1) in bound[2:] and \
                            any(y[0] == "attr" and y[2] == "max_message_size" for y in subterms(bound))
                        ctx.ob(f"{name}: the inflater is asked for one octet more than the message may still grow", plus_one,
                               f"bound is {show(bound)}: with a bound equal to the allowance, an over-limit message is cut at the limit and cannot be told from one that fits",
                               f.loc(o.node))
                if not tail_idiom and f.name == "decompress_message_data":
                    _accounting_cells(ctx, c, f, name)
                if not tail_idiom:
                    exc = [o for o in raises if limit_cmps(o.conds)]
                    ctx.ob(f"{name}: exceeding the limit raises instead of returning data", bool(exc) and all("PayloadExceededError" in show(o.term) for o in exc),
                           "no raise under `produced > max_message_size`", f.loc())
    ctx.per_rule[ctx.cur_rule]["bounded_decompress_sites"] = found
    # the embedded positive example keeps the rule from passing vacuously if the pattern stops matching
    probe = ast.parse("class X:\n def d(self, data):\n  return self._d.decompress(data, self.max)\n")
    hits = [c for c in ast.walk(probe) if isinstance(c, ast.Call) and isinstance(c.func, ast.Attribute) and c.func.attr == "decompress" and len(c.args) >= 2]
    ctx.require(len(hits) == 1, "bounded-decompress matcher lost its positive example")
    # protocol side: the error becomes 1009 and nothing of that message is delivered
    fn = p.func(f"{WSP}.onFrameData")
    ctx.analysed(fn)
    an = get_analysis(ctx)
    g, mf, res = an.get(fn)
    dn = [(n, c) for n in g.stmt_nodes() for c in node_calls(n) if norm.text(c.func) == "self._perMessageCompress.decompress_message_data"]
    ctx.require(len(dn) == 1, "onFrameData: decompress_message_data call not found")
    raises_pe = found > 0 and any("PayloadExceededError" in ast.unparse(f.node) for mn in ("compress_deflate",) for c in p.modules[f"autobahn.websocket.{mn}"].classes.values()
                                  for f in c.methods.values() if f.name == "decompress_message_data")
    if raises_pe:
        hs = [m_ for m_, lab in dn[0][0].succ if lab and lab[0] == "exc"]
        hs = [h for h in hs if h.ast.type is not None and "PayloadExceededError" in norm.text(h.ast.type)]
        ctx.ob("onFrameData: an over-limit decompressed message is caught where it is inflated", len(hs) == 1,
               "PayloadExceededError from the PMCE escapes onFrameData (into dataReceived)", fn.loc(dn[0][1]))
        if hs:
            body_calls = [c for b in hs[0].ast.body for c in ast.walk(b) if isinstance(c, ast.Call)]
            ctx.ob("onFrameData: the connection is failed with 1009 (message too big)", any(self_call(c, "_max_message_size_exceeded") for c in body_calls),
                   "handler does not call _max_message_size_exceeded", fn.loc(hs[0].ast))
            # after the handler nothing of the inflated data survives: either return False or payload replaced by empty bytes
            ends = []
            for b in hs[0].ast.body:
                for x in ast.walk(b):
                    if isinstance(x, ast.Assign) and norm.text(x.targets[0]) == "payload":
                        ends.append(norm.text(x.value))
            last = hs[0].ast.body[-1]
            ok = (isinstance(last, ast.Return)) or (ends and ends[-1] in ("b''", 'b""'))
            ctx.ob("onFrameData: nothing of the over-limit message is passed on", bool(ok), "handler falls through with the partial payload", fn.loc(hs[0].ast))


def rule_message_start(ctx, rule_id="C16.4-bounded-decompress-pairing"):
    """The decompression limit is per MESSAGE: whatever a previous message inflated to must not count against the next one, with or without
    context takeover.  PerMessageDeflate.start_decompress_message is evaluated cell-wise (sa.core.tiny) over (role, inflater kept from the
    previous message or not, no-context-takeover of the receiving direction) with a stale running total: afterwards the total is 0, and the
    inflater is a fresh one exactly when there was none or the direction runs without context takeover."""
    from ..core.tiny import Tiny, Sym
    import itertools
    ctx.rule(rule_id)
    cls = ctx.program.cls("autobahn.websocket.compress_deflate.PerMessageDeflate")
    fn = cls.methods["start_decompress_message"]
    ctx.analysed(fn)
    # the per-message running total: the attribute this method initialises with the integer 0 (as _accounting_cells identifies it)
    zeros = sorted({norm.text(st_.targets[0]) for st_ in walk_no_defs(fn.node) if isinstance(st_, ast.Assign) and len(st_.targets) == 1 and is_self_attr(st_.targets[0])
                    and isinstance(st_.value, ast.Constant) and type(st_.value.value) is int and st_.value.value == 0})
    if not zeros:
        return  # no per-message accounting in this class (nothing to carry over): the bounded-decompress rules below decide what it does instead
    ctx.require(len(zeros) == 1, f"per-message running total not identified ({zeros})")
    TOT = zeros[0]
    from .common import inline_private
    probs, n = [], 0
    try:
        for server, kept, nct in itertools.product((True, False), (True, False), (True, False)):
            old = Sym("inflater-of-the-previous-message") if kept else None
            fresh = []

            def orc(f_, a_, k_=None):
                if f_.endswith("decompressobj"):
                    fresh.append(Sym(f"fresh-inflater(wbits={a_[0] if a_ else None})"))
                    return fresh[-1]
                return Sym(f"<{f_}>")
            env = {"self": Sym("pmce"), "self._is_server": server, "self._decompressor": old, TOT: 77, "self._oversized": False, "self.max_message_size": 100,
                   "self.client_no_context_takeover": nct if server else (not nct), "self.server_no_context_takeover": (not nct) if server else nct,
                   "self.client_max_window_bits": 10, "self.server_max_window_bits": 12}
            t = Tiny(env, default_call=orc, inline_self=inline_private(ctx, cls), opaque_globals=True)
            r = t.run([x for x in fn.node.body if not (isinstance(x, ast.Expr) and isinstance(x.value, ast.Constant))])
            n += 1
            tag = f"{'server' if server else 'client'}, inflater {'kept' if kept else 'absent'}, receiving direction {'without' if nct else 'with'} context takeover"
            if r[0] == "raise":
                probs.append(f"{tag}: raises {r[1]}")
                continue
            if t.env.get(TOT) != 0:
                probs.append(f"{tag}: the running total of the previous message ({t.env.get(TOT)}) is carried into the next message")
            now = t.env.get("self._decompressor")
            want_fresh = (not kept) or nct
            if want_fresh != (bool(fresh) and now is fresh[-1]) or (not want_fresh and now is not old):
                probs.append(f"{tag}: inflater afterwards {now}, expected {'a fresh one' if want_fresh else 'the kept one'}")
            if fresh and fresh[-1].name != f"fresh-inflater(wbits={-(10 if server else 12)})":
                probs.append(f"{tag}: {fresh[-1].name}, expected the window of the peer's direction as raw-deflate wbits {-(10 if server else 12)}")
    except AnalysisError as e:
        raise AnalysisError(f"[{rule_id}] start_decompress_message outside the modelled subset: {e}")
    ctx.ob(f"start_decompress_message: the per-message total starts at 0 for every message; the inflater is renewed exactly when the direction has no context takeover [{n} cells]",
           not probs, "; ".join(probs[:2]), fn.loc())


def rule_option_plumbing(ctx):
    """"With a maximum frame or message payload size configured ...": the limit the application configures must be the limit the protocol
    enforces.  setProtocolOptions of both factories is evaluated (sa.core.tiny) with exactly one of the two size options given: that
    attribute, and only that one, takes the value."""
    from ..core.tiny import Tiny, Sym
    ctx.rule("C16.5-configured-limit-is-the-enforced-limit")
    probs, n = [], 0
    for clsq in (WSS.replace("ServerProtocol", "ServerFactory"), WSC.replace("ClientProtocol", "ClientFactory")):
        cls = ctx.program.cls(clsq)
        fn = ctx.program.lookup_method(cls, "setProtocolOptions")
        ctx.require(fn is not None, f"{clsq}.setProtocolOptions not found")
        ctx.analysed(fn)
        params = fn.params()[1:] + [a.arg for a in fn.node.args.kwonlyargs]
        reads = {x.attr for x in ast.walk(fn.node) if is_self_attr(x) and ctx.program.lookup_method(cls, x.attr) is None}
        body = [x for x in fn.node.body if not (isinstance(x, ast.Expr) and isinstance(x.value, ast.Constant))]
        for opt in ("maxFramePayloadSize", "maxMessagePayloadSize"):
            ctx.require(opt in params, f"{clsq}.setProtocolOptions has no parameter {opt}")
            env = {"self": Sym("factory")}
            env.update({f"self.{r_}": 0 for r_ in reads})
            env.update({p_: None for p_ in params})
            a_ = fn.node.args
            pos = [x.arg for x in a_.posonlyargs + a_.args]
            for nm_, d_ in list(zip(pos[len(pos) - len(a_.defaults):], a_.defaults)) + [(k_.arg, d_) for k_, d_ in zip(a_.kwonlyargs, a_.kw_defaults) if d_ is not None]:
                if isinstance(d_, ast.Constant):
                    env[nm_] = d_.value  # the signature's own default
            env[opt] = 4096
            other = "maxMessagePayloadSize" if opt == "maxFramePayloadSize" else "maxFramePayloadSize"
            # ... with the other limit not configured, and with the other limit already configured to the very same number
            for other_now in (0, 4096):
                env2 = dict(env)
                env2[f"self.{other}"] = other_now
                try:
                    t = Tiny(env2, default_call=lambda f_, a_, k_=None: Sym(f"<{f_}>"), model_types=True, opaque_globals=True)
                    r = t.run(body)
                except AnalysisError as e:
                    raise AnalysisError(f"[C16.5-configured-limit-is-the-enforced-limit] {clsq}.setProtocolOptions outside the modelled subset: {e}")
                n += 1
                get = lambda nm: t.env.get(f"self.{nm}", t.env["self"].attrs.get(nm))
                if r[0] == "raise" or get(opt) != 4096 or get(other) != other_now:
                    probs.append(f"{cls.name}.setProtocolOptions({opt}=4096) with {other} = {other_now} before: {opt} = {get(opt)}, {other} = {get(other)} afterwards "
                                 f"({r[0]} {str(r[1])[:60]})")
    ctx.ob(f"setProtocolOptions: each payload size option sets its own limit and only that one, on both factories [{n} cells]", not probs, "; ".join(probs[:2]), fn.loc())


def run(ctx):
    # what the application configures is what the connection uses: options handed to setProtocolOptions reach the factory attribute of their name
    from .common import rule_option_setters
    rule_option_setters(ctx, "C16.6-configured-limits-reach-the-factory", [('WebSocketServerFactory', 'maxFramePayloadSize', 'num'), ('WebSocketServerFactory', 'maxMessagePayloadSize', 'num'), ('WebSocketServerFactory', 'autoFragmentSize', 'num'), ('WebSocketClientFactory', 'maxFramePayloadSize', 'num'), ('WebSocketClientFactory', 'maxMessagePayloadSize', 'num'), ('WebSocketClientFactory', 'autoFragmentSize', 'num')],
                        "the configured payload limit is then not the one enforced")
    rule_option_plumbing(ctx)
    rule_message_start(ctx)
    rule_early_check(ctx)
    rule_gates(ctx)
    rule_send_refusal(ctx)
    rule_prepared_send_refusal(ctx)
    rule_bounded_decompress(ctx)
