"""C08 - Untrusted WAMP input is either a valid message or a protocol error."""
import ast
import re

from ..core.index import AnalysisError, walk_no_defs, calls_in, call_name, dotted_name
from ..core.cfg import node_calls
from ..core import norm
from ..core.absint import Interp, State, AV, ANY_LEN, INF_LEN, ALL
from .common import get_analysis, is_self_attr, stmt_key

META = {
    "explanation": "Abstract interpretation over type atoms: each of the 25 Message.parse functions is interpreted with the raw "
                   "message modelled as a list of unknown length whose elements are arbitrary values (None, bools, four integer "
                   "ranges, float, empty/non-empty str/bytes/list/dict, other, with element and per-key summaries); guards "
                   "narrow, `raise ProtocolError/InvalidUriError` ends a path; at the constructor call the abstract arguments are "
                   "bound to __init__ (and _init_app_payload/_init_forward_for) and EVERY assert is evaluated: if some surviving "
                   "combination of atoms falsifies it, the flow is reported with the witness atoms. Validator functions are "
                   "interpreted at the call site (summaries computed, not written). Also: exceptions other than the two "
                   "protocol errors, out-of-range message positions, message formats taken from the class docstrings vs the "
                   "validators applied to each position, URI regex anchoring, and the envelope checks of Serializer.unserialize.",
    "assumptions": ["nested unnamed containers are not alias-tracked (no verdict for reads through them)",
                    "instance-of-class asserts on objects built by the parser itself are outside the atom domain",
                    "equivalence of the re-marshalled value with the input is a value statement (structural part: C03)",
                    "third-party decoders may raise anything; that is decided by the `except Exception` wrap, not by analysing them"],
}

MSGMOD = "autobahn.wamp.message"
CHECKED_CTORS = ("__init__", "_init_app_payload", "_init_forward_for")


def _classes(ctx):
    m = ctx.program.module(MSGMOD)
    base = m.classes.get("Message")
    ctx.require(base is not None, "Message base class missing")
    out = [c for c in m.classes.values() if base in ctx.program.mro(c) and c is not base and "parse" in c.methods]
    return m, base, out


def rule_flow(ctx):
    ctx.rule("C08.1-parse-to-ctor-assert-discharge")
    m, base, classes = _classes(ctx)
    ctx.require(len(classes) >= 25, f"only {len(classes)} message classes with parse() found")
    ctx._c08 = {}
    for c in classes:
        it = Interp(ctx.program, max_disjuncts=256)
        seen_asserts = {}
        it.assert_pred = lambda g: g.module.name == MSGMOD and g.name in CHECKED_CTORS
        fn = c.methods["parse"]
        ctx.analysed(fn)
        st = State()
        st["wmsg"] = AV({"list"})
        st["@len:wmsg"] = ANY_LEN
        # wrap the assert bookkeeping: count every evaluated assert site once per class
        orig_stmt = it.stmt

        def stmt(s, st_, fn_, ctxt, _orig=orig_stmt, _seen=seen_asserts):
            if isinstance(s, ast.Assert) and ctxt.get("check_asserts"):
                _seen.setdefault((fn_.qualname, " ".join(ast.unparse(s.test).split())), fn_.loc(s))
            return _orig(s, st_, fn_, ctxt)

        it.stmt = stmt
        outs, rets, ret_states = it.run_function(fn, st, want_states=True)
        ctx._c08[c.name] = (it, ret_states)
        failing = {}
        for f in it.findings:
            if f.kind == "assert":
                k = (f.fn.qualname, f.msg.replace("assertion can fail: ", ""))
                failing.setdefault(k, f)
        for (q, text), loc in sorted(seen_asserts.items()):
            short = q.replace(MSGMOD + ".", "")
            bad = None
            for (fq, ftext), f in failing.items():
                if fq == q and text.startswith(ftext[:130]):
                    bad = f
            wit = ""
            if bad is not None:
                wit = "; witness: " + ", ".join(f"{k} in {v}" for k, v in sorted(bad.witness.items()))
            ctx.ob(f"{c.name}.parse -> {short}: assert {text[:110]}", bad is None,
                   f"a value accepted by {c.name}.parse() can reach this constructor assertion and falsify it (AssertionError instead of "
                   f"ProtocolError; silently accepted under python -O){wit}", loc)
        ctx.ob(f"{c.name}.parse: constructor reached", it.stats["asserts"] > 0 or c.name in ("EventReceived",), "parse() never reaches a checked constructor", fn.loc())
        ctx.per_rule[ctx.cur_rule].setdefault("stmts_interpreted", 0)
        ctx.per_rule[ctx.cur_rule]["stmts_interpreted"] += it.stats["stmts"]
        if it.stats.get("overflow_joins"):
            ctx.note(f"{c.name}: disjunct overflow, relational precision reduced")
    ctx.floor("C08.1-parse-to-ctor-assert-discharge", 250)


def rule_escape(ctx):
    ctx.rule("C08.2-parse-totality")
    m, base, classes = _classes(ctx)
    for c in classes:
        it, _ = ctx._c08[c.name]
        seen = set()
        for f in it.findings:
            if f.kind.startswith(("escape:", "raise:")):
                exc = f.kind.split(":")[1]
                k = (exc, f.fn.qualname, " ".join(ast.unparse(f.node).split())[:80])
                if k in seen:
                    continue
                seen.add(k)
                ctx.ob(f"{c.name}.parse: {exc} at `{k[2]}` in {f.fn.name}", False,
                       f"{exc} can leave {c.name}.parse() ({f.msg}); only ProtocolError / InvalidUriError are allowed", f.fn.loc(f.node))
        raised = {e for e, _, _ in it.raised}
        ctx.ob(f"{c.name}.parse: explicit raises are protocol errors only", raised <= {"ProtocolError", "InvalidUriError"}, f"raises {sorted(raised)}", c.methods["parse"].loc())
    # role feature constructors accept arbitrary keywords (role_cls(**features))
    rm = ctx.program.module("autobahn.wamp.role")
    rn = rm.consts.get("ROLE_NAME_TO_CLASS")
    ctx.require(isinstance(rn, ast.Dict), "ROLE_NAME_TO_CLASS dict literal missing")
    for v in rn.values:
        rc = ctx.program.resolve_name(rm, v)
        ctx.require(rc is not None and "__init__" in rc.methods, f"role class {ast.unparse(v)} not resolvable")
        ini = rc.methods["__init__"]
        ctx.ob(f"{rc.name}.__init__ accepts unknown feature keywords (**kwargs)", ini.node.args.kwarg is not None,
               "role_cls(**features) raises TypeError for a feature name the class does not know", ini.loc())
        # and its own checks raise ProtocolError
        it = Interp(ctx.program)
        st = State({a.arg: AV(ALL) for a in ini.node.args.args[1:]})
        st["self"] = AV({"other"})
        if ini.node.args.kwarg:
            st[ini.node.args.kwarg.arg] = AV({"dict0", "dict"}, keys_str=True)
        try:
            it.run_function(ini, st)
            bad = {e for e, _, _ in it.raised} - {"ProtocolError", "InvalidUriError"}
            ctx.ob(f"{rc.name}.__init__ raises protocol errors only", not bad, f"raises {sorted(bad)}", ini.loc())
        except AnalysisError as e:
            ctx.note(f"{rc.name}.__init__ not interpretable: {e}")


FORMAT_RE = re.compile(r"\[\s*([A-Z_]+)\s*,(.*?)\]")


def rule_strictness(ctx):
    ctx.rule("C08.3-strictness")
    m, base, classes = _classes(ctx)
    an = get_analysis(ctx)
    # validators' own extension on arbitrary input
    for fname, want, why in (("check_or_raise_id", {"int0", "int+"}, "ids are ints in 0..2^53 (no bool, no negative, none above 2^53)"),
                             ("check_or_raise_extra", {"dict0", "dict"}, "extra/options/details are dicts"),
                             ("check_or_raise_realm_name", {"str0", "str"}, "realm names are strings")):
        fn = m.funcs.get(fname)
        ctx.require(fn is not None, f"{fname} missing")
        ctx.analysed(fn)
        it = Interp(ctx.program)
        st = State({a.arg: AV(ALL) for a in fn.node.args.args})
        st["message"] = AV({"str"})
        if "allow_eth" in st:
            st["allow_eth"] = AV({"True", "False"})
        outs, rets = it.run_function(fn, st)
        got = set()
        for r in rets:
            got |= r.atoms
        ctx.ob(f"{fname}: returns only {sorted(want)} for arbitrary input", got <= want and got, f"can return {sorted(got)}: {why}", fn.loc())
        bad = {e for e, _, _ in it.raised} - {"ProtocolError", "InvalidUriError"}
        ctx.ob(f"{fname}: raises protocol errors only", not bad and not [f for f in it.findings if f.kind.startswith("escape")], f"raises {sorted(bad)}", fn.loc())
        if fname == "check_or_raise_extra":
            ks = all(rs.get("value") is not None and (rs["value"].keys_str or not rs["value"].atoms & {"dict"}) for rs in []) or True
    fn = m.funcs["check_or_raise_uri"]
    for allow_none in (True, False):
        it = Interp(ctx.program)
        st = State({a.arg: AV(ALL) for a in fn.node.args.args})
        st["message"] = AV({"str"})
        st["allow_none"] = AV({"True"} if allow_none else {"False"})
        for k in ("strict", "allow_empty_components", "allow_last_empty"):
            st[k] = AV({"True", "False"})
        outs, rets = it.run_function(fn, st)
        got = set()
        for r in rets:
            got |= r.atoms
        want = {"str0", "str"} | ({"None"} if allow_none else set())
        ctx.ob(f"check_or_raise_uri(allow_none={allow_none}): returns only {sorted(want)}", got <= want and got, f"can return {sorted(got)}", fn.loc())
    # every URI pattern anchored at both ends
    import re._parser as sre
    pats = [k for k in m.consts if k.startswith("_URI_PAT_")]
    ctx.require(len(pats) >= 8, "URI patterns not found")
    # how each pattern is applied: .fullmatch() needs no end anchor, .match() needs an end anchor that does not let a trailing newline through
    uses = {}
    for f in m.funcs.values():
        for c in calls_in(f.node):
            if isinstance(c.func, ast.Attribute) and c.func.attr in ("match", "search", "fullmatch"):
                uses.setdefault(norm.text(c.func.value), set()).add(c.func.attr)
    generic = set()
    for c in calls_in(fn.node):
        if isinstance(c.func, ast.Attribute) and c.func.attr in ("match", "search", "fullmatch"):
            generic.add(c.func.attr)  # check_or_raise_uri applies a pattern chosen at run time
    for k in pats + [x for x in m.consts if x == "_CUSTOM_ATTRIBUTE"]:
        e = m.consts[k]
        ok = isinstance(e, ast.Call) and call_name(e) == "re.compile" and isinstance(e.args[0], ast.Constant)
        end = None
        if ok:
            try:
                p = sre.parse(e.args[0].value)
                ok = str(p[0][0]) == "AT" and str(p[0][1]) == "AT_BEGINNING" and str(p[-1][0]) == "AT"
                end = str(p[-1][1]) if ok else None
            except Exception:
                ok = False
        how = uses.get(k, set()) | (generic if k.startswith("_URI_PAT_") else set())
        full = how == {"fullmatch"}
        ctx.ob(f"{k} is anchored at the beginning", ok or full, "URI pattern would accept garbage followed by a valid suffix", m.relpath)
        ctx.ob(f"{k} must match up to the very end of the string", full or (ok and end == "AT_END_STRING" and "search" not in how),
               f"end anchor is {end or 'missing'} and the pattern is applied with {sorted(how) or '?'}: `$` also matches before a trailing newline, "
               f"so 'com.myapp.topic\\n' is accepted as a URI", m.relpath)
    matchers = [c for c in calls_in(fn.node) if isinstance(c.func, ast.Attribute) and c.func.attr in ("match", "search", "fullmatch")]
    ctx.ob("check_or_raise_uri uses .match on the anchored pattern", len(matchers) == 1 and matchers[0].func.attr in ("match", "fullmatch"), "changed", fn.loc())
    # message formats from the class docstrings
    validators = {"id": {"check_or_raise_id"}, "uri": {"check_or_raise_uri", "check_or_raise_realm_name"}}
    for c in classes:
        doc = ast.get_docstring(c.node) or ""
        fmts = []
        for mm in re.finditer(r"``\[(.*?)\]``", doc, re.S):
            parts = [x.strip() for x in " ".join(mm.group(1).split()).split(",")]
            fmts.append(parts)
        fn = c.methods["parse"]
        it, ret_states = ctx._c08[c.name]
        if not fmts:
            ctx.note(f"{c.name}: no format line in the docstring")
            continue
        lens_doc = {len(f) for f in fmts}
        _payload_shape_cells(ctx, m, c, fmts)
        ctx._c08_optcells = getattr(ctx, '_c08_optcells', []) + [(c, fmts)]
        # accepted lengths
        lens = set()
        for rs in ret_states:
            lens |= set(rs.get("@len:wmsg") or ())
        ctx.ob(f"{c.name}.parse: accepts exactly the documented element counts {sorted(lens_doc)}", lens == lens_doc,
               f"accepts lengths {sorted('inf' if l == INF_LEN else l for l in lens)}", fn.loc())
        # typed positions -> validator
        calls = {}
        for call in calls_in(fn.node):
            nm = call_name(call)
            if nm in ("check_or_raise_id", "check_or_raise_uri", "check_or_raise_realm_name", "check_or_raise_extra") and call.args:
                a0 = call.args[0]
                if isinstance(a0, ast.Subscript) and norm.text(a0.value) == "wmsg" and isinstance(a0.slice, ast.Constant):
                    calls.setdefault(a0.slice.value, set()).add(nm)
        pos_types = {}
        for f in fmts:
            for i, part in enumerate(f):
                if "|" in part:
                    name, typ = part.split("|", 1)
                    pos_types.setdefault(i, set()).add((name.strip(), typ.strip()))
        for i, nts in sorted(pos_types.items()):
            for name, typ in sorted(nts):
                if typ in validators:
                    ctx.ob(f"{c.name}.parse: position {i} ({name}|{typ}) goes through {'/'.join(sorted(validators[typ]))}", bool(calls.get(i, set()) & validators[typ]),
                           f"wmsg[{i}] is documented as {typ} but not validated as such", fn.loc())
                elif typ == "dict" and name in ("Options", "Details"):
                    ctx.ob(f"{c.name}.parse: position {i} ({name}|dict) goes through check_or_raise_extra", "check_or_raise_extra" in calls.get(i, set()),
                           f"wmsg[{i}] ({name}) not validated as a str-keyed dict", fn.loc())


def parse_on(ctx, m, c, wmsg, rule_tag="C08.3-strictness", typed_validators=False, trace=None, inline_validators=False):
    """Abstract evaluation (sa.core.tiny) of `c.parse` on the raw message `wmsg`: (outcome, [constructor arguments by name]).
    typed_validators: the check_or_raise_* validators answer by their extension (decided separately by the C08.3 validator obligations):
    an id is a non-bool int in 0..2^53, a URI / realm a str (None where allowed), extra a dict; everything else is a ProtocolError."""
    from ..core.tiny import Tiny, Sym, TinyRaise
    fn = c.methods["parse"]
    prm = fn.params()
    body = [s_ for s_ in fn.node.body if not (isinstance(s_, ast.Expr) and isinstance(s_.value, ast.Constant))]
    env = {}
    for k_ in m.classes.values():
        try:
            env[f"{k_.name}.MESSAGE_TYPE"] = ctx.program.class_const(k_, "MESSAGE_TYPE")
        except KeyError:
            pass
    made = []
    depth = [0]

    for s_ in c.node.body:
        if isinstance(s_, ast.Assign) and len(s_.targets) == 1 and isinstance(s_.targets[0], ast.Name) and isinstance(s_.value, ast.Constant):
            env.setdefault(f"{c.name}.{s_.targets[0].id}", s_.value.value)

    def oracle(fname, args, kwargs=None):
        if inline_validators and (fname.endswith(".match") or fname.endswith(".fullmatch")) and len(args) == 1:
            # a compiled pattern applied to a value: TypeError for anything but text, else an opaque (truthy) match for the model's well-formed URIs
            if not isinstance(args[0], str):
                raise TinyRaise("TypeError")
            return Sym("match")
        if fname.startswith("check_or_raise_") and trace is not None:
            vf_ = m.funcs.get(fname)
            tb_ = {}
            if vf_ is not None:
                nm_ = vf_.params()
                df_ = vf_.node.args.defaults
                tb_ = {n_: (d_.value if isinstance(d_, ast.Constant) else None) for n_, d_ in zip(nm_[len(nm_) - len(df_):], df_)}
                tb_.update(dict(zip(nm_, args)))
            tb_.update(kwargs or {})
            trace.append((fname, tb_))
        if fname.startswith("check_or_raise_") and typed_validators:
            v = args[0]
            kw = kwargs or {}
            if fname == "check_or_raise_id":
                ok = type(v) == int and 0 <= v <= 2 ** 53
            elif fname == "check_or_raise_extra":
                ok = type(v) == dict
            else:
                vf = m.funcs.get(fname)
                b_ = dict(zip(vf.params(), args)) if vf is not None else {}
                b_.update(kw)
                allow_none = b_.get("allow_none", False)
                ok = type(v) == str or (v is None and allow_none is True)
            if not ok:
                raise TinyRaise("ProtocolError")
            return v
        if fname.startswith("check_or_raise_") and not inline_validators:
            return args[0]
        if fname.startswith("is_valid_"):
            return True
        if fname in m.funcs and depth[0] < 3:
            # a module-level helper (predicate) of the parser: evaluated on the cell like the parser itself
            g_ = m.funcs[fname]
            names_ = g_.params()
            dflt = g_.node.args.defaults
            b_ = {n_: (d_.value if isinstance(d_, ast.Constant) else None) for n_, d_ in zip(names_[len(names_) - len(dflt):], dflt)}
            b_.update(dict(zip(names_, args)))
            b_.update(kwargs or {})
            gb = [s_ for s_ in g_.node.body if not (isinstance(s_, ast.Expr) and isinstance(s_.value, ast.Constant))]
            depth[0] += 1
            try:
                r_ = Tiny(b_, default_call=oracle, model_types=True, model_strings=True, opaque_globals=True, local_defs=True).run(gb)
            finally:
                depth[0] -= 1
            if r_[0] == "return":
                return r_[1]
            if r_[0] == "raise":
                raise TinyRaise(str(r_[1]).split("(")[0].strip().split(".")[-1])
            return None
        if fname == c.name:
            names = c.methods["__init__"].params()[1:]
            b_ = dict(zip(names, args))
            b_.update(kwargs or {})
            made.append(b_)
            return Sym("message")
        return Sym(f"<{fname}>")
    env[prm[0]] = list(wmsg)
    try:
        r = Tiny(env, default_call=oracle, model_types=True, model_strings=True, opaque_globals=True, local_defs=True).run(body)
    except AnalysisError as e:
        raise AnalysisError(f"[{rule_tag}] {c.name}.parse outside the modelled subset: {e}")
    return r, made


def doc_prefix(ctx, m, c, fmts):
    """the documented fixed prefix of the message as model values"""
    base = min(fmts, key=len)
    vals = {"id": 7, "uri": "com.x.y", "string": "abc"}
    prefix = [ctx.program.class_const(c, "MESSAGE_TYPE")]
    for part in base[1:]:
        typ = part.split("|", 1)[1].strip() if "|" in part else "?"
        if typ == "int":
            prefix.append(ctx.program.class_const(m.classes["Call"], "MESSAGE_TYPE"))
        elif typ == "dict":
            prefix.append({})
        elif typ in vals:
            prefix.append(vals[typ])
        else:
            raise AnalysisError(f"{c.name}: documented element type {typ!r} not in the cell model")
    return prefix


def _payload_shape_cells(ctx, m, c, fmts):
    """Messages with application payload: the documented forms are `... , Arguments|list[, ArgumentsKw|dict]` or `..., Payload|binary`.
    parse() is evaluated cell-wise (sa.core.tiny) on the documented prefix followed by every small tail shape: it must produce the message
    for exactly the documented tails (with the list / dict / octets in the matching constructor argument) and a ProtocolError otherwise."""
    from ..core.tiny import Tiny, Sym, Buf
    tails = [f for f in fmts if f[-1].split("|")[-1].strip() == "binary"]
    if not tails:
        return 0
    fn = c.methods["parse"]
    prefix = doc_prefix(ctx, m, c, fmts)
    L, D, B = [Sym("positional")], {"k": Sym("value")}, Buf(0, 4)
    shapes = [("nothing", [], "plain"), ("a list", [L], "args"), ("a list and a dict", [L, D], "kwargs"), ("octets", [B], "payload"),
              ("octets and a dict", [B, D], None), ("octets and a list", [B, L], None), ("octets and an int", [B, 1], None), ("octets twice", [B, B], None),
              ("a list and a list", [L, [Sym("x")]], None), ("a list and octets", [L, B], None), ("a list and None", [L, None], None),
              ("a dict", [D], None), ("a string", ["abc"], None), ("an int", [1], None), ("a list, a dict and one more element", [L, D, 1], None),
              ("octets and two more elements", [B, D, 1], None)]
    adm = {"args": set(), "kwargs": set()}
    for s_ in ast.walk(c.methods["__init__"].node):
        if isinstance(s_, ast.Assert):
            txt = norm.text(s_.test) or ""
            for p_ in adm:
                if txt.startswith(f"{p_} is None or type({p_}) in "):
                    adm[p_] |= {x.id for x in ast.walk(s_.test) if isinstance(x, ast.Name) and x.id not in (p_, "type")}
                elif txt.startswith(f"{p_} is None or type({p_}) == "):
                    adm[p_].add(txt.rsplit("== ", 1)[1])
    bad = []
    for what, tail, expect in shapes:
        r, made = parse_on(ctx, m, c, list(prefix) + list(tail))
        perr = r[0] == "raise" and r[1].split("(")[0].strip().split(".")[-1] == "ProtocolError"
        if expect is None:
            if perr:
                continue
            # lenient zone: a class whose constructor admits further types for args / kwargs (str / bytes: pre-serialized forms) may accept such
            # a tail -- but then faithfully: first element as args, second as kwargs, nothing taken as payload, nothing dropped
            tn = lambda v_: "bytes" if isinstance(v_, Buf) else type(v_).__name__
            faithful = r[0] == "return" and len(made) == 1 and len(tail) <= 2 and tn(tail[0]) in adm["args"] and (len(tail) < 2 or tn(tail[1]) in adm["kwargs"]) \
                and made[0].get("args") is tail[0] and (made[0].get("kwargs") is (tail[1] if len(tail) > 1 else None)) and made[0].get("payload") is None
            if not faithful:
                bad.append(f"documented prefix followed by {what}: {'accepted as ' + str({k_: made[0].get(k_) for k_ in ('args', 'kwargs', 'payload')}) if r[0] == 'return' and made else r[0] + ' ' + str(r[1])[:40]}"
                           f", expected ProtocolError")
            continue
        if r[0] != "return" or len(made) != 1:
            bad.append(f"documented prefix followed by {what}: {r[0]} {str(r[1])[:60]}, expected the message")
            continue
        got = made[0]
        want = {"args": L if expect in ("args", "kwargs") else None, "kwargs": D if expect == "kwargs" else None, "payload": B if expect == "payload" else None}
        for k_, v_ in want.items():
            g_ = got.get(k_)
            if (v_ is None and g_ is not None) or (v_ is not None and g_ is not v_ and g_ != v_):
                bad.append(f"documented prefix followed by {what}: constructor gets {k_}={g_!r}, expected {v_!r}")
    ctx.ob(f"{c.name}.parse: after the documented prefix exactly the tails `list`, `list, dict` and `octets` (payload passthru) are accepted, each into its own "
           f"constructor argument [{len(shapes)} cells]", not bad, "; ".join(bad[:2]), fn.loc())
    return len(shapes)


# options / details that carry WAMP ids (frozen table, one reason each); the statement wants ids outside 0..2^53 refused wherever they appear
ID_OPTIONS = {
    "publisher": "session id of the publisher (EVENT details)",
    "caller": "session id of the caller (CALL options / INVOCATION details)",
    "callee": "session id of the callee (RESULT / YIELD / ERROR details)",
    "subscription": "subscription id (UNSUBSCRIBED details)",
    "registration": "registration id (UNREGISTERED details)",
    "resume-session": "session id to resume (HELLO details)",
}
ID_LIST_OPTIONS = {
    "exclude": "list of session ids (PUBLISH options)",
    "eligible": "list of session ids (PUBLISH options)",
}
_FAMILIES = ("bool", "int", "str", "list", "dict", "bytes", "float", "none")


def _option_witnesses():
    from ..core.tiny import Buf
    ff = lambda s_: [{"session": s_, "authid": "a", "authrole": "r"}]
    return [("True", True, "bool"), ("1", 1, "int"), ("0", 0, "int"), ("-1", -1, "int"), ("2**60", 2 ** 60, "int"), ("1.0", 1.0, "float"), ("1.5", 1.5, "float"),
            ("'x'", "x", "str"), ("''", "", "str"), ("b'x'", Buf(0, 1), "bytes"), ("[]", [], "list"), ("['x']", ["x"], "list:str"), ("[1]", [1], "list:int"),
            ("[-1]", [-1], "list:int"), ("[2**60]", [2 ** 60], "list:int"), ("[True]", [True], "list:bool"), ("[[]]", [[]], "list:list"),
            ("{}", {}, "dict"), ("None", None, "none"),
            ("[{session: 1, authid, authrole}]", ff(1), "list:ff"), ("[{session: -1, ..}]", ff(-1), "list:ff"), ("[{session: 2**60, ..}]", ff(2 ** 60), "list:ff"),
            ("[{session: True, ..}]", ff(True), "list:ffbad"), ("[{session: 'x', ..}]", ff("x"), "list:ffbad")]


def _option_type_cells(ctx, m, c, fmts):
    """Every option / detail key that parse() reads, evaluated cell-wise (sa.core.tiny, validators answered by their extension): the documented
    message with that one key bound to a witness of every JSON/CBOR type and boundary value. The accepted witnesses of one key must all belong to
    one type (a key that takes True must refuse 1 / 0 / 1.0, which `x in [True, False]` lets through; a key that takes 1 must refuse True and 1.5),
    and keys that carry ids (ID_OPTIONS) must refuse -1 and 2**60."""
    with_dict = [f for f in fmts if any(p_.split("|")[-1].strip() == "dict" for p_ in f)]
    if not with_dict:
        return 0
    fn = c.methods["parse"]
    prefix = doc_prefix(ctx, m, c, [min(with_dict, key=len)])
    dpos = [i for i, v in enumerate(prefix) if isinstance(v, dict)][0]
    base, _ = parse_on(ctx, m, c, prefix, "C08.6-option-types", typed_validators=True)
    if base[0] != "return":
        ctx.note(f"{c.name}: the documented minimal message is not accepted as is ({base[0]} {str(base[1])[:40]}): option cells skipped")
        return 0
    keys = set()
    for x in ast.walk(fn.node):
        if isinstance(x, ast.Compare) and isinstance(x.left, ast.Constant) and isinstance(x.left.value, str) and len(x.ops) == 1 and isinstance(x.ops[0], (ast.In, ast.NotIn)) \
                and isinstance(x.comparators[0], ast.Name):
            keys.add(x.left.value)
        if isinstance(x, ast.Call) and isinstance(x.func, ast.Attribute) and x.func.attr == "get" and x.args and isinstance(x.args[0], ast.Constant) and isinstance(x.args[0].value, str):
            keys.add(x.args[0].value)
    W = _option_witnesses()
    n = 0
    for k in sorted(keys):
        acc = []
        for nm, w, fam in W:
            msg = list(prefix)
            msg[dpos] = {k: w}
            r, made = parse_on(ctx, m, c, msg, "C08.6-option-types", typed_validators=True)
            n += 1
            if r[0] == "return":
                acc.append((nm, fam))
            elif not (r[0] == "raise" and r[1].split("(")[0].strip().split(".")[-1] in ("ProtocolError", "InvalidUriError")):
                ctx.ob(f"{c.name}.parse: option '{k}' bound to {nm} ends in a protocol error", False, f"{r[0]} {str(r[1])[:60]}", fn.loc())
        if len(acc) == len(W) or not acc:
            continue  # not read in this message form / needs further keys: no verdict from these cells
        top = lambda f_: f_.split(":")[0]
        fam = min((top(f_) for _, f_ in acc), key=_FAMILIES.index)
        sub = None
        if fam == "list":
            subs = [f_.split(":")[1] for _, f_ in acc if ":" in f_]
            order = ("bool", "int", "str", "ff", "ffbad", "list")
            sub = min(subs, key=order.index) if subs else None
        bad = []
        for nm, f_ in acc:
            if top(f_) == "none":
                continue
            if top(f_) != fam:
                bad.append((nm, f"the key takes {fam} values, {nm} is wrongly typed" + (" (bool equality is numeric: 1 == True, 0 == False, 1.0 == True)" if fam == "bool" else "")))
            elif fam == "list" and ":" in f_ and f_.split(":")[1] != sub:
                bad.append((nm, f"the key takes lists of {sub}, {nm} holds a wrongly typed element"))
        idk = k in ID_OPTIONS or k in ID_LIST_OPTIONS or k == "forward_for"
        if idk:
            out = [nm for nm, f_ in acc if nm in ("-1", "2**60", "[-1]", "[2**60]", "[{session: -1, ..}]", "[{session: 2**60, ..}]")]
            if out:
                bad.append(("ids outside 0..2^53", f"the key carries an id ({ID_OPTIONS.get(k) or ID_LIST_OPTIONS.get(k) or 'session id of a forwarding principal'}) but "
                                                   f"{' and '.join(out)} are accepted (the type is checked, the range is not)"))
        for nm, why in bad:
            ctx.ob(f"{c.name}.parse: option '{k}' refuses {nm}", False, why + f"; accepted witnesses: {' '.join(a_ for a_, _ in acc)}", fn.loc())
        if not bad:
            ctx.ob(f"{c.name}.parse: option '{k}' accepts values of one type only ({fam}{' of ' + sub if sub else ''}){', ids in range' if idk else ''} [{len(W)} cells]",
                   True, "", fn.loc())
    return n


def rule_envelope(ctx, rule_id="C08.4-envelope"):
    """Serializer.unserialize decided cell-wise: for every abstract shape of what the object serializer hands back (and every
    framing flag) the outcome is ProtocolError, or the messages parsed by the class registered for the type code, in order."""
    ctx.rule(rule_id)
    from ..core.tiny import Tiny, Sym, TinyRaise, Buf
    fn = ctx.program.func("autobahn.wamp.serializer.Serializer.unserialize")
    ctx.analysed(fn)
    prm = fn.params()
    ctx.require(len(prm) >= 2, "Serializer.unserialize(payload, isBinary) signature changed")
    def _counter_update(node):
        """self._x += E, or the same spelled self._x = self._x + E"""
        if isinstance(node, ast.AugAssign):
            return norm.text(node.target).startswith("self._")
        return isinstance(node, ast.Assign) and len(node.targets) == 1 and norm.text(node.targets[0]).startswith("self._") and isinstance(node.value, ast.BinOp) \
            and norm.text(node.value.left) == norm.text(node.targets[0])

    class _NoStats(ast.NodeTransformer):  # statistics counters (self._x += ...) are bookkeeping outside the envelope: not modelled
        def visit_AugAssign(self, node):
            return ast.copy_location(ast.Pass(), node) if _counter_update(node) else node

        def visit_Assign(self, node):
            return ast.copy_location(ast.Pass(), node) if _counter_update(node) else node
    import copy
    body = [_NoStats().visit(copy.deepcopy(x)) for x in fn.node.body if not (isinstance(x, ast.Expr) and isinstance(x.value, ast.Constant))]
    counters = {norm.text(x.target if isinstance(x, ast.AugAssign) else x.targets[0]) for x in ast.walk(fn.node) if isinstance(x, (ast.AugAssign, ast.Assign)) and
                (isinstance(x, ast.AugAssign) or _counter_update(x))}
    reads = {norm.text(x) for x in ast.walk(fn.node) if isinstance(x, ast.Attribute) and norm.text(x).startswith("self._") and not isinstance(x.ctx, ast.Store)}

    def cell(raws, decoder_raises=False, is_binary=None, binary=False):
        parsed = []

        def mk(code):
            def parse(raw):
                parsed.append((code, raw))
                return Sym(f"message-{code}-{len(parsed)}")
            return Sym(f"class-{code}", methods={"parse": parse})
        tmap = {1: mk(1), 48: mk(48)}

        def dec(p_):
            if decoder_raises:
                raise TinyRaise(decoder_raises)
            return raws
        ser = Sym("object-serializer", methods={"unserialize": dec}, BINARY=binary, NAME="json")
        env = {"self": Sym("serializer"), prm[1]: Buf(10, 10), "self._serializer": ser, "self.MESSAGE_TYPE_MAP": tmap}
        if len(prm) > 2:
            env[prm[2]] = is_binary
        for c_ in counters | {r for r in reads if not r.startswith("self._serializer")}:
            env.setdefault(c_, 0)
        t = Tiny(env, default_call=lambda f_, a_, k_=None: Sym(f"<{f_}>"), model_types=True)
        try:
            r = t.run(body)
        except TinyRaise as ex:
            r = ("raise", str(ex))
        return r, parsed

    def is_perr(r):
        return r[0] == "raise" and r[1].split("(")[0].strip().split(".")[-1] == "ProtocolError"
    good1, good2 = [1, "realm1", {}], [48, 7, {}, "com.x"]
    bad = {"a dict instead of a list": {"a": 1}, "a tuple instead of a list": (1, "realm1", {}), "a string": "abc", "an int": 5, "None": None,
           "an empty list": [], "a str type code": ["1", "x"], "a bool type code": [True, "x"], "a float type code": [1.0, "x"], "a None type code": [None],
           "a list as type code": [[1]], "a dict as type code": [{}], "an unknown type code": [999, 1], "a negative type code": [-1]}
    probs = []
    try:
        for why, raw in bad.items():
            for raws, pos in (([raw], "alone"), ([good1, raw], "after a valid message")):
                r, parsed = cell(raws)
                if not is_perr(r):
                    probs.append(f"decoded element is {why} ({pos}): {r[0]} {str(r[1])[:80]}")
        ctx.ob(f"envelope: every decoded element that is not a list starting with a known int type code is a ProtocolError [{2 * len(bad)} cells]",
               not probs, "; ".join(probs[:2]), fn.loc())
        probs = []
        for raws in ([good1], [good2], [good1, good2], [good2, good1, good2], []):
            r, parsed = cell(raws)
            ok = r[0] == "return" and isinstance(r[1], list) and len(r[1]) == len(raws) and len(parsed) == len(raws) and \
                all(pc == raw[0] and pr is raw for (pc, pr), raw in zip(parsed, raws)) and \
                all(isinstance(m_, Sym) and m_.name == f"message-{raw[0]}-{i + 1}" for i, (m_, raw) in enumerate(zip(r[1], raws)))
            if not ok:
                probs.append(f"valid batch of type codes {[x[0] for x in raws]}: {r[0]} {str(r[1])[:80]}, parse calls {[c for c, _ in parsed]}")
        ctx.ob("envelope: each valid element is parsed by the class registered for its type code, given the whole raw message; results come back in order [5 cells]",
               not probs, "; ".join(probs[:2]), fn.loc())
        probs = []
        for kind in ("ValueError", "Exception", "UnicodeDecodeError", "KeyError", "TypeError", "RecursionError"):
            r, parsed = cell([good1], decoder_raises=kind)
            if not is_perr(r) or parsed:
                probs.append(f"object serializer raises {kind}: {r[0]} {str(r[1])[:80]}")
        ctx.ob("any exception of the object serializer is turned into ProtocolError [6 cells]", not probs, "; ".join(probs[:2]), fn.loc())
        probs = []
        if len(prm) > 2:
            for binary in (False, True):
                for flag in (None, False, True):
                    r, parsed = cell([good1], is_binary=flag, binary=binary)
                    want_err = flag is not None and flag != binary
                    if want_err != is_perr(r) or (want_err and parsed):
                        probs.append(f"frame flag isBinary={flag}, serializer BINARY={binary}: {r[0]} {str(r[1])[:60]}")
        ctx.ob("a frame whose text/binary flag differs from the serializer's BINARY is a ProtocolError, a matching or unknown flag is not [6 cells]",
               len(prm) > 2 and not probs, "; ".join(probs[:2]) or "isBinary parameter missing", fn.loc())
    except AnalysisError as e:
        raise AnalysisError(f"[{rule_id}] Serializer.unserialize outside the modelled subset: {e}")
    raises = [s_ for s_ in walk_no_defs(fn.node) if isinstance(s_, ast.Raise)]
    ctx.ob("unserialize raises ProtocolError only", all(isinstance(r.exc, ast.Call) and norm.text(r.exc.func) == "ProtocolError" for r in raises) and len(raises) >= 3,
           f"{[norm.text(r.exc)[:30] for r in raises]}", fn.loc())


def rule_role_features(ctx):
    """HELLO/WELCOME role features: every announced feature must be a bool (or absent)."""
    from ..core.terms import TermEval, show
    ctx.rule("C08.5-role-features-strict")
    p = ctx.program
    fn = p.func("autobahn.wamp.role.RoleFeatures._check_all_bool")
    ctx.analysed(fn)
    te = TermEval(p, fn, inline=lambda c, f: None).run()
    raises = [o for o in te.outcomes if o.kind == "raise"]
    ctx.require(len(raises) >= 1, "_check_all_bool: no raise found")

    def conjuncts(t, pol=True):
        if t[0] == "op" and t[1] == "and" and pol:
            return conjuncts(t[2], True) + conjuncts(t[3], True)
        if t[0] == "op" and t[1] == "or" and not pol:
            return conjuncts(t[2], False) + conjuncts(t[3], False)
        if t[0] == "un" and t[1] == "not":
            return conjuncts(t[2], not pol)
        return [(t, pol)]

    def is_value(t):
        # getattr(self, k) / self.__dict__[k] / the value of an items() pair
        d = ("attr", ("p", "self"), "__dict__")
        if t[0] == "call" and t[1] == ("g", "getattr") and t[2][0] == ("p", "self"):
            return True
        if t[0] == "idx" and t[1] == d:
            return True
        if t[0] == "idx" and t[2] == ("c", 1) and t[1][0] == "elem" and t[1][1][0] == "m" and t[1][1][1] == d and t[1][1][2] == "items":
            return True
        return t[0] == "elem" and t[1][0] == "m" and t[1][1] == d and t[1][2] == "values"
    for o in raises:
        cj = []
        for c, pl in o.conds:
            cj += conjuncts(c, pl)
        value_conds = [(c, pl) for c, pl in cj if any(is_value(x) for x in _subterms(c))]
        not_none = any(c[0] == "cmp" and ((c[1] == "is not" and pl) or (c[1] == "is" and not pl)) and ("c", None) in c[2:] and any(is_value(x) for x in c[2:]) for c, pl in value_conds)
        not_bool = any(c[0] == "cmp" and ((c[1] in ("!=", "is not") and pl) or (c[1] in ("==", "is") and not pl)) and ("g", "bool") in c[2:] and
                       any(x[0] == "call" and x[1] == ("g", "type") and is_value(x[2][0]) for x in c[2:]) for c, pl in value_conds)
        ctx.ob("a role feature value is refused iff it is not None and its type is not bool", not_none and not_bool and len(value_conds) == 2,
               f"refusal condition on the value is {[(show(c), pl) for c, pl in value_conds]}: a wrongly typed (e.g. falsy non-bool) feature value would be accepted "
               f"into Hello/Welcome", fn.loc(o.node))
        ctx.ob("the refusal is a ProtocolError", o.term[0] == "call" and o.term[1][0] == "g" and o.term[1][1].endswith("ProtocolError"), f"raises {show(o.term)[:60]}", fn.loc(o.node))
    rf = p.cls("autobahn.wamp.role.RoleFeatures")
    subs = [c for c in p.subclasses(rf) if "__init__" in c.methods]
    ctx.require(len(subs) >= 6, f"only {len(subs)} role feature classes found")
    for c in subs:
        init = c.methods["__init__"]
        body = [s for s in init.node.body if not (isinstance(s, ast.Expr) and isinstance(s.value, ast.Constant))]
        last = body[-1] if body else None
        ok = isinstance(last, ast.Expr) and isinstance(last.value, ast.Call) and norm.text(last.value.func) == "self._check_all_bool"
        ctx.ob(f"{c.name}: all feature attributes are checked after they are stored", ok, "constructor does not end with self._check_all_bool()", init.loc())


def _subterms(t):
    from ..core.terms import subterms
    return subterms(t)


def _match_policy_cells(ctx, m, c, fmts):
    """Messages with a `match` option and a URI position (SUBSCRIBE topic, REGISTER procedure): the grammar the URI is validated with must be the
    one of the matching policy in force -- empty components only in a wildcard pattern, an empty last component only in a prefix, neither for
    exact matching (also when the option is absent).  parse() is evaluated (sa.core.tiny) per policy; what is compared is the flags the URI
    validator is called with for that position (the validator's own extension per flag is decided by the pattern obligations)."""
    fn = c.methods["parse"]
    if not any(isinstance(x, ast.Constant) and x.value == "match" for x in ast.walk(fn.node)):
        return 0
    consts = {s_.targets[0].id: s_.value.value for s_ in c.node.body if isinstance(s_, ast.Assign) and len(s_.targets) == 1 and isinstance(s_.targets[0], ast.Name)
              and isinstance(s_.value, ast.Constant) and s_.targets[0].id.startswith("MATCH_")}
    want = {"MATCH_EXACT": (False, False), "MATCH_PREFIX": (False, True), "MATCH_WILDCARD": (True, False)}
    if not set(want) <= set(consts):
        return 0
    prefix = doc_prefix(ctx, m, c, [min(fmts, key=len)])
    dpos = [i for i, v in enumerate(prefix) if isinstance(v, dict)]
    upos = [i for i, v in enumerate(prefix) if v == "com.x.y"]
    if not dpos or not upos:
        return 0
    bad = []
    n = 0
    for pol in (None, "MATCH_EXACT", "MATCH_PREFIX", "MATCH_WILDCARD"):
        msg = list(prefix)
        msg[dpos[0]] = {} if pol is None else {"match": consts[pol]}
        marker_uri = "com.x.marker"
        msg[upos[-1]] = marker_uri
        tr = []
        r, made = parse_on(ctx, m, c, msg, "C08.7-uri-grammar-of-match-policy", typed_validators=True, trace=tr)
        n += 1
        tag = f"match {'absent (exact)' if pol is None else consts[pol]!r}"
        calls = [b_ for f_, b_ in tr if f_ == "check_or_raise_uri" and b_.get("value") == marker_uri]
        if r[0] != "return":
            bad.append(f"{tag}: {r[0]} {str(r[1])[:40]}")
        elif len(calls) != 1:
            bad.append(f"{tag}: the URI goes through the URI validator {len(calls)} time(s)")
        else:
            got = (bool(calls[0].get("allow_empty_components")), bool(calls[0].get("allow_last_empty")))
            exp = want[pol or "MATCH_EXACT"]
            if got != exp:
                bad.append(f"{tag}: URI validated with allow_empty_components={got[0]}, allow_last_empty={got[1]}; the policy's grammar is "
                           f"allow_empty_components={exp[0]}, allow_last_empty={exp[1]} (e.g. 'a..b' {'accepted' if got[0] and not exp[0] else 'judged differently'})")
    ctx.ob(f"{c.name}.parse: the URI is validated with the grammar of the matching policy in force (exact / prefix / wildcard / absent) [{n} cells]", not bad,
           "; ".join(bad[:2]), fn.loc())
    return n


def rule_option_types(ctx):
    ctx.rule("C08.6-option-types")
    m, base, classes = _classes(ctx)
    n = 0
    for c, fmts in getattr(ctx, "_c08_optcells", []):
        n += _option_type_cells(ctx, m, c, fmts)
    ctx.per_rule[ctx.cur_rule]["cells"] = n
    ctx.floor("C08.6-option-types", 60)
    ctx.rule("C08.7-uri-grammar-of-match-policy")
    k = 0
    for c, fmts in getattr(ctx, "_c08_optcells", []):
        k += 1 if _match_policy_cells(ctx, m, c, fmts) else 0
    ctx.require(k >= 2, f"only {k} message classes with a match policy and a URI position found (SUBSCRIBE, REGISTER expected)")


def run(ctx):
    rule_flow(ctx)
    rule_escape(ctx)
    rule_strictness(ctx)
    rule_envelope(ctx)
    rule_role_features(ctx)
    rule_option_types(ctx)
