"""C17 - Silent peers are dropped on time, responsive peers never (timer typestate; not time)."""
import ast

from ..core.index import AnalysisError, walk_no_defs, calls_in, call_name, kwarg
from ..core.cfg import node_calls
from ..core import norm
from .common import (WSP, WSS, WSC, get_analysis, is_self_attr, self_call, stmt_key, find_assign_nodes, hierarchy_funcs,
                     is_test_module, assigns_self_attr)

META = {
    "explanation": "Timer typestate: every timer handle (attribute assigned from call_later) is tabulated with its arming "
                   "sites, handler and cancel sites; each deadline of the statement has an arming site on the required path "
                   "under `timeout > 0`; each handle is cancelled where the peer met the deadline and cleared by its handler; "
                   "each handler either re-checks the protocol state before touching the close bookkeeping / dropping, or is "
                   "cancelled on every transition to CLOSED; each handler reports unclean with its own reason and aborts.",
    "assumptions": ["deadlines, slack and ping periodicity in time units are not decided (virtual/real time is a runtime quantity)"],
}

EXPECTED = {
    "openHandshakeTimeoutCall": ("onOpenHandshakeTimeout", "self.openHandshakeTimeout"),
    "closeHandshakeTimeoutCall": ("onCloseHandshakeTimeout", "self.closeHandshakeTimeout"),
    "serverConnectionDropTimeoutCall": ("onServerConnectionDropTimeout", "self.serverConnectionDropTimeout"),
    "autoPingPendingCall": ("_sendAutoPing", "self.autoPingInterval"),
    "autoPingTimeoutCall": ("onAutoPingTimeout", "self.autoPingTimeout"),
}
BOOKKEEPING = ("wasClean", "wasNotCleanReason", "wasOpenHandshakeTimeout", "wasCloseHandshakeTimeout", "wasServerConnectionDropTimeout")


def _pcf(ctx):
    """processControlFrame with the assembled control payload (b"".join(self.control_frame_data), whatever local holds it) called `payload`"""
    from .common import recover_names
    fn = ctx.program.func(f"{WSP}.processControlFrame")
    return recover_names(ctx, fn, [("payload", "def", lambda v: isinstance(v, ast.Call) and isinstance(v.func, ast.Attribute) and v.func.attr == "join" and v.args
                                    and norm.text(v.args[0]) == "self.control_frame_data")])


def timer_table(ctx):
    an = get_analysis(ctx)
    table = {}
    for fn in [f for f in hierarchy_funcs(ctx.program, WSP) if not is_test_module(f.module.name)]:
        if not any(isinstance(c, ast.Call) and (call_name(c) or "").endswith("call_later") for c in walk_no_defs(fn.node)):
            continue
        g, mf, res = an.get(fn)
        for n in g.stmt_nodes():
            if n.kind == "stmt" and isinstance(n.ast, ast.Assign) and isinstance(n.ast.value, ast.Call) and \
                    (call_name(n.ast.value) or "").endswith("call_later") and is_self_attr(n.ast.targets[0]):
                attr = n.ast.targets[0].attr
                c = n.ast.value
                h = c.args[1] if len(c.args) > 1 else None
                from .common import canon_text as _ct
                table.setdefault(attr, []).append({"fn": fn, "node": n, "delay": _ct(fn, c.args[0]) if c.args else None,
                                                   "handler": h.attr if is_self_attr(h) else None, "facts": mf.at(n)})
    # a timer armed inside a private helper is also armed at every statement `self._helper()` of the same class hierarchy: there the facts of
    # the call site hold in addition to the helper's own (minus what the helper writes) -- extracting the arming into a method changes nothing
    funcs = [f for f in hierarchy_funcs(ctx.program, WSP) if not is_test_module(f.module.name)]
    for _round in range(2):
        for attr, sites in list(table.items()):
            for s in list(sites):
                h = s["fn"]
                if not h.name.startswith("_") or h.name.startswith("__") or h.parent is not None:
                    continue
                writes = {norm.text(t_) for st_ in walk_no_defs(h.node) if isinstance(st_, (ast.Assign, ast.AugAssign))
                          for t_ in (st_.targets if isinstance(st_, ast.Assign) else [st_.target]) if norm.text(t_)}
                for fn in funcs:
                    if fn is h:
                        continue
                    g, mf, res = an.get(fn)
                    for n in g.stmt_nodes():
                        if n.kind == "stmt" and isinstance(n.ast, ast.Expr) and isinstance(n.ast.value, ast.Call) and self_call(n.ast.value, h.name) \
                                and not n.ast.value.args and not n.ast.value.keywords:
                            if any(x["fn"] is fn and x["node"] is n for x in table[attr]):
                                continue
                            here = frozenset(f for f in (mf.at(n) or ()) if not norm.fact_killed(f, writes))
                            table[attr].append({"fn": fn, "node": n, "delay": s["delay"], "handler": s["handler"], "facts": here | frozenset(s["facts"] or ()), "via": h.qualname})
    # a private helper that is only ever *called as a statement* from the hierarchy (never handed out as a callback) runs under the facts of
    # its call sites: the "configured" guard is then owed at those (derived) sites, not inside the helper
    for attr, sites in table.items():
        for s in sites:
            h = s["fn"]
            if "via" in s or not h.name.startswith("_") or h.name.startswith("__") or h.parent is not None:
                continue
            refs = sum(1 for fn in funcs for x in ast.walk(fn.node) if isinstance(x, ast.Attribute) and x.attr == h.name and isinstance(x.ctx, ast.Load))
            derived = sum(1 for x in sites if x.get("via") == h.qualname)
            if refs and refs == derived:
                s["guard_at_callers"] = True
    return table


def rule_table(ctx, rule_id="C17.1-timer-table"):
    ctx.rule(rule_id)
    t = timer_table(ctx)
    ctx._timers = t
    for attr, (handler, delay) in EXPECTED.items():
        sites = t.get(attr, [])
        ctx.ob(f"{attr}: armed somewhere", bool(sites), "timer is never armed", "")
        for s in sites:
            fn = s["fn"]
            ctx.analysed(fn)
            ctx.ob(f"{attr} @ {fn.qualname}: handler is {handler}", s["handler"] == handler, f"handler {s['handler']}", fn.loc(s["node"].ast))
            ctx.ob(f"{attr} @ {fn.qualname}: delay is {delay}", s["delay"] == delay, f"delay {s['delay']}", fn.loc(s["node"].ast))
            f = s["facts"] or ()
            pos = ("lt", ("c", 0), ("e", delay), True) in f or ("truth", delay, None, True) in f or s.get("guard_at_callers", False)
            ctx.ob(f"{attr} @ {fn.qualname}: armed only when the timeout is configured (> 0)", pos,
                   "timer armed without testing that its timeout/interval is positive", fn.loc(s["node"].ast))
    for attr in t:
        ctx.ob(f"{attr}: known timer", attr in EXPECTED, "a timer handle the rule table does not know; add it with its handler and obligations", t[attr][0]["fn"].loc(t[attr][0]["node"].ast))


def _sites(ctx, attr, qual):
    return [s for s in ctx._timers.get(attr, []) if s["fn"].qualname == qual]


def rule_arm(ctx):
    ctx.rule("C17.2-arming-sites")
    S = {n: ctx.program.class_const(ctx.program.cls(WSP), n) for n in ("STATE_OPEN", "STATE_CLOSING", "STATE_CLOSED", "STATE_CONNECTING")}
    an = get_analysis(ctx)
    # open handshake at connection setup
    ctx.ob("open-handshake timer armed in _connectionMade", bool(_sites(ctx, "openHandshakeTimeoutCall", f"{WSP}._connectionMade")), "missing", "")
    # close handshake when initiating
    cs = _sites(ctx, "closeHandshakeTimeoutCall", f"{WSP}.sendCloseFrame")
    from .common import initiated_by_us
    ok = bool(cs) and all(initiated_by_us(s["facts"], s["fn"]) and ("eq", "self.state", ("c", S["STATE_CLOSING"]), True) in s["facts"] for s in cs)
    ctx.ob("close-handshake timer armed when this side initiates the close", ok, "not armed under closedByMe after state = CLOSING", "")
    # server drop: client, after the peer's close frame, in both the replied-to-us and we-replied cases
    ds = _sites(ctx, "serverConnectionDropTimeoutCall", f"{WSP}.onCloseFrame")
    closing = [s for s in ds if ("eq", "self.state", ("c", S["STATE_CLOSING"]), True) in s["facts"]]
    ok = bool(closing) and all(("truth", "self.factory.isServer", None, False) in s["facts"] for s in ds)
    ctx.ob("server-drop timer armed by the client when the closing handshake completes", ok, "not armed in onCloseFrame (CLOSING, client role)", "")
    # auto ping at handshake completion in both roles, re-armed on pong / traffic, timeout after each ping
    for q in (f"{WSS}.succeedHandshake", f"{WSC}.processHandshake"):
        ss = _sites(ctx, "autoPingPendingCall", q)
        ok = bool(ss) and all(("eq", "self.state", ("c", S["STATE_OPEN"]), True) in s["facts"] for s in ss)
        ctx.ob(f"auto-ping scheduled when the handshake completes ({q.split('.')[-2]})", ok, "not armed after state = OPEN", "")
    ctx.ob("auto-ping re-armed after the matching pong", bool(_sites(ctx, "autoPingPendingCall", f"{WSP}.processControlFrame")), "missing", "")
    ctx.ob("auto-ping re-armed when traffic replaces the pong", bool(_sites(ctx, "autoPingPendingCall", f"{WSP}._cancelAutoPingTimeoutCall")), "missing", "")
    ts = _sites(ctx, "autoPingTimeoutCall", f"{WSP}._sendAutoPing")
    ctx.ob("ping timeout armed after each automatic ping", bool(ts), "missing", "")
    fn = ctx.program.func(f"{WSP}._sendAutoPing")
    g, mf, res = an.get(fn)
    ping = [(n, c) for n in g.stmt_nodes() for c in node_calls(n) if self_call(c, "sendPing")]
    from .common import canon_text, local_canon
    cn = local_canon(fn)
    stored = [s_ for s_ in walk_no_defs(fn.node) if isinstance(s_, ast.Assign) and is_self_attr(s_.targets[0], "autoPingPending")]
    ok = len(ping) == 1 and len(ping[0][1].args) == 1 and len(stored) == 1 and \
        (norm.text(ping[0][1].args[0]) == "self.autoPingPending" or canon_text(fn, ping[0][1].args[0], cn) == canon_text(fn, stored[0].value, cn) or
         # a local bound in the same statement (`self.autoPingPending = payload = ...`) and nowhere else
         (isinstance(ping[0][1].args[0], ast.Name) and any(isinstance(t_, ast.Name) and t_.id == ping[0][1].args[0].id for t_ in stored[0].targets) and
          sum(1 for y_ in walk_no_defs(fn.node) if isinstance(y_, ast.Name) and isinstance(y_.ctx, ast.Store) and y_.id == ping[0][1].args[0].id) == 1)) and \
        stored[0].lineno <= ping[0][1].lineno
    ctx.ob("_sendAutoPing sends the payload it remembers as pending", ok, "ping payload differs from autoPingPending", fn.loc())
    # traffic instead of a pong discards the outstanding ping completely: a late pong for it must not match any more
    cf = ctx.program.func(f"{WSP}._cancelAutoPingTimeoutCall")
    ctx.analysed(cf)
    gc_, mfc, resc = an.get(cf)
    clr = [n for n in gc_.stmt_nodes() if n.kind == "stmt" and isinstance(n.ast, ast.Assign) and is_self_attr(n.ast.targets[0], "autoPingPending")
           and isinstance(n.ast.value, ast.Constant) and n.ast.value.value is None]
    ctx.ob("_cancelAutoPingTimeoutCall forgets the outstanding ping payload on every path", len(clr) >= 1 and
           not gc_.path_exists(gc_.entry, gc_.exit, avoid=lambda x: x in clr, edge_ok=type(gc_)._no_exc(None)),
           "a path keeps autoPingPending: the late pong of the discarded ping is still accepted and starts a second ping chain whose timeout drops a responsive peer",
           cf.loc())
    for s in ts:
        # the timeout must only be armed for a ping that was really sent: state must be OPEN at the arm site
        vals = norm.values_allowed(s["facts"], "self.state", set(range(5)))
        ctx.ob("ping timeout armed only for a ping that was sent (state OPEN)", vals == {S["STATE_OPEN"]},
               "_sendAutoPing arms the pong timeout without checking the state: in CLOSING/CLOSED sendPing() sends nothing, "
               "yet the timeout fires and reports a ping timeout", fn.loc(s["node"].ast))


def rule_cancel(ctx):
    ctx.rule("C17.3-cancel-and-clear")
    an = get_analysis(ctx)
    wsp = ctx.program.cls(WSP)

    def cancels(fn, attr):
        """Nodes `self.<attr>.cancel()` that are followed on every path by `self.<attr> = None`."""
        g, mf, res = an.get(fn)
        out = []
        for n in g.stmt_nodes():
            for c in node_calls(n):
                if norm.text(c.func) == f"self.{attr}.cancel":
                    cleared = g.always_followed_by(n, lambda x: x.kind == "stmt" and assigns_self_attr(x.ast, attr) is not None and
                                                   norm.key(assigns_self_attr(x.ast, attr)) == ("c", None))
                    guarded = norm.not_none_known(mf.at(n), f"self.{attr}")
                    out.append((n, cleared, guarded))
        return out

    need = [
        ("openHandshakeTimeoutCall", f"{WSS}.succeedHandshake", "server handshake success"),
        ("openHandshakeTimeoutCall", f"{WSC}.processHandshake", "client handshake success"),
        ("closeHandshakeTimeoutCall", f"{WSP}.onCloseFrame", "peer answered our close frame"),
        ("autoPingTimeoutCall", f"{WSP}.processControlFrame", "matching pong"),
        ("autoPingTimeoutCall", f"{WSP}._cancelAutoPingTimeoutCall", "traffic in lieu of pong"),
        ("serverConnectionDropTimeoutCall", f"{WSP}._connectionLost", "connection lost"),
        ("autoPingPendingCall", f"{WSP}._connectionLost", "connection lost"),
        ("autoPingTimeoutCall", f"{WSP}._connectionLost", "connection lost"),
        ("openHandshakeTimeoutCall", f"{WSP}._connectionLost", "connection lost"),
    ]
    for attr, q, why in need:
        fn = ctx.program.func(q)
        ctx.analysed(fn)
        cs = cancels(fn, attr)
        ctx.ob(f"{attr} cancelled in {fn.name} ({why})", bool(cs), "cancel site missing", fn.loc())
        for n, cleared, guarded in cs:
            if q.endswith("processControlFrame"):
                continue  # cleared a few statements later unconditionally; checked below
            ctx.ob(f"{attr} in {fn.name}: handle cleared after cancel", cleared, "handle not set to None after cancel()", fn.loc(n.ast))
            if not q.endswith("_cancelAutoPingTimeoutCall"):
                ctx.ob(f"{attr} in {fn.name}: cancel only when armed", guarded, "cancel() on a handle that may be None", fn.loc(n.ast))
    # "traffic in lieu of pong" means ANY data frame: the call of _cancelAutoPingTimeoutCall in onFrameEnd may depend on the frame being a
    # data frame, on the option and on a timeout being armed -- on nothing else (not on FIN, not on the message state)
    fn = ctx.program.func(f"{WSP}.onFrameEnd")
    ctx.analysed(fn)
    g, mf, res = an.get(fn)

    def _texts(a):
        if isinstance(a, str):
            return [a] if ("." in a or a.isidentifier()) else []
        return [x for y in a for x in _texts(y)] if isinstance(a, tuple) else []
    _ALLOWED = {"opcode", "autoPingRestartOnAnyTraffic", "autoPingTimeoutCall"}
    _KINDS = {"truth", "eq", "lt", "le", "gt", "ge", "ne", "in", "is", "c", "e"}
    sites = [(n, c) for n in g.stmt_nodes() for c in node_calls(n) if norm.text(c.func) == "self._cancelAutoPingTimeoutCall"]
    ctx.ob("onFrameEnd: a data frame cancels the pending ping timeout when autoPingRestartOnAnyTraffic is set", bool(sites), "call site missing", fn.loc())
    for n, c in sites:
        extra = sorted({t for a in mf.at(n) for t in _texts(a) if t not in _KINDS and t.split(".")[-1] not in _ALLOWED})
        ctx.ob("onFrameEnd: every data frame counts as traffic (the cancellation does not depend on FIN or on the message state)", not extra,
               f"the cancellation is additionally conditioned on {extra[:3]}", fn.loc(c))
    # pong branch: matching payload required, handle cleared
    fn = _pcf(ctx)
    g, mf, res = an.get(fn)
    for n in g.stmt_nodes():
        for c in node_calls(n):
            if norm.text(c.func) == "self.autoPingTimeoutCall.cancel":
                f = mf.at(n)
                ctx.ob("ping timeout cancelled only by the pong carrying the pending payload",
                       ("eq", "payload", ("e", "self.autoPingPending"), True) in f and ("eq", "self.current_frame.opcode", ("c", 10), True) in f,
                       "timeout cancelled without `payload == self.autoPingPending` in the pong branch", fn.loc(c))
                ctx.ob("pending ping cleared with its timeout",
                       g.always_followed_by(n, lambda x: x.kind == "stmt" and assigns_self_attr(x.ast, "autoPingTimeoutCall") is not None, exits=[g.exit], exc=False),
                       "autoPingTimeoutCall not cleared after the pong", fn.loc(c))
    # handlers clear their own handle on every path
    for attr, (handler, delay) in EXPECTED.items():
        h = wsp.methods.get(handler)
        ctx.require(h is not None, f"handler {handler} missing")
        g, mf, res = an.get(h)
        clr = lambda x: x.kind == "stmt" and assigns_self_attr(x.ast, attr) is not None and norm.key(assigns_self_attr(x.ast, attr)) == ("c", None)
        ctx.ob(f"{handler} clears {attr} on every path", g.always_followed_by(g.entry, clr), "handler leaves a stale handle", h.loc())
    # the close-handshake timer is dealt with (tested for being armed, or cancelled) on EVERY path on which the peer's reply to our close
    # frame arrives -- in both roles: a stale timer would fail a peer that met its deadline
    fn = ctx.program.func(f"{WSP}.onCloseFrame")
    g, mf, res = an.get(fn)
    S_CLOSING = ctx.program.class_const(wsp, "STATE_CLOSING")
    entries = []
    for n in g.stmt_nodes():
        if n.kind == "test":
            for m, lab in n.succ:
                if lab and lab[0] in ("T", "F") and ("eq", "self.state", ("c", S_CLOSING), True) in norm.atoms(lab[1], lab[0] == "T", res):
                    entries.append(m)
    deals = lambda x: any(norm.text(c.func) == "self.closeHandshakeTimeoutCall.cancel" for c in node_calls(x)) or \
        (x.kind == "test" and "self.closeHandshakeTimeoutCall" in norm.mentions_of(x.ast))
    ok = bool(entries) and all(deals(m) or g.always_followed_by(m, deals, exc=False) for m in entries)
    ctx.ob("onCloseFrame: the close-handshake timer is dealt with on every path of the reply-to-our-close branch (both roles)", ok,
           "a path through the CLOSING branch leaves the close-handshake timer armed: it later fails a peer that answered in time", fn.loc())
    # open-handshake cancel happens after the transition to OPEN on the success path
    for q in (f"{WSS}.succeedHandshake", f"{WSC}.processHandshake"):
        fn = ctx.program.func(q)
        g, mf, res = an.get(fn)
        st = [n for n, v in find_assign_nodes(g, "state")]
        ok = bool(st) and all(g.always_followed_by(n, lambda x: any(norm.text(c.func) == "self.openHandshakeTimeoutCall.cancel" for c in node_calls(x)) or
                                                   (x.kind == "test" and norm.text(x.ast) == "self.openHandshakeTimeoutCall is not None"))
                              for n in st)
        ctx.ob(f"{fn.qualname}: open-handshake timer dealt with after state = OPEN", ok, "success path does not reach the cancel", fn.loc())


def rule_no_effect_after_close(ctx):
    ctx.rule("C17.4-handlers-recheck-state")
    an = get_analysis(ctx)
    wsp = ctx.program.cls(WSP)
    S_CLOSED = ctx.program.class_const(wsp, "STATE_CLOSED")
    # which timers are cancelled on every transition to CLOSED (dropConnection and _connectionLost)?
    def cancelled_in(fname, attr):
        fn = wsp.methods[fname]
        return any(norm.text(c.func) == f"self.{attr}.cancel" for c in calls_in(fn.node))
    for attr, (handler, delay) in EXPECTED.items():
        h = wsp.methods[handler]
        ctx.analysed(h)
        g, mf, res = an.get(h)
        always_cancelled = cancelled_in("dropConnection", attr) and cancelled_in("_connectionLost", attr)
        effects = []
        for n in g.stmt_nodes():
            if n.kind == "stmt" and any(assigns_self_attr(n.ast, b) is not None for b in BOOKKEEPING):
                effects.append(n)
            for c in node_calls(n):
                if self_call(c, ("dropConnection", "sendPing", "sendFrame", "sendData")) or \
                        (n.kind == "stmt" and isinstance(n.ast, ast.Assign) and (call_name(c) or "").endswith("call_later")):
                    effects.append(n)
        ctx.require(effects or handler == "_sendAutoPing", f"{handler}: no effects found (shape changed)")
        for n in effects:
            vals = norm.values_allowed(mf.at(n) or (), "self.state", set(range(5)))
            rechecks = S_CLOSED not in vals
            if handler == "_sendAutoPing" and any(self_call(c, "sendPing") for c in node_calls(n)):
                continue  # sendPing() itself tests state == OPEN (C05.3)
            ctx.ob(f"{handler}: `{stmt_key(n.ast)[:50]}` cannot act on a closed connection", rechecks or always_cancelled,
                   f"timer handler touches the close bookkeeping / transport without re-checking the state, and {attr} is not "
                   f"cancelled by dropConnection(): between a clean drop and connectionLost it rewrites wasClean/reason", h.loc(n.ast))


def rule_reasons(ctx):
    ctx.rule("C17.5-unclean-with-own-reason")
    an = get_analysis(ctx)
    wsp = ctx.program.cls(WSP)
    for handler, key in (("onOpenHandshakeTimeout", "opening handshake timeout"), ("onCloseHandshakeTimeout", "closing handshake timeout"),
                         ("onServerConnectionDropTimeout", "server did not drop"), ("onAutoPingTimeout", "ping timeout")):
        h = wsp.methods[handler]
        g, mf, res = an.get(h)
        drops = [(n, c) for n in g.stmt_nodes() for c in node_calls(n) if self_call(c, "dropConnection")]
        ctx.require(len(drops) == 1, f"{handler}: dropConnection call not found")
        n, c = drops[0]
        ab = kwarg(c, "abort", 0)
        ctx.ob(f"{handler}: aborts the transport", ab is not None and norm.key(ab, res) == ("c", True), "dropConnection without abort=True", h.loc(c))
        wc = [m for m, v in find_assign_nodes(g, "wasClean") if norm.key(v, res) == ("c", False)]
        ctx.ob(f"{handler}: reports unclean before dropping", bool(wc) and g.always_preceded_by(n, lambda x: x in wc), "wasClean = False not set before the drop", h.loc(c))
        rs = [(m, v) for m, v in find_assign_nodes(g, "wasNotCleanReason")]
        ok = len(rs) == 1 and isinstance(rs[0][1], ast.Constant) and key in rs[0][1].value and g.always_preceded_by(n, lambda x: x is rs[0][0])
        ctx.ob(f"{handler}: reports its own reason ('{key}')", ok, "reason string not set before the drop / does not name this timeout", h.loc(c))


def rule_open_timeout_states(ctx):
    """"If the peer does not complete the opening handshake ... the connection is dropped no later than that deadline": the timer's handler, evaluated
    (sa.core.tiny) in every connection state.  The handshake is incomplete in CONNECTING and -- for a client behind an explicit proxy whose CONNECT
    has not been answered -- in PROXY_CONNECTING: both must be dropped and reported unclean; in OPEN / CLOSING / CLOSED the handler does nothing."""
    from ..core.tiny import Tiny, Sym
    ctx.rule("C17.7-open-timeout-in-every-state")
    cls = ctx.program.cls(WSP)
    h = cls.methods["onOpenHandshakeTimeout"]
    ctx.analysed(h)
    from .common import class_consts
    consts = class_consts(ctx, cls)
    ctx.require({"STATE_CONNECTING", "STATE_PROXY_CONNECTING", "STATE_OPEN", "STATE_CLOSING", "STATE_CLOSED"} <= set(consts), f"connection states not found: {sorted(consts)[:12]}")
    body = [x for x in h.node.body if not (isinstance(x, ast.Expr) and isinstance(x.value, ast.Constant))]
    probs = []
    try:
        for nm in ("STATE_CONNECTING", "STATE_PROXY_CONNECTING", "STATE_OPEN", "STATE_CLOSING", "STATE_CLOSED"):
            drops = []
            env = {"self": Sym("protocol"), "self.state": consts[nm], "self.log": Sym("log"), "self.wasClean": None, "self.wasNotCleanReason": None, "self.wasOpenHandshakeTimeout": False,
                   "self.openHandshakeTimeoutCall": Sym("timer"), "WebSocketProtocol": Sym("class WebSocketProtocol", **consts)}
            env.update({f"WebSocketProtocol.{k_}": v_ for k_, v_ in consts.items()})
            t = Tiny(env, default_call=lambda f_, a_, k_=None: (drops.append(dict(k_ or {}, _args=list(a_))) if f_ == "self.dropConnection" else None) or Sym(f"<{f_}>"), opaque_globals=True,
                     model_strings=True)
            r = t.run(body)
            get = lambda a_: t.env.get(f"self.{a_}", t.env["self"].attrs.get(a_))
            pending = nm in ("STATE_CONNECTING", "STATE_PROXY_CONNECTING")
            if r[0] == "raise":
                probs.append(f"{nm}: the handler raises {r[1]}")
            elif pending and not (len(drops) == 1 and (drops[0].get("abort") is True or drops[0]["_args"][:1] == [True]) and get("wasClean") is False and get("wasNotCleanReason")):
                probs.append(f"{nm}: handshake not completed but the connection is {'dropped %d time(s)' % len(drops) if drops else 'not dropped'} "
                             f"(wasClean={get('wasClean')}, reason={get('wasNotCleanReason')!r}); expected one abortive drop, reported unclean with the timeout as reason")
            elif not pending and drops:
                probs.append(f"{nm}: the handler drops a connection whose opening handshake is over")
    except AnalysisError as e:
        raise AnalysisError(f"[C17.7-open-timeout-in-every-state] onOpenHandshakeTimeout outside the modelled subset: {e}")
    ctx.ob("onOpenHandshakeTimeout: drops (abortive, unclean, own reason) exactly while the opening handshake is incomplete -- CONNECTING and PROXY_CONNECTING [5 cells]",
           not probs, "; ".join(probs[:2]), h.loc())


def rule_ping_cycle(ctx):
    """"automatic pings keep being sent at the configured interval for as long as the connection is open": the ping cycle is a small state
    machine over (ping scheduled, ping outstanding, pong timeout armed).  Every transition of it -- the ping timer firing, the matching pong
    arriving, other traffic standing in for the pong -- is evaluated cell-wise (sa.core.tiny) from each state it can run in, and must leave
    the cycle alive: a next ping is scheduled or a ping is outstanding, and an outstanding ping has its pong timeout armed when one is
    configured.  Helpers are evaluated in place, so where the re-arming is written does not matter."""
    from ..core.tiny import Tiny, Sym, Buf
    from .common import inline_private
    ctx.rule("C17.6-ping-cycle-stays-alive")
    cls = ctx.program.cls(WSP)
    S_OPEN = ctx.program.class_const(cls, "STATE_OPEN")
    inl = inline_private(ctx, cls, exclude=("_sendAutoPing", "_onPong", "_onPing", "onAutoPong", "onAutoPingTimeout", "_fail_connection"))
    send = ctx.program.func(f"{WSP}._sendAutoPing")
    cancel = ctx.program.func(f"{WSP}._cancelAutoPingTimeoutCall")
    pcf = _pcf(ctx)
    for f in (send, cancel, pcf):
        ctx.analysed(f)
    an = get_analysis(ctx)
    g, mf, res = an.get(pcf)
    arms = [x for x in ast.walk(pcf.node) if isinstance(x, ast.If) and ("eq", "self.current_frame.opcode", ("c", 10), True) in norm.atoms(x.test, True, res)]
    ctx.require(len(arms) == 1, "processControlFrame: PONG arm not found")
    strip = lambda fn: [s_ for s_ in fn.node.body if not (isinstance(s_, ast.Expr) and isinstance(s_.value, ast.Constant))]
    P = Buf(0, 16)

    def run(body, timeout, pendingCall, pending, timeoutCall, payload=None):
        timers = []
        pos = [100]

        def mk_timer(*args, **kw_):
            t_ = Sym("timer", methods={"cancel": lambda: None}, delay=args[0] if args else None, handler=args[1] if len(args) > 1 else None)
            timers.append(t_)
            return t_

        def oracle(fname, args, kwargs=None):
            if fname.endswith("call_later"):
                return mk_timer(*args)
            if fname.endswith("struct.unpack") or fname.endswith("struct.unpack_from"):
                return [7] * max(1, sum(1 for ch in str(args[0]) if ch.isalpha()))
            if fname.endswith("time_ns"):
                return 10 ** 9
            if fname.endswith("struct.pack") or fname.endswith("urandom"):
                pos[0] += 4  # successive pieces are adjacent octets of the ping payload (only its identity matters here)
                return Buf(pos[0] - 4, pos[0])
            return Sym(f"<{fname}>")
        mk = lambda nm: Sym(nm, methods={"cancel": lambda: None})
        env = {"self": Sym("protocol"), "self.state": S_OPEN, "WebSocketProtocol.STATE_OPEN": S_OPEN, "self.autoPingInterval": 5, "self.autoPingTimeout": timeout,
               "self.autoPingSize": 16, "self.autoPingPendingSeq": 1, "self.autoPingPendingSent": 1, "self.log": Sym("log"),
               "self.factory": Sym("factory", _batched_timer=Sym("batched-timer", call_later=Sym("call_later", methods={"__call__": mk_timer}))),
               "self.autoPingRestartOnAnyTraffic": True,
               "self.autoPingPendingCall": mk("scheduled-ping") if pendingCall else None, "self.autoPingPending": P if pending else None,
               "self.autoPingTimeoutCall": mk("pong-timeout") if timeoutCall else None, "self.current_frame": Sym("frame", opcode=10),
               "self._sendAutoPing": Sym("method _sendAutoPing"), "self.onAutoPingTimeout": Sym("method onAutoPingTimeout"), "payload": payload}
        t = Tiny(env, default_call=oracle, inline_self=inl, opaque_globals=True)
        r = t.run(body)
        me = t.env["self"]
        get = lambda nm: t.env.get(f"self.{nm}", me.attrs.get(nm))
        return r, get("autoPingPendingCall"), get("autoPingPending"), get("autoPingTimeoutCall"), timers
    bad = []
    n = 0
    try:
        for timeout in (0, 3):
            cases = [("the ping timer fires", strip(send), dict(pendingCall=True, pending=False, timeoutCall=False)),
                     ("the matching pong arrives", arms[0].body, dict(pendingCall=False, pending=True, timeoutCall=timeout > 0, payload=P))]
            if timeout:
                cases.append(("other traffic stands in for the pong", strip(cancel), dict(pendingCall=False, pending=True, timeoutCall=True)))
            for what, body, st in cases:
                r, pc, pend, tc, timers = run(body, timeout, **st)
                n += 1
                tag = f"{what} (autoPingInterval=5, autoPingTimeout={timeout})"
                if r[0] == "raise":
                    bad.append(f"{tag}: raises {r[1]}")
                    continue
                alive = (isinstance(pc, Sym) and pc in timers and pc.attrs.get("delay") == 5 and getattr(pc.attrs.get("handler"), "name", "") == "method _sendAutoPing") \
                    or (pend is not None and what == "the ping timer fires")
                if not alive:
                    bad.append(f"{tag}: afterwards no next ping is scheduled and none is outstanding -- no ping is ever sent again on this connection")
                if pend is not None and timeout and not (isinstance(tc, Sym) and tc in timers and tc.attrs.get("delay") == timeout
                                                         and getattr(tc.attrs.get("handler"), "name", "") == "method onAutoPingTimeout"):
                    bad.append(f"{tag}: a ping is outstanding but its pong timeout is not armed")
                if pend is None and tc is not None:
                    bad.append(f"{tag}: no ping is outstanding but a pong timeout stays armed (a peer that answered is dropped)")
    except AnalysisError as e:
        raise AnalysisError(f"[C17.6-ping-cycle-stays-alive] ping cycle code outside the modelled subset: {e}")
    ctx.ob(f"every transition of the automatic ping cycle leaves it alive [{n} cells]", not bad, "; ".join(bad[:3]), send.loc())
    ctx.require(n >= 5, f"only {n} ping cycle cells")


def rule_configured(ctx):
    """"configured timeouts": what the application hands to setProtocolOptions is what the connection's timers are armed with"""
    from .common import rule_option_setters
    T = [("openHandshakeTimeout", "num"), ("closeHandshakeTimeout", "num"), ("autoPingInterval", "num"), ("autoPingTimeout", "num"), ("autoPingSize", "num"),
         ("autoPingRestartOnAnyTraffic", "bool")]
    rule_option_setters(ctx, "C17.8-configured-timeouts-reach-the-factory",
                        [("WebSocketServerFactory", o_, k_) for o_, k_ in T] + [("WebSocketClientFactory", o_, k_) for o_, k_ in T] +
                        [("WebSocketClientFactory", "serverConnectionDropTimeout", "num")],
                        "a silent peer is then dropped after the default (or never: 0 disables the timer) instead of the configured time")


def run(ctx):
    rule_configured(ctx)
    rule_open_timeout_states(ctx)
    rule_ping_cycle(ctx)
    rule_table(ctx)
    rule_arm(ctx)
    rule_cancel(ctx)
    rule_no_effect_after_close(ctx)
    rule_reasons(ctx)
