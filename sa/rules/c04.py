"""C04 - Each WAMP request completes exactly once with its own reply."""
import ast

from ..core.index import AnalysisError, walk_no_defs, calls_in, call_name, kwarg
from ..core.cfg import node_calls
from ..core import norm
from .common import get_analysis, is_self_attr, self_call, stmt_key, APPSESSION
from .wampsess import get_onmessage, REPLY_TABLE, REQUEST_KIND, ALL_TABLES, table_uses

META = {
    "explanation": "Correlation-table rules over the request APIs and ApplicationSession.onMessage: one id per request flows into the "
                   "pending table key, the request record and the message; the record is stored before send (and removed when send "
                   "raises, for call/publish); every reply arm looks up msg.request in the table of its own request kind, the no-match "
                   "path raises ProtocolError; the record is removed before completion, except on the progressive-result path which "
                   "neither removes nor completes; Optional args/kwargs are only unpacked under a guard; option objects emit only "
                   "keys the message class accepts.",
    "assumptions": ["exactly-once under all interleavings of replies is not decided (histories)"],
}

APIS = {
    "publish": ("autobahn.wamp.protocol.ApplicationSession.publish", "_publish_reqs", "PublishRequest", "Publish", "topic"),
    "call": ("autobahn.wamp.protocol.ApplicationSession.call", "_call_reqs", "CallRequest", "Call", "procedure"),
    "subscribe": ("autobahn.wamp.protocol.ApplicationSession.subscribe.<locals>._subscribe", "_subscribe_reqs", "SubscribeRequest", "Subscribe", "topic"),
    "register": ("autobahn.wamp.protocol.ApplicationSession.register.<locals>._register", "_register_reqs", "RegisterRequest", "Register", "procedure"),
    "unsubscribe": ("autobahn.wamp.protocol.ApplicationSession._unsubscribe", "_unsubscribe_reqs", "UnsubscribeRequest", "Unsubscribe", "subscription.id"),
    "unregister": ("autobahn.wamp.protocol.ApplicationSession._unregister", "_unregister_reqs", "UnregisterRequest", "Unregister", "registration.id"),
}


RID = "self._request_id_gen.next()"
URI_PARAM = {"publish": (1, ""), "call": (1, ""), "subscribe": ("topic", ""), "register": ("procedure", ""), "unsubscribe": (1, ".id"), "unregister": (1, ".id")}


def rule_construction(ctx):
    """Name-agnostic: values are identified by their canonical definition (single-definition locals expanded), objects by the variable
    that holds them; how (and whether) intermediate values are named does not matter."""
    from .common import local_canon, canon_text, expand_expr_helpers
    from ..core.flow import local_assignments
    ctx.rule("C04.1-request-construction")
    an = get_analysis(ctx)
    for api, (q, table, rec, msgcls, _uri) in APIS.items():
        fn = ctx.program.func(q)
        ctx.analysed(fn)
        fn = expand_expr_helpers(ctx, fn)  # `request_id, on_reply = self._new_request()` is the same as the two calls it returns
        g, mf, res = an.get(fn)
        canon = local_canon(fn)

        def ct(e):
            return canon_text(fn, e, canon)

        def defs_of(e):
            """the expressions a send argument / record value may denote: itself, or every assignment to the local it names"""
            if isinstance(e, ast.Name):
                ds = [v for v in local_assignments(fn, e.id) if v is not None]
                return ds or [e]
            return [e]
        k, suffix = URI_PARAM[api]
        prm = fn.params()
        uri = (prm[k] if isinstance(k, int) and len(prm) > k else k) + suffix
        ids = [n for n in g.stmt_nodes() for c in node_calls(n) if norm.text(c) == RID]
        ctx.ob(f"{api}: exactly one fresh request id per request", len(ids) == 1, f"{len(ids)} id allocations", fn.loc())
        stores = [n for n in g.stmt_nodes() if n.kind == "stmt" and isinstance(n.ast, ast.Assign) and isinstance(n.ast.targets[0], ast.Subscript)
                  and is_self_attr(n.ast.targets[0].value) and n.ast.targets[0].value.attr.endswith("_reqs")]
        ctx.ob(f"{api}: one pending-table store", len(stores) == 1, f"{len(stores)} stores", fn.loc())
        held = set()
        for s in stores:
            t = s.ast.targets[0]
            ctx.ob(f"{api}: record stored in its own table {table}", t.value.attr == table, f"stored in {t.value.attr}", fn.loc(s.ast))
            ctx.ob(f"{api}: table key is the request id", ct(t.slice) == RID, f"key {norm.text(t.slice)}", fn.loc(s.ast))
            vs = defs_of(s.ast.value)
            okr = bool(vs) and all(isinstance(v, ast.Call) and call_name(v) == rec and v.args and ct(v.args[0]) == RID for v in vs)
            ctx.ob(f"{api}: record is {rec}(request id, ...)", bool(okr), f"record {norm.text(s.ast.value)[:60]}", fn.loc(s.ast))
            if okr:
                for v in vs:
                    held |= {x.id for x in list(v.args) + [k_.value for k_ in v.keywords] if isinstance(x, ast.Name)}
        rets = [n for n in g.stmt_nodes() if n.kind == "stmt" and isinstance(n.ast, ast.Return) and n.ast.value is not None]
        okret = bool(rets) and all((isinstance(r.ast.value, ast.Name) and r.ast.value.id in held and r.ast.value.id not in prm) or
                                   ct(r.ast.value).startswith("txaio.create_future_success") for r in rets)
        ctx.ob(f"{api}: returns the pending result stored in the record", okret, f"returns {[norm.text(r.ast.value) for r in rets]}", fn.loc())
        if rets and stores:
            ctx.ob(f"{api}: record holds the pending result that is returned", any(isinstance(r.ast.value, ast.Name) and r.ast.value.id in held for r in rets),
                   "the returned object is not in the record", fn.loc(stores[0].ast))
        msgs = [c for c in calls_in(fn.node) if call_name(c) == f"message.{msgcls}"]
        ctx.ob(f"{api}: builds message.{msgcls}", bool(msgs), "message construction not found", fn.loc())
        for c in msgs:
            ok1 = len(c.args) >= 2 and ct(c.args[0]) == RID and ct(c.args[1]) == uri
            ctx.ob(f"{api}: message carries the request id and the given {uri}", ok1, f"{norm.text(c)[:70]}", fn.loc(c))
            if api in ("publish", "call"):
                kws = {k_.arg: ct(k_.value) for k_ in c.keywords if k_.arg}
                if "payload" in kws:
                    ctx.ob(f"{api}: encoded form carries no clear args/kwargs", "args" not in kws and "kwargs" not in kws, f"{sorted(kws)}", fn.loc(c))
                else:
                    ctx.ob(f"{api}: args/kwargs passed through unmodified", kws.get("args") == "args" and kws.get("kwargs") == "kwargs", f"{kws}", fn.loc(c))
        sends = [(n, c) for n in g.stmt_nodes() for c in node_calls(n) if norm.text(c.func) == "self._transport.send" and len(c.args) == 1
                 and all(isinstance(v, ast.Call) and call_name(v) == f"message.{msgcls}" for v in defs_of(c.args[0]))]
        others = [c for n in g.stmt_nodes() for c in node_calls(n) if norm.text(c.func) == "self._transport.send" and all(c is not x for _, x in sends)]
        ctx.ob(f"{api}: exactly one request message is sent", len(sends) == 1 and not others,
               f"{len(sends)} send sites for message.{msgcls}, {len(others)} other sends", fn.loc())
        guard = [n for n in g.stmt_nodes() if n.kind == "test" and norm.atoms(n.ast, True, res) == [("truth", "self._transport", None, False)]]
        # the TransportLost guard may sit in the enclosing public method (subscribe/register)
        host = fn if fn.parent is None else fn.parent
        gh, mfh, resh = an.get(host)
        guard_h = [n for n in gh.stmt_nodes() if n.kind == "test" and norm.atoms(n.ast, True, resh) == [("truth", "self._transport", None, False)]]
        okg = False
        for n in guard_h:
            tb = [m for m, lab in n.succ if lab and lab[0] == "T"]
            okg = okg or all(m.kind == "stmt" and isinstance(m.ast, ast.Raise) and "TransportLost" in norm.text(m.ast.exc) for m in tb)
        ctx.ob(f"{api}: fails immediately with TransportLost when there is no transport", okg, "transport guard missing", host.loc())
        if guard_h and ids and fn.parent is None:
            ctx.ob(f"{api}: transport guard precedes the id allocation", g.always_preceded_by(ids[0], lambda x: x in guard_h), "id allocated before the transport check", fn.loc())
        # record-before-send
        if stores and sends:
            s, (sn, sc) = stores[0], sends[0]
            if api == "publish":
                # the options object: the local taken out of the keyword arguments under the key "options" (whatever it is called)
                onames = {nm_ for nm_, d_ in local_canon(fn).items() if isinstance(d_, ast.Call) and norm.text(d_.func) in ("kwargs.pop", "kwargs.get")
                          and d_.args and isinstance(d_.args[0], ast.Constant) and d_.args[0].value == "options"} or {"options"}
                ok2 = any(("truth", f"{o_}.acknowledge", None, True) in mf.at(s) for o_ in onames) and not g.path_exists(sn, s)
            else:
                ok2 = g.always_preceded_by(sn, lambda x: x is s)
            ctx.ob(f"{api}: pending record is stored before the message is sent", ok2, "send can happen before the record exists (a fast reply would be unmatched)", fn.loc(sc))
            if api in ("publish", "call"):
                hs = [m for m, lab in sn.succ if lab and lab[0] == "exc"]
                okh = bool(hs)
                for h in hs:
                    body = h.ast.body
                    dels = any((isinstance(x, ast.Delete) and table in norm.text(x)) or
                               (isinstance(x, ast.Call) and isinstance(x.func, ast.Attribute) and x.func.attr == "pop" and table in norm.text(x.func.value)
                                and x.args and ct(x.args[0]) == RID) for b in body for x in ast.walk(b))
                    rer = any(isinstance(x, ast.Raise) for b in body for x in ast.walk(b))
                    okh = okh and dels and rer
                ctx.ob(f"{api}: record removed and error re-raised when send fails", okh, "send not wrapped / handler does not remove the record and re-raise", fn.loc(sc))
    # id generator
    idg = ctx.program.cls("autobahn.util.IdGenerator")
    init, nxt = idg.methods["__init__"], idg.methods["next"]
    ctx.analysed(nxt)
    s0 = [s for s in walk_no_defs(init.node) if isinstance(s, ast.Assign) and is_self_attr(s.targets[0], "_next")]
    ctx.ob("IdGenerator starts so that the first id is 1", len(s0) == 1 and norm.text(s0[0].value) == "0", f"{[norm.text(s.value) for s in s0]}", init.loc())
    # cell-wise (sa.core.tiny) over the stored counter: next() returns and stores the successor, 1 after 2^53
    from ..core.tiny import Tiny, Sym
    body = [s for s in nxt.node.body if not (isinstance(s, ast.Expr) and isinstance(s.value, ast.Constant))]
    bad = []
    try:
        for cur in (0, 1, 41, 2 ** 53 - 1, 2 ** 53):
            t = Tiny({"self": Sym("generator"), "self._next": cur}, default_call=lambda f_, a_, k_=None: Sym(f"<{f_}>"))
            r = t.run(body)
            want = cur + 1 if cur + 1 <= 2 ** 53 else 1
            stored = t.env.get("self._next", t.env["self"].attrs.get("_next"))
            if r != ("return", want) or stored != want:
                bad.append(f"counter {cur}: returns {r[1] if r[0] == 'return' else r}, stores {stored}, expected {want}")
    except AnalysisError as e:
        raise AnalysisError(f"[C04.1-request-construction] IdGenerator.next outside the modelled subset: {e}")
    ctx.ob("IdGenerator.next: pre-increment, wrap to 1 after 2^53, return", not bad, "id sequence changed: " + "; ".join(bad[:2]), nxt.loc())
    bs = ctx.program.cls("autobahn.wamp.protocol.BaseSession").methods["__init__"]
    ctx.ob("each session owns its own IdGenerator", any(isinstance(s, ast.Assign) and is_self_attr(s.targets[0], "_request_id_gen") and norm.text(s.value) == "IdGenerator()" for s in walk_no_defs(bs.node)),
           "generator not per session", bs.loc())
    # "sequential from 1 within the session": the ids are session scoped, a session object can join again (leave() .. join() on the same
    # object / transport); wherever the id of a newly established session is stored, the generator the request ids are drawn from is renewed
    om = ctx.program.func("autobahn.wamp.protocol.ApplicationSession.onMessage")
    gen_attr = RID.split(".")[1] if RID.startswith("self.") else None
    ctx.require(gen_attr is not None, "request id source is not an attribute of the session")
    joins = []
    cls_as = ctx.program.cls("autobahn.wamp.protocol.ApplicationSession")

    def renews(fnode, depth=0):
        for x in walk_no_defs(fnode):
            if isinstance(x, ast.Assign) and any(is_self_attr(t_, gen_attr) for t_ in x.targets) and isinstance(x.value, ast.Call) \
                    and call_name(x.value) in ("IdGenerator", "util.IdGenerator") and not x.value.args:
                return True
            if depth < 2 and isinstance(x, ast.Call) and isinstance(x.func, ast.Attribute) and isinstance(x.func.value, ast.Name) and x.func.value.id == "self":
                h = ctx.program.lookup_method(cls_as, x.func.attr) if hasattr(ctx.program, "lookup_method") else None
                if h is None:
                    for k_ in ctx.program.mro(cls_as):
                        if x.func.attr in k_.methods:
                            h = k_.methods[x.func.attr]
                            break
                if h is not None and renews(h.node, depth + 1):
                    return True
        return False
    flushed_first = []
    for f_ in [om.node] + [x for x in ast.walk(om.node) if isinstance(x, (ast.FunctionDef, ast.AsyncFunctionDef)) and x is not om.node]:
        for st_ in walk_no_defs(f_):
            if isinstance(st_, ast.Assign) and any(is_self_attr(t_, "_session_id") for t_ in st_.targets) and not (isinstance(st_.value, ast.Constant) and st_.value.value is None):
                joins.append((st_, renews(f_)))
                gens = [x.lineno for x in walk_no_defs(f_) if isinstance(x, ast.Assign) and any(is_self_attr(t_, gen_attr) for t_ in x.targets)]
                fails = [x.lineno for x in walk_no_defs(f_) if isinstance(x, ast.Call) and isinstance(x.func, ast.Attribute) and x.func.attr == "_errback_outstanding_requests"]
                flushed_first.append((st_, bool(gens) and bool(fails) and min(fails) < min(gens)))
    ctx.ob("the session id of an established session is stored in onMessage", len(joins) >= 1, "store of the WELCOME session id not found", om.loc())
    for st_, fresh in joins:
        ctx.ob(f"a newly established session draws its request ids from a fresh IdGenerator (`{norm.text(st_)[:50]}`)", fresh,
               f"self.{gen_attr} is created once per session OBJECT only: after leave() and join() on the same object the new session continues with the ids of "
               f"the old one (first request id is not 1)", om.loc(st_))
    for st_, okf in flushed_first:
        ctx.ob("requests of an earlier session that are still pending are failed before the ids restart (they would meet the ids of the new session)", okf,
               "the id generator is renewed while requests of the previous session on this object may still sit in the pending tables (its onLeave need not have "
               "failed them): request 1 of the new session replaces request 1 of the old one, whose pending result is lost for good", om.loc(st_))


def rule_dispatch(ctx):
    ctx.rule("C04.3-reply-dispatch")
    om = get_onmessage(ctx)
    g, mf, res = om.g, om.mf, om.res
    for arm, table in REPLY_TABLE.items():
        nodes = om.arm_nodes(arm)
        ctx.require(nodes, f"onMessage: arm for message.{arm} not found")
        used = set()
        for n in nodes:
            if n.ast is not None and not isinstance(n.ast, (ast.FunctionDef,)):
                used |= set(table_uses(n.ast)) if n.kind != "handler" else set()
        ctx.ob(f"{arm}: only consults {table}", used == {table}, f"arm touches {sorted(used)}", om.fn.loc(nodes[0].ast))
        # the lookup: `msg.request in table`, or `r is not None` for r = table.get(msg.request) / table.pop(msg.request, None)
        from .common import local_canon
        cn_ = local_canon(om.fn)

        def is_lookup(n_):
            at_ = norm.atoms(n_.ast, True, res)
            if ("in", "msg.request", ("e", f"self.{table}"), True) in at_:
                return True
            forms = (f"self.{table}.get(msg.request)", f"self.{table}.get(msg.request,None)", f"self.{table}.pop(msg.request,None)")
            for f_ in at_:
                if f_[0] == "is" and f_[2] == ("c", None) and f_[3] is False:
                    if f_[1] in cn_ and (norm.text(cn_[f_[1]]) or "").replace(" ", "") in forms:
                        return True
                    # a name re-used by several arms: the assignment of this arm that dominates the test
                    defs_ = [m_ for m_ in nodes if m_.kind == "stmt" and isinstance(m_.ast, ast.Assign) and len(m_.ast.targets) == 1 and norm.text(m_.ast.targets[0]) == f_[1]
                             and (norm.text(m_.ast.value) or "").replace(" ", "") in forms]
                    if any(g.always_preceded_by(n_, lambda x, _d=d_: x is _d) for d_ in defs_):
                        return True
            return False
        look = [n for n in nodes if n.kind == "test" and is_lookup(n)]
        ctx.ob(f"{arm}: looks up msg.request in {table}", len(look) == 1, "lookup test changed", om.fn.loc(nodes[0].ast))
        if look:
            # the path on which the id is unknown ends in ProtocolError
            fsucc = [m for m, lab in look[0].succ if lab and lab[0] == "F"]
            endp = all(_reaches_only_protocol_error(g, m) for m in fsucc)
            if arm == "Unregistered":
                pass
            ctx.ob(f"{arm}: an id with no pending request is a protocol violation", endp, "unknown request id is not answered with ProtocolError", om.fn.loc(look[0].ast))
    # ERROR arm
    nodes = om.arm_nodes("Error")
    pairs = {}
    for n in nodes:
        if n.kind == "test":
            at = norm.atoms(n.ast, True, res)
            # the request kind may be tested in the same condition or in an enclosing one (`if kind == K and id in T` == `if kind == K: if id in T`)
            known = list(at) + [f for f in (mf.at(n) or ()) if len(f) > 3 and f[3]]
            kinds = [f[2][1] for f in known if f[0] == "eq" and f[1] == "msg.request_type" and f[2][0] == "c" and f[3]]
            tabs = [f[2][1] for f in at if f[0] == "in" and f[1] == "msg.request" and f[3]]
            if kinds and tabs:
                pairs[kinds[0]] = (tabs[0], n)
    m = ctx.program.module("autobahn.wamp.message")
    for kind, table in REQUEST_KIND.items():
        code = ctx.program.class_const(m.classes[kind], "MESSAGE_TYPE")
        got = pairs.get(code)
        ctx.ob(f"ERROR for {kind} is matched against {table}", got is not None and got[0] == f"self.{table}", f"matched against {got[0] if got else None}", om.fn.loc())
        if got:
            tb = [x for x, lab in got[1].succ if lab and lab[0] == "T"]
            okp = all(x.kind == "stmt" and isinstance(x.ast, ast.Assign) and norm.text(x.ast.value) == f"self.{table}.pop(msg.request).on_reply" for x in tb)
            ctx.ob(f"ERROR for {kind}: removes the record and takes its pending result", okp, "pop/on_reply changed", om.fn.loc(got[1].ast))
    ctx.ob("ERROR arm handles exactly the six request kinds", len(pairs) == 6, f"{len(pairs)} kinds", om.fn.loc())
    # whichever way the test is written: where no pending result was found (on_reply falsy) the only way on is ProtocolError,
    # and the reject happens only with one
    # the pending result: the local that is rejected in this arm (whatever it is called)
    orn = {c.args[0].id for n in nodes for c in node_calls(n) if call_name(c) == "txaio.reject" and c.args and isinstance(c.args[0], ast.Name)}
    orn = next(iter(orn)) if len(orn) == 1 else "on_reply"
    fin = [n for n in nodes if n.kind == "test" and norm.atoms(n.ast, True, res) in ([("truth", orn, None, True)], [("truth", orn, None, False)])]
    ok = len(fin) == 1
    if ok:
        pos = norm.atoms(fin[0].ast, True, res)[0][3]
        miss_edge = "F" if pos else "T"
        ok = all(_reaches_only_protocol_error(g, x) for x, lab in fin[0].succ if lab and lab[0] == miss_edge)
    ctx.ob("ERROR matching no pending request is a protocol violation", ok, "unmatched ERROR not answered with ProtocolError", om.fn.loc())
    rej = [(n, c) for n in nodes for c in node_calls(n) if call_name(c) == "txaio.reject"]
    for n, c in rej:
        ctx.ob("ERROR: the reject happens only when a pending result was found", ("truth", orn, None, True) in (mf.at(n) or ()), "reject reachable without a pending result", om.fn.loc(c))
    ok = len(rej) == 1 and norm.text(rej[0][1].args[0]) == orn and norm.text(rej[0][1].args[1]) == "self._exception_from_message(msg)"
    ctx.ob("ERROR rejects the pending result with the exception built from the message", ok, "reject changed", om.fn.loc())


def _reaches_only_protocol_error(g, node):
    """From `node` every path ends in `raise ProtocolError(...)` without side effects on the tables."""
    seen = set()
    stack = [node]
    while stack:
        n = stack.pop()
        if n.id in seen:
            continue
        seen.add(n.id)
        if n.kind == "stmt" and isinstance(n.ast, ast.Raise):
            if not (isinstance(n.ast.exc, ast.Call) and norm.text(n.ast.exc.func) == "ProtocolError"):
                return False
            continue
        if n.kind in ("exit",):
            return False
        if n.kind == "stmt" and isinstance(n.ast, (ast.Assign, ast.Expr)) and table_uses(n.ast):
            return False
        for m, lab in n.succ:
            stack.append(m)
    return True


def rule_remove_then_complete(ctx):
    ctx.rule("C04.4-remove-then-complete")
    om = get_onmessage(ctx)
    g, mf, res = om.g, om.mf, om.res
    for arm, table in REPLY_TABLE.items():
        nodes = om.arm_nodes(arm)
        completes = [(n, c) for n in nodes for c in node_calls(n) if call_name(c) in ("txaio.resolve", "txaio.reject")]
        ctx.ob(f"{arm}: completes the pending result", bool(completes), "no resolve/reject in the arm", om.fn.loc())
        removes = [n for n in nodes if n.kind == "stmt" and ((isinstance(n.ast, ast.Assign) and f"self.{table}.pop(msg.request" in norm.text(n.ast.value)) or
                                                             (isinstance(n.ast, ast.Delete) and norm.text(n.ast.targets[0]) == f"self.{table}[msg.request]"))]
        plain = arm != "Result"   # the five plain arms are decided on cells (C04.8: resolved once and removed / left alone and removed / protocol violation)
        if not plain:
            ctx.ob(f"{arm}: removes the record", len(removes) == 1, f"{len(removes)} removal sites", om.fn.loc())
        for n, c in completes:
            if not plain:
                ctx.ob(f"{arm}: `{stmt_key(c)[:50]}` happens after the record was removed", bool(removes) and g.always_preceded_by(n, lambda x: x in removes),
                       "pending result completed while its record is still in the table (a duplicate reply would complete it again)", om.fn.loc(c))
            tgt = norm.text(c.args[0])

            def own(e, depth=0, nodes=nodes, table=table):
                """e denotes the pending result of the record found under msg.request in this arm's table (through locals of any name)"""
                if depth > 4:
                    return False
                t_ = norm.text(e) or ""
                if f"self.{table}" in t_ and "msg.request" in t_:
                    return t_.endswith(".on_reply") or depth > 0
                if isinstance(e, ast.Attribute) and e.attr == "on_reply":
                    return own(e.value, depth + 1)
                if isinstance(e, ast.Name):
                    defs = [n_.ast.value for n_ in nodes if n_.kind == "stmt" and isinstance(n_.ast, ast.Assign) and
                            any(isinstance(t2, ast.Name) and t2.id == e.id for t2 in n_.ast.targets)]
                    return bool(defs) and all(own(d_, depth + 1) for d_ in defs)
                return False
            ctx.ob(f"{arm}: `{stmt_key(c)[:50]}` completes this request's own pending result", own(c.args[0]),
                   f"completes {tgt}", om.fn.loc(c))
        # no path completes twice
        for n, c in completes:
            reach = g.reachable(n, start_exclusive=True)
            ctx.ob(f"{arm}: nothing completes again after `{stmt_key(c)[:40]}`", not any(m.id in reach and m is not n for m, _ in completes), "two completions on one path", om.fn.loc(c))
        guard = [n for n in nodes if n.kind == "test" and "txaio.is_called" in ast.unparse(n.ast)]
        for gn in guard:
            for m_, lab in gn.succ:
                if lab and lab[0] == "T" and m_.kind == "stmt" and isinstance(m_.ast, ast.Return):
                    ctx.ob(f"{arm}: the record is removed also when the pending result was already completed (cancelled call)",
                           bool(removes) and g.always_preceded_by(m_, lambda x: x in removes),
                           "the early return for an already completed result leaves the record in the table: the request stays pending forever and "
                           "duplicate replies are accepted instead of being protocol violations", om.fn.loc(m_.ast))
        ctx.ob(f"{arm}: an already completed (e.g. cancelled) result is left alone", len(guard) == 1 and
               all(m.kind == "stmt" and isinstance(m.ast, ast.Return) for m, lab in guard[0].succ if lab and lab[0] == "T"), "is_called guard changed", om.fn.loc())
    # progressive results
    nodes = om.arm_nodes("Result")
    prog = [n for n in nodes if ("truth", "msg.progress", None, True) in (mf.at(n) or ())]
    ctx.require(prog, "RESULT progress path not found")
    bad = [n for n in prog if (n.kind == "stmt" and isinstance(n.ast, ast.Delete)) or any(call_name(c) in ("txaio.resolve", "txaio.reject") for c in node_calls(n)) or
           (n.kind == "stmt" and isinstance(n.ast, ast.Assign) and ".pop(" in norm.text(n.ast.value))]
    ctx.ob("RESULT progress: neither removes the call record nor completes the call", not bad, f"{[stmt_key(n.ast)[:40] for n in bad]}", om.fn.loc())
    final = [n for n in nodes if (n.kind == "stmt" and isinstance(n.ast, ast.Delete) and "_call_reqs" in norm.text(n.ast.targets[0])) or
             any(call_name(c) in ("txaio.resolve", "txaio.reject") for c in node_calls(n))]
    ctx.require(len(final) >= 3, "RESULT final path not found")
    for n in final:
        ctx.ob(f"RESULT: `{stmt_key(n.ast)[:50]}` only for a non-progressive RESULT", ("truth", "msg.progress", None, False) in (mf.at(n) or ()),
               "a RESULT flagged progress can remove the call record / complete the call (e.g. when the call has no on_progress handler): "
               "the call ends with a partial result and its real final RESULT becomes a protocol violation", om.fn.loc(n.ast))
    # the handler is identified by its canonical definition (read through `call_request.options` or a local alias of it)
    from .common import local_canon, canon_text
    _cn = local_canon(om.fn)
    # ... of the record looked up under this request id (the local holding the record is identified by that lookup, not by its name)
    LOOKUPS = ("self._call_reqs[msg.request]", "self._call_reqs.get(msg.request)", "self._call_reqs.get(msg.request,None)")
    recs = [s.ast.targets[0].id for s in nodes if s.kind == "stmt" and isinstance(s.ast, ast.Assign) and len(s.ast.targets) == 1 and isinstance(s.ast.targets[0], ast.Name)
            and (norm.text(s.ast.value) or "").replace(" ", "") in LOOKUPS]
    HANDLERS = {canon_text(om.fn, ast.parse(f"{r_}.options.on_progress", mode="eval").body, _cn) for r_ in set(recs)}
    cb = [(n, c) for n in prog for c in node_calls(n) if call_name(c) == "txaio.as_future" and c.args and canon_text(om.fn, c.args[0], _cn) in HANDLERS]
    ctx.ob("RESULT progress: delivered to the on_progress handler of the call with this request id", len(cb) == 2 and len(set(recs)) == 1,
           "progress delivery changed", om.fn.loc())


def rule_reply_cells(ctx):
    """The five plain reply arms of onMessage (PUBLISHED, SUBSCRIBED, UNSUBSCRIBED, REGISTERED, UNREGISTERED), evaluated (sa.core.tiny) on the
    states of the pending tables: how the arm looks the request up (`in` + pop, pop with default, get ...) does not matter, what happens does."""
    from ..core.tiny import Tiny, Sym, OpenSym
    from .common import inline_private
    from .c11 import _arm_body
    ctx.rule("C04.8-reply-arm-cells")
    om = get_onmessage(ctx)
    inl = inline_private(ctx, ctx.program.cls(APPSESSION))
    arms = [a for a in REPLY_TABLE if a != "Result"]
    n = 0
    for arm in arms:
        table = REPLY_TABLE[arm]
        body = _arm_body(om, arm)
        probs = []
        try:
            for what, present, called, elsewhere in (("a pending request with this id", True, False, False), ("the request's result already completed (cancelled)", True, True, False),
                                                     ("no request with this id", False, False, False), ("the id pending only as another kind of request", False, False, True)):
                fut = Sym("pending-result")
                rec = OpenSym("request-record", on_reply=fut, request_id=7)
                other_rec = OpenSym("other-record", on_reply=Sym("other-result"), request_id=7)
                tabs = {t_: {} for t_ in ALL_TABLES}
                if present:
                    tabs[table][7] = rec
                tabs[table][8] = OpenSym("unrelated-record", on_reply=Sym("unrelated-result"))
                if elsewhere:
                    for t_ in ALL_TABLES:
                        if t_ != table:
                            tabs[t_][7] = other_rec
                done = []

                def default(f_, a_, k_=None):
                    if f_ in ("txaio.resolve", "txaio.reject") and a_:
                        done.append((f_.split(".")[1], a_[0]))
                        return None
                    if f_ == "txaio.is_future":
                        return True
                    if f_ == "txaio.is_called":
                        return called and a_ and a_[0] is fut
                    if f_ == "isinstance":
                        return True
                    return Sym(f"<{f_}>")
                env = {"self": Sym("session"), "msg": OpenSym("message", request=7, subscription=55, registration=66, publication=9, reason=None),
                       "self._subscriptions": {}, "self._registrations": {}, "self.log": Sym("log"), "self._session_id": 1}
                env.update({f"self.{t_}": tabs[t_] for t_ in ALL_TABLES})
                t = Tiny(env, default_call=default, inline_self=inl, opaque_globals=True, model_strings=True)
                r = t.run(body)
                n += 1
                cell = f"{arm} for request 7 with {what}"
                mine = [d for d in done if d[1] is fut]
                foreign = [d for d in done if d[1] is not fut]
                left = 7 in t.env[f"self.{table}"]
                if foreign:
                    probs.append(f"{cell}: completes a result that is not this request's ({foreign[0][1]})")
                elif present and not called:
                    if r[0] == "raise" or len(mine) != 1 or mine[0][0] != "resolve" or left:
                        probs.append(f"{cell}: {r[0] if r[0] == 'raise' else ''} result completed {len(mine)} time(s), record {'still in' if left else 'removed from'} {table}; "
                                     f"expected resolved once and the record removed")
                elif present and called:
                    if r[0] == "raise" or mine or left:
                        probs.append(f"{cell}: {'raises' if r[0] == 'raise' else ''} completed {len(mine)} time(s), record {'still in' if left else 'removed from'} {table}; "
                                     f"expected nothing completed and the record removed")
                else:
                    perr = r[0] == "raise" and "ProtocolError" in str(r[1])
                    untouched = all(len(t.env[f"self.{t_}"]) == len(tabs[t_]) for t_ in ALL_TABLES) and 8 in t.env[f"self.{table}"]
                    if not perr or done or not untouched:
                        probs.append(f"{cell}: {r[0]} {str(r[1])[:40]}, {len(done)} completion(s), tables {'untouched' if untouched else 'changed'}; expected ProtocolError and nothing else")
                if 8 not in t.env[f"self.{table}"]:
                    probs.append(f"{cell}: an unrelated pending request was removed")
        except AnalysisError as e:
            raise AnalysisError(f"[C04.8-reply-arm-cells] onMessage {arm} arm outside the modelled subset: {e}")
        ctx.ob(f"{arm}: a reply retires exactly its own request (resolved once, or left alone if already completed) and an unmatched reply is a protocol violation [4 cells]",
               not probs, "; ".join(probs[:2]), om.fn.loc(body[0]))
    ctx.require(n >= 20, f"only {n} cells")


def rule_optional_payload(ctx):
    ctx.rule("C04.5-optional-args-kwargs")
    om = get_onmessage(ctx)
    count = 0
    funcs = [(om.fn, om.g, om.mf)] + [(c,) + tuple(om.an.get(c)[:2]) for c in om.closures()]
    bs = ctx.program.func("autobahn.wamp.protocol.BaseSession._exception_from_message")
    funcs.append((bs,) + tuple(om.an.get(bs)[:2]))
    from .common import local_canon, canon_text

    def _empty_default(e, what):
        # `msg.args or ()` / `msg.kwargs or {}`: never None
        return isinstance(e, ast.BoolOp) and isinstance(e.op, ast.Or) and len(e.values) == 2 and norm.text(e.values[0]) == what and \
            ((isinstance(e.values[1], (ast.Tuple, ast.List)) and not e.values[1].elts) or (isinstance(e.values[1], ast.Dict) and not e.values[1].keys) or
             (isinstance(e.values[1], ast.Call) and isinstance(e.values[1].func, ast.Name) and e.values[1].func.id in ("tuple", "list", "dict") and not e.values[1].args))
    for fn, g, mf in funcs:
        cn = local_canon(fn)
        for n in g.stmt_nodes():
            facts = mf.at(n)
            if facts is None or n.ast is None:
                continue
            exprs = []
            # the payload unpacked through a local: `args = msg.args or ()` is safe, `args = msg.args` needs the same guard as msg.args itself
            for x in ast.walk(n.ast) if not isinstance(n.ast, (ast.FunctionDef, ast.AsyncFunctionDef, ast.ClassDef)) else []:
                val = x.value if isinstance(x, ast.Starred) else (x.value if isinstance(x, ast.keyword) and x.arg is None else None)
                if isinstance(val, ast.Name) and val.id in cn:
                    d = cn[val.id]
                    for what in ("msg.args", "msg.kwargs"):
                        if _empty_default(d, what):
                            count += 1
                            ctx.ob(f"{fn.name}: `{'*' if isinstance(x, ast.Starred) else '**'}{val.id}` (= {what} or empty) cannot be None [{stmt_key(n.ast)[:40]}]", True)
                        elif norm.text(d) == what:
                            count += 1
                            ok = norm.is_truthy_known(facts, what) is True or norm.not_none_known(facts, what) or norm.is_truthy_known(facts, val.id) is True or norm.not_none_known(facts, val.id)
                            ctx.ob(f"{fn.name}: `{'*' if isinstance(x, ast.Starred) else '**'}{val.id}` (= {what}) only under a guard that it is set [{stmt_key(n.ast)[:40]}]", ok,
                                   f"{what} is Optional (None when the message carries none) but is unpacked unguarded through `{val.id}`: TypeError out of onMessage", fn.loc(x))
            from ..core.cfg import node_exprs
            for e in node_exprs(n):
                for x in ([e] if isinstance(e, ast.AST) else []):
                    for y in walk_no_defs(x) if not isinstance(x, ast.expr) else [x] + list(walk_no_defs(x)):
                        if isinstance(y, ast.Starred) and norm.text(y.value) in ("msg.args",):
                            exprs.append(("*", "msg.args", y))
                        elif isinstance(y, ast.keyword) and y.arg is None and norm.text(y.value) in ("msg.kwargs",):
                            exprs.append(("**", "msg.kwargs", y.value))
                        elif isinstance(y, ast.Subscript) and norm.text(y.value) == "msg.args" and isinstance(y.ctx, ast.Load):
                            exprs.append(("[]", "msg.args", y))
                        elif isinstance(y, ast.Call) and isinstance(y.func, ast.Name) and y.func.id in ("len", "tuple", "list") and y.args and norm.text(y.args[0]) in ("msg.args", "msg.kwargs"):
                            exprs.append((y.func.id, norm.text(y.args[0]), y))
            def guarded_in_expr(root, what):
                """ids of the sub-expressions of `root` that are only evaluated when `what` is set (conditional expression / short-circuit and)"""
                out = set()
                for x in ast.walk(root):
                    if isinstance(x, ast.IfExp):
                        t_ = x.test
                        pos = norm.text(t_) == what or (isinstance(t_, ast.Compare) and len(t_.ops) == 1 and isinstance(t_.ops[0], ast.IsNot) and norm.text(t_.left) == what
                                                        and isinstance(t_.comparators[0], ast.Constant) and t_.comparators[0].value is None)
                        neg = (isinstance(t_, ast.UnaryOp) and isinstance(t_.op, ast.Not) and norm.text(t_.operand) == what) or \
                            (isinstance(t_, ast.Compare) and len(t_.ops) == 1 and isinstance(t_.ops[0], ast.Is) and norm.text(t_.left) == what
                             and isinstance(t_.comparators[0], ast.Constant) and t_.comparators[0].value is None)
                        if pos:
                            out |= {id(y) for y in ast.walk(x.body)}
                        if neg:
                            out |= {id(y) for y in ast.walk(x.orelse)}
                    elif isinstance(x, ast.BoolOp) and isinstance(x.op, ast.And):
                        for i, v in enumerate(x.values):
                            if norm.text(v) == what:
                                for later in x.values[i + 1:]:
                                    out |= {id(y) for y in ast.walk(later)}
                return out
            for kind, what, node in exprs:
                count += 1
                ok = norm.is_truthy_known(facts, what) is True or norm.not_none_known(facts, what) or \
                    any(isinstance(e_, ast.AST) and id(node) in guarded_in_expr(e_, what) for e_ in node_exprs(n))
                ctx.ob(f"{fn.name}: `{kind}{what}` only under a guard that it is set [{stmt_key(n.ast)[:40]}]", ok,
                       f"{what} is Optional (None when the message carries none) but is unpacked/indexed unguarded: TypeError out of onMessage, "
                       f"which closes the transport", fn.loc(node))
    ctx.require(count >= 10, f"only {count} uses of msg.args/msg.kwargs found")
    # CallRequest.options is Optional as well (call() without options): every read of one of its attributes needs the guard
    n_opt = 0
    # the options object may be read through a local alias (`call_opts = call_request.options`): identified by canonical definition
    cn_om = local_canon(om.fn)
    # the request record of the RESULT arm: the local(s) read out of self._call_reqs there (whatever they are called)
    recs = {t_.id for n in om.arm_nodes("Result") if n.kind == "stmt" and isinstance(n.ast, ast.Assign)
            and any(norm.text(x_) == "self._call_reqs" for x_ in ast.walk(n.ast.value))
            for t_ in n.ast.targets if isinstance(t_, ast.Name)} or {"call_request"}
    OPTS = {canon_text(om.fn, ast.parse(f"{r_}.options", mode="eval").body, cn_om) for r_ in recs}
    OPT = sorted(OPTS)[0]
    aliases = {f"{r_}.options" for r_ in recs} | {nm for nm, d in cn_om.items() if (norm.text(d) or "") in OPTS or canon_text(om.fn, d, cn_om) in OPTS}

    def is_opt(e):
        return norm.text(e) in aliases or canon_text(om.fn, e, cn_om) in OPTS
    for n in om.arm_nodes("Result"):
        facts = om.mf.at(n) or ()
        from ..core.cfg import node_exprs
        for e in node_exprs(n):
            if not isinstance(e, ast.AST):
                continue
            # short-circuit operands: `a and a.b` guards a.b inside the same expression
            guarded_here = set()
            for x in ast.walk(e):
                if isinstance(x, ast.BoolOp) and isinstance(x.op, ast.And):
                    for i, v in enumerate(x.values):
                        if is_opt(v):
                            for later in x.values[i + 1:]:
                                guarded_here |= {id(y) for y in ast.walk(later)}
            for x in ast.walk(e):
                if isinstance(x, ast.Attribute) and is_opt(x.value) and isinstance(x.ctx, ast.Load):
                    n_opt += 1
                    ok = any(("truth", a_, None, True) in facts for a_ in aliases | OPTS) or id(x) in guarded_here
                    ctx.ob(f"RESULT: `{norm.text(x)}` read only when the call has options [{stmt_key(n.ast)[:40]}]", ok,
                           "call() without CallOptions stores options=None: this read raises AttributeError out of onMessage (a router sending an "
                           "unrequested progressive RESULT closes the transport and fails every pending request)", om.fn.loc(x))
    ctx.require(n_opt >= 3, f"only {n_opt} reads of call_request.options.* found in the RESULT arm")


def _options_cells(ctx, oc, c, fn):
    """Relational, spelling-independent form of "an explicitly given falsy option is not dropped": message_attr() is evaluated cell-wise
    with exactly one option set (all others None), once to the admissible falsy value of its type and once to a truthy one. Both runs
    must emit the same keys, and a key that carries the option's value in the truthy run carries the falsy value in the falsy run."""
    from ..core.tiny import Tiny, Sym
    from .c03 import falsy_admissible
    init = c.methods.get("__init__")
    if init is None:
        return set()
    attrs = sorted({x.attr for x in ast.walk(init.node) if is_self_attr(x) and isinstance(x.ctx, ast.Store)})
    body = [s_ for s_ in fn.node.body if not (isinstance(s_, ast.Expr) and isinstance(s_.value, ast.Constant))]
    reps = {"bool": (False, True), "int": (0, 5), "str": ("", "x"), "float": (0.0, 1.5)}
    n = 0
    for at in attrs:
        adm, t = falsy_admissible(ctx, init, at)
        if not adm or t not in reps:
            continue
        outs = []
        for val in reps[t]:
            env = {"self." + a: None for a in attrs}
            env["self." + at] = val
            env["self"] = Sym("options")
            try:
                r = Tiny(env, default_call=lambda f, a_, k_=None: Sym(f"<{f}>"), model_types=True).run(body)
            except AnalysisError as e:
                raise AnalysisError(f"[C04.6-options-to-wire] {oc}.message_attr outside the modelled subset: {e}")
            outs.append(r[1] if r[0] == "return" and isinstance(r[1], dict) else None)
        d0, d1 = outs
        n += 1
        ok = d0 is not None and d1 is not None and set(d0) == set(d1) and all(type(d0[k]) is type(val0) and d0[k] == val0 for k in d1 for val0 in [reps[t][0]]
                                                                               if type(d1[k]) is type(reps[t][1]) and d1[k] == reps[t][1])
        ctx.ob(f"{oc}: {at}={reps[t][0]!r} reaches the wire like {at}={reps[t][1]!r} does [2 cells]", ok,
               f"{oc}({at}={reps[t][1]!r}) emits {d1}, {oc}({at}={reps[t][0]!r}) emits {d0}: the explicitly given value is dropped or altered, the router applies its default", fn.loc())
    ctx.require(n >= 1 or oc in ("SubscribeOptions",), f"{oc}: no option with an admissible falsy value found")
    # every option given at once, each attribute holding a value that names it: whatever key carries one of these values (bare, or wrapped into a
    # one-element list as the scalar forms of the authid / authrole filters are) must carry the value of the attribute of its own name
    mark = lambda a_: f"value-of:{a_}"
    env = {"self." + a: mark(a) for a in attrs}
    env["self"] = Sym("options")
    try:
        r = Tiny(env, default_call=lambda f, a_, k_=None: Sym(f"<{f}>"), model_types=True).run(body)
    except AnalysisError as e:
        raise AnalysisError(f"[C04.6-options-to-wire] {oc}.message_attr outside the modelled subset: {e}")
    wrong = []
    if r[0] == "return" and isinstance(r[1], dict):
        for k_, v_ in r[1].items():
            inner = v_[0] if isinstance(v_, list) and len(v_) == 1 else v_
            if isinstance(inner, str) and inner.startswith("value-of:") and inner != mark(k_):
                wrong.append(f"'{k_}' is sent with the value of self.{inner.split(':', 1)[1]}")
    else:
        wrong.append(f"message_attr {r[0]} {str(r[1])[:60]}")
    ctx.ob(f"{oc}: with every option given, each key on the wire carries the value of the option of the same name [1 cell, {len(attrs)} options]", not wrong,
           "; ".join(wrong[:3]), fn.loc())
    return set(r[1]) if r[0] == "return" and isinstance(r[1], dict) else set()


def rule_options(ctx):
    ctx.rule("C04.6-options-to-wire")
    tm = ctx.program.module("autobahn.wamp.types")
    mm = ctx.program.module("autobahn.wamp.message")
    for oc, mc in (("PublishOptions", "Publish"), ("CallOptions", "Call"), ("SubscribeOptions", "Subscribe"), ("RegisterOptions", "Register")):
        c = tm.classes.get(oc)
        ctx.require(c is not None and "message_attr" in c.methods, f"{oc}.message_attr missing")
        fn = c.methods["message_attr"]
        ctx.analysed(fn)
        params = set(mm.classes[mc].methods["__init__"].params())
        an = get_analysis(ctx)
        g, mf, res = an.get(fn)
        n_keys = 0
        for n in g.stmt_nodes():
            if n.kind == "stmt" and isinstance(n.ast, ast.Assign) and isinstance(n.ast.targets[0], ast.Subscript) and isinstance(n.ast.targets[0].slice, ast.Constant):
                k = n.ast.targets[0].slice.value
                n_keys += 1
                ctx.ob(f"{oc}: option '{k}' is a parameter of message.{mc}", k in params, f"message.{mc}(**options.message_attr()) would raise TypeError for '{k}'", fn.loc(n.ast))
                attrs = [x.attr for x in ast.walk(n.ast.value) if is_self_attr(x)]
                gat = {mnt[5:] for f in mf.at(n) for mnt in norm.mentions(f) if mnt.startswith("self.")}
                if attrs:
                    ctx.ob(f"{oc}: option '{k}' guarded by the field it emits", bool(set(attrs) & gat), f"value from self.{attrs} under guard on {sorted(gat)}", fn.loc(n.ast))
                    init = c.methods.get("__init__")
                    for at in attrs:
                        if ("truth", f"self.{at}", None, True) in mf.at(n) and init is not None:
                            from .c03 import falsy_admissible
                            adm, t = falsy_admissible(ctx, init, at)
                            ctx.ob(f"{oc}: option '{k}' guard keeps an explicitly given falsy value", not adm,
                                   f"`if self.{at}:` drops the admissible value {'False' if t == 'bool' else '0' if t == 'int' else 'empty ' + str(t)}: "
                                   f"{oc}({at}=<falsy>) is sent without '{k}', so the router applies its default instead of the caller's choice", fn.loc(n.ast))
                    if k != "receive_progress":
                        ctx.ob(f"{oc}: option '{k}' emitted from the attribute of the same name", k in attrs, f"'{k}' written from self.{attrs}", fn.loc(n.ast))
        emitted = _options_cells(ctx, oc, c, fn)
        # the keys are those of the dict returned with every option given (however the dict is built: stores, literal, comprehension over a table)
        ctx.ob(f"{oc}: emits options", len(emitted) >= 3, f"{len(emitted)} keys", fn.loc())
        for k in sorted(emitted):
            if n_keys == 0:
                ctx.ob(f"{oc}: option '{k}' is a parameter of message.{mc}", k in params, f"message.{mc}(**options.message_attr()) would raise TypeError for '{k}'", fn.loc())


def run(ctx):
    # "a reply that matches no pending request is a protocol violation" also after the session ended: the tables are emptied when the
    # outstanding requests are failed (rule shared with C06.3)
    from .c06 import rule_pending_tables
    rule_pending_tables(ctx, "C04.9-tables-emptied-at-session-end")
    rule_reply_cells(ctx)
    rule_construction(ctx)
    rule_dispatch(ctx)
    rule_remove_then_complete(ctx)
    rule_optional_payload(ctx)
    rule_options(ctx)
    # "... or with the error that reply carries": the exception a pending request is rejected with is built from the ERROR's URI, args, kwargs
    from .c18 import rule_from_error
    rule_from_error(ctx, "C04.7-error-reply-content")
    # "every request message carries the caller's own URI, arguments, and options" -- also for the requests issued on behalf of a decorated object:
    # each decorated method is requested with its own URI and options (cells shared with C11.7 / C10.5)
    from .common import rule_decorated_object
    rule_decorated_object(ctx, "C04.10-decorated-object-subscribe-requests", "subscribe", "_subscribe", "is_handler", True)
    rule_decorated_object(ctx, "C04.10b-decorated-object-register-requests", "register", "_register", "is_endpoint", False)
