"""C10 - Every invocation gets exactly one terminal reply."""
import ast

from ..core.index import AnalysisError, walk_no_defs, calls_in, call_name, kwarg
from ..core.cfg import node_calls
from ..core import norm
from ..core.excflow import ExcFlow
from ..core.flow import CallGraph
from .common import get_analysis, is_self_attr, self_call, stmt_key, APPSESSION
from .wampsess import get_onmessage

META = {
    "explanation": "Exception classification of the three ITransport.send implementations (serializer modelled as 'may raise anything', "
                   "interprocedural may-raise through sendString/sendMessage): whatever can leave send() for a reply that cannot be "
                   "serialized or is too large must be one of the classes the invocation continuations handle; the continuations' first "
                   "send is wrapped by handlers for exactly those classes, each sending an ERROR for the same invocation; the invocation "
                   "record is stored before the continuations are attached and removed first thing in both; every reply carries "
                   "msg.request; progressive YIELDs only exist under receive_progress; the endpoint gets the caller's args/kwargs.",
    "assumptions": ["overlapping invocations and INTERRUPT at every point are histories: not decided",
                    "the property presupposes that the transport stays up (TransportLost / Disconnected are outside it)"],
}

SENDS = ["autobahn.wamp.websocket.WampWebSocketProtocol.send", "autobahn.twisted.rawsocket.WampRawSocketProtocol.send",
         "autobahn.asyncio.rawsocket.WampRawSocketMixinGeneral.send"]
HANDLED = {"SerializationError", "PayloadExceededError"}
GONE = {"TransportLost", "Disconnected"}


def _cg(ctx):
    if not hasattr(ctx, "_cg"):
        ctx._cg = CallGraph(ctx.program)
    return ctx._cg


def rule_send_classification(ctx):
    ctx.rule("C10.1-transport-send-error-classes")
    an = get_analysis(ctx)
    cg = _cg(ctx)
    ef = ExcFlow(ctx.program, an, callgraph=cg, report_generic_raise=True, opaque_raises={"self._serializer.serialize": "Exception"},
                 stop={"_trigger", "_send", "logTxFrame", "logTxOctets", "start_compress_message", "compress_message_data", "end_compress_message"})
    found = 0
    cell_results = {}
    for q in SENDS:
        if not ctx.program.has_func(q):
            continue
        fn = ctx.program.func(q)
        found += 1
        ctx.analysed(fn)
        sites = ef.may_raise(fn)
        kinds = {}
        for s in sites:
            kinds.setdefault(s.exc, s)
        bad = {k: v for k, v in kinds.items() if k not in HANDLED | GONE}
        # a raise inside the framing function sendString() is discharged by the cell-wise evaluation of send() (shared with C13.4: every announced
        # maximum x serialized length around each threshold): whatever leaves send() on those cells is PayloadExceededError or nothing
        from .c13 import SEND_LIMITS, send_limit_cells
        lim_of = dict(SEND_LIMITS)
        if q in lim_of:
            probs_, n_, kinds_ = send_limit_cells(ctx, q, lim_of[q], "C10.1-transport-send-error-classes")
            cell_results[q] = (probs_, n_)
            for k, s_ in list(bad.items()):
                if s_.fn.name == "sendString" and s_.fn.qualname != fn.qualname and k not in kinds_:
                    del bad[k]
        for k, s in sorted(bad.items()):
            # raises that only signal API misuse of sendFrame etc. are not reply-dependent
            if k == "Exception" and s.fn.qualname != fn.qualname and "serialize" not in s.what:
                continue
            ctx.ob(f"{q.split('.')[-3]}.{q.split('.')[-2]}.send: {k} from `{s.what[:50]}`", False,
                   f"send() can raise {k} ({s.what[:60]} in {s.fn.name}): the invocation continuation only handles SerializationError and "
                   f"PayloadExceededError, so an un-serializable or oversized endpoint result gets no ERROR reply", s.loc())
        ctx.ob(f"{q}: analysed", True)
        # serializer call wrapped so that any failure becomes SerializationError
        g, mf, res = an.get(fn)
        ser = [(n, c) for n in g.stmt_nodes() for c in node_calls(n) if norm.text(c.func) == "self._serializer.serialize"]
        ctx.ob(f"{q}: serializes the message once", len(ser) == 1, f"{len(ser)} serialize calls", fn.loc())
        ctx.ob(f"{q}: refuses when no session is attached", any(isinstance(s_, ast.Raise) and "TransportLost" in norm.text(s_.exc) for s_ in walk_no_defs(fn.node)), "TransportLost path missing", fn.loc())
    ctx.require(found == 3, f"expected 3 ITransport.send implementations, found {found}")
    # size limit of the asyncio/twisted rawsocket is signalled as PayloadExceededError before anything is written
    for q in SENDS[1:]:
        fn = ctx.program.func(q)
        probs_, n_ = cell_results.get(q, (["send() not evaluated"], 0))
        ctx.ob(f"{q}: an over-limit message raises PayloadExceededError instead of being written, a message within the limit is written [{n_} cells]", not probs_,
               "; ".join(probs_[:2]), fn.loc())


def rule_fallback(ctx):
    ctx.rule("C10.2-fallback-error-reply")
    om = get_onmessage(ctx)
    an = om.an
    for name in ("success", "error"):
        clo = [c for c in om.closures() if c.name == name and om.closure_arm(c)[0] == "Invocation" and c.parent is om.fn]
        ctx.require(len(clo) == 1, f"Invocation arm: continuation `{name}` not found")
        fn = clo[0]
        ctx.analysed(fn)
        g, mf, res = an.get(fn)
        sends = [(n, c) for n in g.stmt_nodes() for c in node_calls(n) if norm.text(c.func) == "self._transport.send"]
        first = [x for x in sends if norm.text(x[1].args[0]) == "reply" and any(lab and lab[0] == "exc" for m, lab in x[0].succ)]
        ctx.ob(f"{name}: the reply is sent inside a try", len(first) == 1, "terminal reply send not wrapped", fn.loc())
        if not first:
            continue
        hs = [m for m, lab in first[0][0].succ if lab and lab[0] == "exc"]
        caught = set()
        for h in hs:
            ts = [norm.text(t) for t in (h.ast.type.elts if isinstance(h.ast.type, ast.Tuple) else [h.ast.type])] if h.ast.type is not None else ["<bare>"]
            caught |= set(ts)
            # each handler sends an ERROR for this invocation
            errs = [c for b in h.ast.body for c in ast.walk(b) if isinstance(c, ast.Call) and call_name(c) == "message.Error"]
            snd = [c for b in h.ast.body for c in ast.walk(b) if isinstance(c, ast.Call) and norm.text(c.func) == "self._transport.send"]
            ok = len(errs) == 1 and len(snd) == 1 and len(errs[0].args) >= 3 and norm.text(errs[0].args[0]) == "message.Invocation.MESSAGE_TYPE" and norm.text(errs[0].args[1]) == "msg.request"
            ctx.ob(f"{name}: handler for {'/'.join(ts)} sends ERROR(INVOCATION, msg.request, ...)", ok, "fallback ERROR missing or for another request", fn.loc(h.ast))
            if errs:
                # the fallback must be sendable where the reply was not: it may not carry (a rendering of) the rejected payload
                PAYLOAD = ("reply.args", "reply.kwargs", "reply.payload", "res", "res.results", "res.kwresults", "err.value.args", "err.value.kwargs", "reply")
                carried = sorted({norm.text(x) for x in ast.walk(errs[0]) if isinstance(x, (ast.Name, ast.Attribute)) and isinstance(getattr(x, "ctx", None), ast.Load)
                                  and norm.text(x) in PAYLOAD})
                ctx.ob(f"{name}: fallback ERROR for {'/'.join(ts)} does not embed the rejected payload", not carried,
                       f"the ERROR text renders {carried}: for an oversized (or unserializable) payload the fallback is itself oversized, its send raises out of "
                       f"`{name}` and the invocation gets no terminal reply at all", fn.loc(errs[0]))
                sent = norm.text(snd[0].args[0]) if snd else None
                asg = [s_ for b in h.ast.body for s_ in ast.walk(b) if isinstance(s_, ast.Assign) and s_.value is errs[0]]
                ctx.ob(f"{name}: handler for {'/'.join(ts)} sends the ERROR it built", bool(asg) and sent == norm.text(asg[0].targets[0]), f"sends {sent}", fn.loc(h.ast))
        ctx.ob(f"{name}: handlers cover SerializationError and PayloadExceededError", HANDLED <= caught, f"caught {sorted(caught)}", fn.loc())
        # record removed first
        # `del table[id]` or the equivalent `table.pop(id)` without a default (both raise KeyError for an unknown id, both remove the entry)
        dels = [n for n in g.stmt_nodes() if n.kind == "stmt" and (
            (isinstance(n.ast, ast.Delete) and norm.text(n.ast.targets[0]) == "self._invocations[msg.request]") or
            (isinstance(n.ast, (ast.Expr, ast.Assign)) and isinstance(n.ast.value, ast.Call) and norm.text(n.ast.value.func) == "self._invocations.pop"
             and [norm.text(a_) for a_ in n.ast.value.args] == ["msg.request"] and not n.ast.value.keywords))]
        ok = len(dels) == 1 and all(g.always_preceded_by(n, lambda x: x is dels[0]) for n, c in sends)
        ctx.ob(f"{name}: invocation record removed before any reply", ok, "record not deleted first", fn.loc())


def rule_table(ctx):
    ctx.rule("C10.3-invocation-table")
    om = get_onmessage(ctx)
    g, mf, res = om.g, om.mf, om.res
    nodes = om.arm_nodes("Invocation")
    st = [n for n in nodes if n.kind == "stmt" and isinstance(n.ast, ast.Assign) and norm.text(n.ast.targets[0]) == "self._invocations[msg.request]"]
    recv = st[0].ast.value if len(st) == 1 else None
    okrec = isinstance(recv, ast.Call) and call_name(recv) == "InvocationRequest" and len(recv.args) == 2 and norm.text(recv.args[0]) == "msg.request" and isinstance(recv.args[1], ast.Name)
    pend = recv.args[1].id if okrec else None
    cb = [(n, c) for n in nodes for c in node_calls(n) if call_name(c) == "txaio.add_callbacks" and len(c.args) == 3 and norm.text(c.args[0]) == pend
          and [norm.text(a) for a in c.args[1:]] == ["success", "error"]]
    ctx.ob("invocation recorded under its request id, holding the endpoint's pending result", bool(okrec), "record store changed", om.fn.loc())
    ctx.ob("record stored before the continuations are attached", len(cb) == 1 and bool(st) and g.always_preceded_by(cb[0][0], lambda x: x is st[0]),
           "continuations may run (and delete the record) before it is stored", om.fn.loc())
    dup = [n for n in nodes if n.kind == "test" and norm.atoms(n.ast, True, res) == [("in", "msg.request", ("e", "self._invocations"), True)]]
    ok = len(dup) == 1 and all(m.kind == "stmt" and isinstance(m.ast, ast.Raise) and "ProtocolError" in norm.text(m.ast.exc) for m, lab in dup[0].succ if lab and lab[0] == "T")
    ctx.ob("a second INVOCATION with a pending request id is a protocol violation", ok, "duplicate id check changed", om.fn.loc())
    unk = [n for n in nodes if n.kind == "test" and norm.atoms(n.ast, True, res) == [("in", "msg.registration", ("e", "self._registrations"), False)]]
    ok = len(unk) == 1 and all(m.kind == "stmt" and isinstance(m.ast, ast.Raise) and "ProtocolError" in norm.text(m.ast.exc) for m, lab in unk[0].succ if lab and lab[0] == "T")
    ctx.ob("INVOCATION for an unknown registration is a protocol violation", ok, "unknown registration check changed", om.fn.loc())
    # interrupt
    inodes = om.arm_nodes("Interrupt")
    canc = [(n, c) for n in inodes for c in node_calls(n) if call_name(c) == "txaio.cancel"]
    from .common import canon_text
    ok = len(canc) == 1 and len(canc[0][1].args) == 1 and canon_text(om.fn, canc[0][1].args[0]) == "self._invocations[msg.request].on_reply" and \
        ("in", "msg.request", ("e", "self._invocations"), True) in mf.at(canc[0][0])
    if not ok:
        # another spelling of the lookup: the arm is evaluated (sa.core.tiny) with the id pending / not pending
        from ..core.tiny import Tiny, Sym, OpenSym
        from .c11 import _arm_body
        try:
            got = {}
            for pending in (True, False):
                fut, other = Sym("pending-result"), Sym("other-result")
                cancelled = []
                tab = {101: OpenSym("other-invocation", on_reply=other)}
                if pending:
                    tab[100] = OpenSym("invocation", on_reply=fut)
                t = Tiny({"self": Sym("session"), "self._invocations": tab, "msg": OpenSym("interrupt", request=100), "self.log": Sym("log")},
                         default_call=lambda f_, a_, k_=None: (cancelled.append(a_[0]) if f_ == "txaio.cancel" and a_ else None) or Sym(f"<{f_}>"), opaque_globals=True, model_strings=True)
                r = t.run(_arm_body(om, "Interrupt"))
                got[pending] = (r[0] != "raise", [c_ is fut for c_ in cancelled], 100 in t.env["self._invocations"], 101 in t.env["self._invocations"])
            # ... and the invocation stays in the table: its terminal reply (the ERROR for the cancellation) is still to be sent by the continuation
            ok = got[True] == (True, [True], True, True) and got[False] == (True, [], False, True)
        except AnalysisError as e:
            raise AnalysisError(f"[C10.3-invocation-table] INTERRUPT arm outside the modelled subset: {e}")
    ctx.ob("INTERRUPT cancels the pending result of the invocation with the same id", ok, "interrupt handling changed", om.fn.loc())


def _arm_stmts(om, arm):
    for x in ast.walk(om.fn.node):
        if isinstance(x, ast.If) and isinstance(x.test, ast.Call) and norm.text(x.test.func) == "isinstance" and len(x.test.args) == 2 and norm.text(x.test.args[1]) == f"message.{arm}":
            return x.body
    return []


def rule_identity(ctx):
    ctx.rule("C10.4-reply-identity-and-arguments")
    om = get_onmessage(ctx)
    an = om.an
    count = 0
    for fn, g, mf, sel in om.funcs_of_arm("Invocation"):
        for c in calls_in(fn.node):
            nm = call_name(c)
            if nm == "message.Yield":
                count += 1
                ctx.ob(f"{fn.name}: {stmt_key(c)[:50]} carries msg.request", c.args and norm.text(c.args[0]) == "msg.request", "YIELD for another request id", fn.loc(c))
                prog = kwarg(c, "progress")
                if prog is not None:
                    ctx.ob(f"{fn.name}: progressive YIELD only from the progress callback", fn.name == "progress", "progress=True outside progress()", fn.loc(c))
                elif fn.name == "progress":
                    ctx.ob("progress(): YIELD marked progressive", False, "progress() sends a terminal YIELD", fn.loc(c))
            elif nm == "message.Error":
                count += 1
                ok = len(c.args) >= 2 and norm.text(c.args[0]) == "message.Invocation.MESSAGE_TYPE" and norm.text(c.args[1]) == "msg.request"
                ctx.ob(f"{fn.name}: {stmt_key(c)[:40]} is ERROR(INVOCATION, msg.request)", ok, "ERROR for another request", fn.loc(c))
            elif nm == "self._message_from_exception":
                count += 1
                ok = len(c.args) >= 2 and norm.text(c.args[0]) == "message.Invocation.MESSAGE_TYPE" and norm.text(c.args[1]) == "msg.request"
                ctx.ob(f"{fn.name}: {stmt_key(c)[:40]} is for (INVOCATION, msg.request)", ok, "ERROR for another request", fn.loc(c))
    ctx.require(count >= 8, f"only {count} reply constructions found in the Invocation arm")
    g, mf, res = om.g, om.mf, om.res
    nodes = om.arm_nodes("Invocation")
    pdef = [n for n in nodes if n.kind == "stmt" and isinstance(n.ast, ast.FunctionDef) and n.ast.name == "progress"]
    ok = len(pdef) == 1 and ("truth", "msg.receive_progress", None, True) in mf.at(pdef[0])
    ctx.ob("progress callback exists only when the caller asked for progressive results", ok, "progress() defined without msg.receive_progress", om.fn.loc())
    # "progressive results are sent only before the terminal reply": the callback handed to the endpoint outlives the invocation (the endpoint
    # may keep it).  Histories, evaluated in one shared environment of the arm's closures:
    #   (a) progress() while the endpoint is still running synchronously (the invocation is not even recorded as pending yet)  -> sent
    #   (b) progress() while the invocation is pending                                                                          -> sent
    #   (c) success(result) / error(failure), then progress()                                                                   -> NOT sent
    if pdef:
        from ..core.tiny import Tiny, Sym, TinyRaise
        pf = pdef[0].ast
        conts = {c.name: c for c in om.closures() if om.closure_arm(c)[0] == "Invocation" and c.name in ("success", "error") and c.parent is om.fn}
        ctx.require(set(conts) == {"success", "error"}, "Invocation arm: success/error continuations not found")
        # state shared by the closures: variables of the arm that progress() reads and that are initialised to an empty literal / constant
        free = {x.id for x in ast.walk(pf) if isinstance(x, ast.Name) and isinstance(x.ctx, ast.Load)}
        shared_init = {}
        for st_ in walk_no_defs(ast.Module(body=_arm_stmts(om, "Invocation"), type_ignores=[])):   # the arm's own statements: stores inside the closures are updates, not the initial value
            if isinstance(st_, ast.Assign) and len(st_.targets) == 1 and isinstance(st_.targets[0], ast.Name) and st_.targets[0].id in free and st_.targets[0].id not in shared_init:
                v_ = st_.value
                if (isinstance(v_, (ast.List, ast.Dict, ast.Set)) and not getattr(v_, "elts", getattr(v_, "keys", []))) or isinstance(v_, ast.Constant):
                    shared_init[st_.targets[0].id] = v_
        probs = []
        try:
            for history in ("sync", "pending", "after success", "after error", "after success (reply not serializable, fallback ERROR sent)",
                            "after error (reply not serializable, fallback ERROR sent)"):
                sent = []
                attempts = []

                def default(f_, a_, k_=None, _fallback="fallback" in history):
                    if f_ == "self._transport.send":
                        attempts.append(a_[0])
                        if _fallback and len(attempts) == 1:
                            raise TinyRaise("SerializationError")
                        sent.append(a_[0])
                        return None
                    if f_ == "message.Yield":
                        return Sym("YIELD", request=a_[0] if a_ else None, progress=(k_ or {}).get("progress"))
                    if f_ in ("message.Error", "self._message_from_exception"):
                        return Sym("ERROR")
                    if f_ == "isinstance":
                        return False
                    if f_ == "type":
                        return "list" if isinstance(a_[0], list) else "dict"
                    return Sym(f"<{f_}>")
                va = pf.args.vararg.arg if pf.args.vararg else "args"
                vk = pf.args.kwarg.arg if pf.args.kwarg else "kwargs"
                env = {"self": Sym("session", traceback_app=False), "msg.request": 100, "msg.enc_algo": None, "self._payload_codec": None, "self._transport": Sym("transport"),
                       "self._invocations": ({} if history == "sync" else {100: Sym("pending-invocation")}), "tuple": "tuple", "list": "list", "dict": "dict", "proc": "com.proc",
                       "registration.procedure": "com.proc", "self.traceback_app": False, "message.Invocation.MESSAGE_TYPE": 68}
                t = Tiny(env, default_call=default, opaque_globals=True)
                for nm_, init_ in shared_init.items():
                    t.env[nm_] = t.ev(init_)
                if history.startswith("after"):
                    c_ = conts[history.split()[1]]
                    t.env[c_.params()[0]] = Sym("result-or-failure", value=Sym("exception"))
                    # scoping: a name the continuation assigns without declaring it `nonlocal` is its own local -- the shared variable keeps its value
                    declared = {n_ for x in ast.walk(c_.node) if isinstance(x, ast.Nonlocal) for n_ in x.names}
                    own = {x.id for x in walk_no_defs(c_.node) if isinstance(x, ast.Name) and isinstance(x.ctx, ast.Store)} - declared
                    keep = {n_: t.env[n_] for n_ in own if n_ in shared_init and n_ in t.env}
                    r0 = t.run([x for x in c_.node.body if not (isinstance(x, ast.Expr) and isinstance(x.value, ast.Constant))])
                    t.env.update(keep)
                    if r0[0] == "raise" or len(sent) != 1:
                        probs.append(f"{history}: the continuation itself gives {r0[0]} {str(r0[1])[:40]} and sends {len(sent)} message(s)")
                        continue
                    del sent[:]
                t.env[va], t.env[vk] = [Sym("partial")], {}
                r = t.run([x for x in pf.body if not (isinstance(x, ast.Expr) and isinstance(x.value, ast.Constant))])
                ok_sent = len(sent) == 1 and isinstance(sent[0], Sym) and sent[0].name == "YIELD" and sent[0].attrs.get("request") == 100 and sent[0].attrs.get("progress") is True
                if history in ("sync", "pending") and (r[0] == "raise" or not ok_sent):
                    probs.append(f"progress() {'while the endpoint is still running synchronously' if history == 'sync' else 'while the invocation is pending'}: "
                                 f"{r[0]} {str(r[1])[:40]}, sent {sent}; expected one YIELD(progress=True) for the request")
                elif history.startswith("after") and sent:
                    probs.append(f"progress() {history}(): a progressive YIELD is sent after the terminal reply of the invocation")
            ctx.ob("progress(): a progressive result is sent while the endpoint runs or the invocation is pending, never after the terminal reply [6 histories]",
                   not probs, "; ".join(probs[:2]), om.fn.loc(pf))
        except AnalysisError as e:
            raise AnalysisError(f"[C10.4-reply-identity-and-arguments] progress() outside the modelled subset: {e}")
    pn = [n for n in nodes if n.kind == "stmt" and isinstance(n.ast, ast.Assign) and norm.text(n.ast.targets[0]) == "progress"]
    ctx.ob("otherwise progress is None", len(pn) == 1 and norm.text(pn[0].ast.value) == "None" and ("truth", "msg.receive_progress", None, False) in mf.at(pn[0]), "changed", om.fn.loc())
    call = [(n, c) for n in nodes for c in node_calls(n) if call_name(c) == "txaio.as_future" and c.args and norm.text(c.args[0]) == "endpoint.fn"]
    ctx.require(len(call) == 1, "Invocation arm: the endpoint call txaio.as_future(endpoint.fn, ...) not found")
    ec = call[0][1]
    star = [a for a in ec.args[1:] if isinstance(a, ast.Starred)]
    dstar = [k for k in ec.keywords if k.arg is None]
    ok = len(ec.args) == 2 and len(star) == 1 and isinstance(star[0].value, ast.Name) and len(dstar) == 1 and isinstance(dstar[0].value, ast.Name) and len(ec.keywords) == 1
    ctx.ob("endpoint invoked with (*<positional>, **<keywords>) only", ok, "endpoint call changed", om.fn.loc(ec))
    if ok:
        A, K = star[0].value.id, dstar[0].value.id
        # what the endpoint receives, cell by cell over (bound object, caller args, caller kwargs) -- names and spelling are irrelevant
        from ..core.tiny import Tiny, Sym

        def block_of(root, target):
            for x in ast.walk(root):
                for fld in ("body", "orelse", "finalbody"):
                    blk = getattr(x, fld, None)
                    if isinstance(blk, list) and any(any(y is target for y in ast.walk(st_)) and not isinstance(st_, (ast.If, ast.For, ast.While, ast.Try, ast.With, ast.FunctionDef))
                                                     for st_ in blk):
                        return blk
            return None
        blk = block_of(om.fn.node, ec)
        ctx.require(blk is not None, "Invocation arm: statement block of the endpoint call not found")
        upto = [i for i, st_ in enumerate(blk) if any(y is ec for y in ast.walk(st_))][0]

        def writes(st_):
            return any(isinstance(y, ast.Name) and y.id in (A, K) and isinstance(y.ctx, ast.Store) for y in ast.walk(st_)) or \
                any(isinstance(y, ast.Subscript) and isinstance(y.ctx, ast.Store) and norm.text(y.value) in (A, K) for y in ast.walk(st_))
        prep = [st_ for st_ in blk[:upto] if writes(st_)]
        # ... plus (backward slice) the plain assignments of the block that define locals these statements read (`bound_to = endpoint.obj`)
        changed = True
        while changed:
            changed = False
            need = {y.id for st_ in prep for y in ast.walk(st_) if isinstance(y, ast.Name) and isinstance(y.ctx, ast.Load)}
            for st_ in blk[:upto]:
                # a plain assignment, or an if/else of plain assignments (a conditional expression in canonical form), that defines a needed local
                # without calling anything but the tuple / list / dict constructors
                stores_ = {y.id for y in ast.walk(st_) if isinstance(y, ast.Name) and isinstance(y.ctx, ast.Store)}
                plain_ = isinstance(st_, ast.Assign) or (isinstance(st_, ast.If) and all(isinstance(z, ast.Assign) for z in st_.body + st_.orelse))
                calls_ = [y for y in ast.walk(st_) if isinstance(y, ast.Call)]
                if st_ not in prep and plain_ and stores_ & need and all(isinstance(c_.func, ast.Name) and c_.func.id in ("tuple", "list", "dict") for c_ in calls_) \
                        and not any(isinstance(y, (ast.Attribute, ast.Subscript)) and isinstance(y.ctx, ast.Store) for y in ast.walk(st_)):
                    prep.append(st_)
                    changed = True
        prep.sort(key=lambda st_: blk.index(st_))
        problems = []
        try:
            for obj in (None, Sym("obj"), Sym("obj", truthy=False)):
                for args in (None, [], [Sym("a0")], [Sym("a0"), Sym("a1", truthy=False)]):
                    for kw in (None, {}, {"k": Sym("v")}):
                        t = Tiny({"endpoint.obj": obj, "msg.args": args, "msg.kwargs": kw, "endpoint.details_arg": None, "msg.receive_progress": False})
                        t.run(prep)
                        want_a = ([obj] if obj is not None else []) + list(args or [])
                        want_k = dict(kw or {})
                        got_a, got_k = t.env.get(A), t.env.get(K)
                        if not (isinstance(got_a, list) and len(got_a) == len(want_a) and all(x is y for x, y in zip(got_a, want_a))):
                            problems.append(f"bound object {obj}, caller args {args}: endpoint gets positional {got_a}, expected {want_a}")
                        if not (isinstance(got_k, dict) and got_k == want_k):
                            problems.append(f"caller kwargs {kw}: endpoint gets keywords {got_k}, expected {want_k}")
            ctx.ob("the endpoint receives (bound object if any) + exactly the caller's args, and exactly the caller's kwargs [36 cells]", not problems,
                   "; ".join(problems[:2]), om.fn.loc(ec))
        except AnalysisError as e:
            raise AnalysisError(f"[C10.4-reply-identity-and-arguments] argument preparation outside the modelled subset: {e}")
    else:
        K = "invoke_kwargs"
    det = [n for n in nodes if n.kind == "stmt" and isinstance(n.ast, ast.Assign) and norm.text(n.ast.targets[0]) == f"{K}[endpoint.details_arg]"]
    ctx.ob("call details only when the endpoint asked for them", len(det) == 1 and ("truth", "endpoint.details_arg", None, True) in mf.at(det[0]), "details injected unconditionally", om.fn.loc())
    ee = [n for n in nodes if any(norm.text(c.func) == "self._message_from_exception" for c in node_calls(n))]
    ctx.ob("undecryptable INVOCATION answered with an ERROR, endpoint not called",
           len(ee) == 1 and ("truth", "enc_err", None, True) in mf.at(ee[0]) and bool(call) and ("truth", "enc_err", None, False) in mf.at(call[0][0]), "changed", om.fn.loc())


def run(ctx):
    rule_send_classification(ctx)
    rule_fallback(ctx)
    rule_table(ctx)
    rule_identity(ctx)
    from .common import rule_decorated_object
    rule_decorated_object(ctx, "C10.5-decorated-object-endpoints", "register", "_register", "is_endpoint", False)
    # "a result exceeding the transport's size limit gets an ERROR": the limit the RawSocket send cells compare with is the one the peer announced --
    # it has to be recorded from the handshake in every role and framework (rule shared with C13.1)
    from .c13 import rule_handshake_tables
    rule_handshake_tables(ctx, "C10.6-peer-limit-recorded-from-the-handshake")
