"""C18 - Remote exceptions arrive with their URI, arguments and class."""
import ast

from ..core.index import AnalysisError, walk_no_defs, calls_in, call_name, kwarg
from ..core.cfg import node_calls
from ..core import norm
from .common import get_analysis, is_self_attr, self_call, stmt_key, APPSESSION, BASESESSION
from .wampsess import get_onmessage

META = {
    "explanation": "Flow rules over _message_from_exception / _exception_from_message / define: URI chosen by the three-way decision "
                   "(ApplicationError -> exc.error; registered class -> first pattern's URI; else wamp.error.runtime_error), args = "
                   "list(exc.args), kwargs = exc.kwargs reach the ERROR constructor (or the payload codec) unchanged; every construction "
                   "of a registered exception class sits in a try whose handler catches Exception and neither re-raises nor returns, after "
                   "which a generic ApplicationError(msg.error, *args, **kwargs) is built under nullness-correct guards; the function "
                   "returns an exception object on every path; the two registries are written together; the ERROR arm rejects the pending "
                   "call with that object.",
    "assumptions": ["equality of arbitrary args/kwargs after a serializer round trip and the behaviour of user exception constructors are runtime values"],
}


def rule_to_error(ctx):
    ctx.rule("C18.1-exception-to-error")
    an = get_analysis(ctx)
    fn = ctx.program.func(f"{BASESESSION}._message_from_exception")
    ctx.analysed(fn)
    g, mf, res = an.get(fn)
    errs = [(n, norm.text(n.ast.value)) for n in g.stmt_nodes() if n.kind == "stmt" and isinstance(n.ast, ast.Assign) and norm.text(n.ast.targets[0]) == "error"]
    ctx.ob("three ways to choose the error URI", len(errs) == 3, f"{len(errs)} assignments to `error`", fn.loc())
    for n, v in errs:
        f = mf.at(n)
        if ("isinst", "exc", "exception.ApplicationError", True) in f:
            ctx.ob("ApplicationError keeps its own URI", "exc.error" in v, f"error = {v}", fn.loc(n.ast))
        elif ("in", "exc.__class__", ("e", "self._ecls_to_uri_pat"), True) in f:
            ctx.ob("registered class maps to the URI of its first pattern", v == "self._ecls_to_uri_pat[exc.__class__][0]._uri", f"error = {v}", fn.loc(n.ast))
        else:
            ok = ("isinst", "exc", "exception.ApplicationError", False) in f and ("in", "exc.__class__", ("e", "self._ecls_to_uri_pat"), False) in f
            ctx.ob("unregistered class maps to wamp.error.runtime_error", ok and v.strip("'\"") == "wamp.error.runtime_error", f"error = {v}", fn.loc(n.ast))
    a = [norm.text(n.ast.value) for n in g.stmt_nodes() if n.kind == "stmt" and isinstance(n.ast, ast.Assign) and norm.text(n.ast.targets[0]) == "args"]
    k = [norm.text(n.ast.value) for n in g.stmt_nodes() if n.kind == "stmt" and isinstance(n.ast, ast.Assign) and norm.text(n.ast.targets[0]) == "kwargs"]
    ctx.ob("args = list(exc.args)", sorted(a) == sorted(["None", "list(exc.args)"]), f"{a}", fn.loc())
    ctx.ob("kwargs = exc.kwargs (+ optional traceback)", "exc.kwargs" in k and all(x in ("None", "exc.kwargs", "{'traceback': tb}") for x in k), f"{k}", fn.loc())
    ctors = [c for c in calls_in(fn.node) if call_name(c) == "message.Error"]
    ctx.require(len(ctors) == 2, "_message_from_exception: expected clear and encoded ERROR constructions")
    for c in ctors:
        ok = [norm.text(x) for x in c.args[:3]] == ["request_type", "request", "error"]
        ctx.ob(f"ERROR carries (request_type, request, error) [{'encoded' if kwarg(c, 'payload') is not None else 'clear'}]", ok, norm.text(c)[:60], fn.loc(c))
        if kwarg(c, "payload") is None:
            ctx.ob("clear ERROR carries args and kwargs", [norm.text(x) for x in c.args[3:5]] == ["args", "kwargs"], norm.text(c)[:70], fn.loc(c))
    enc = [c for c in calls_in(fn.node) if norm.text(c.func) == "self._payload_codec.encode"]
    ctx.ob("encoded ERROR encrypts (error, args, kwargs)", len(enc) == 1 and [norm.text(x) for x in enc[0].args[1:]] == ["error", "args", "kwargs"], "encode arguments changed", fn.loc())


def rule_from_error(ctx):
    ctx.rule("C18.2-error-to-exception-never-lost")
    an = get_analysis(ctx)
    fn = ctx.program.func(f"{BASESESSION}._exception_from_message")
    ctx.analysed(fn)
    g, mf, res = an.get(fn)
    ctor = [(n, c) for n in g.stmt_nodes() for c in node_calls(n) if isinstance(c.func, ast.Name) and c.func.id == "ecls"]
    ctx.require(len(ctor) == 4, f"expected 4 ecls(...) constructions, found {len(ctor)}")
    for n, c in ctor:
        hs = [m for m, lab in n.succ if lab and lab[0] == "exc"]
        ok = bool(hs) and any(h.ast.type is not None and norm.text(h.ast.type) in ("Exception", "BaseException") or h.ast.type is None for h in hs)
        ctx.ob(f"`{stmt_key(c)}` is inside try/except Exception", ok, "a failing exception constructor would lose the error", fn.loc(c))
        for h in hs:
            bad = [x for b in h.ast.body for x in ast.walk(b) if isinstance(x, (ast.Raise, ast.Return))]
            inner_ok = all(any(x is y for t in ast.walk(h.ast) if isinstance(t, ast.Try) for hh in t.handlers for y in ast.walk(hh)) or
                           any(x is y for t in ast.walk(h.ast) if isinstance(t, ast.Try) for b2 in t.body for y in ast.walk(b2)) for x in bad)
            ctx.ob(f"handler of `{stmt_key(c)}` neither re-raises nor returns", not bad or inner_ok, "handler leaves the function", fn.loc(h.ast))
        # unpacking guarded
        for a in c.args:
            if isinstance(a, ast.Starred):
                ctx.ob(f"`{stmt_key(c)}`: *msg.args only when set", ("truth", "msg.args", None, True) in mf.at(n), "unguarded *msg.args", fn.loc(c))
        for kw in c.keywords:
            if kw.arg is None:
                ctx.ob(f"`{stmt_key(c)}`: **msg.kwargs only when set", ("truth", "msg.kwargs", None, True) in mf.at(n), "unguarded **msg.kwargs", fn.loc(c))
    look = [n for n in g.stmt_nodes() if n.kind == "stmt" and isinstance(n.ast, ast.Assign) and norm.text(n.ast.targets[0]) == "ecls"]
    ok = len(look) == 1 and norm.text(look[0].ast.value) == "self._uri_to_ecls[msg.error]" and ("in", "msg.error", ("e", "self._uri_to_ecls"), True) in mf.at(look[0])
    ctx.ob("registered class looked up by the message's error URI", ok, "lookup changed", fn.loc())
    gen = [(n, c) for n in g.stmt_nodes() for c in node_calls(n) if call_name(c) == "exception.ApplicationError"]
    ctx.ob("generic fallback has all four args/kwargs shapes", len(gen) == 4, f"{len(gen)} shapes", fn.loc())
    for n, c in gen:
        f = mf.at(n)
        ctx.ob(f"fallback `{stmt_key(c)[:60]}` only when no exception object exists yet", ("truth", "exc", None, False) in f, "fallback overrides a constructed exception", fn.loc(c))
        ctx.ob(f"fallback `{stmt_key(c)[:60]}` carries the error URI first", c.args and norm.text(c.args[0]) == "msg.error", "URI not passed", fn.loc(c))
        star = any(isinstance(a, ast.Starred) for a in c.args)
        dstar = any(kw.arg is None for kw in c.keywords)
        a_known = norm.is_truthy_known(f, "msg.args")
        k_known = norm.is_truthy_known(f, "msg.kwargs")
        ctx.ob(f"fallback `{stmt_key(c)[:60]}` passes args iff present and kwargs iff present", a_known is star and k_known is dstar,
               f"*args={star} under msg.args={a_known}; **kwargs={dstar} under msg.kwargs={k_known}", fn.loc(c))
    rets = [n for n in g.stmt_nodes() if n.kind == "stmt" and isinstance(n.ast, ast.Return)]
    ok = bool(rets) and all(n.ast.value is not None and norm.text(n.ast.value) in ("exc", "enc_err") for n in rets) and not g.path_exists(g.entry, g.exit, avoid=lambda x: x in rets)
    ctx.ob("every path returns an exception object", ok, "a path falls off the end or returns something else", fn.loc())
    final = [n for n in rets if norm.text(n.ast.value) == "exc"]
    fb = [n for n in g.stmt_nodes() if n.kind == "test" and norm.atoms(n.ast, True, res) == [("truth", "exc", None, False)]]
    ctx.ob("the fallback test dominates the final return", len(final) == 1 and len(fb) == 1 and g.always_preceded_by(final[0], lambda x: x is fb[0]), "fallback can be skipped", fn.loc())


def rule_registries(ctx):
    ctx.rule("C18.3-registries-written-together")
    an = get_analysis(ctx)
    fn = ctx.program.func(f"{BASESESSION}.define")
    ctx.analysed(fn)
    g, mf, res = an.get(fn)
    a = [n for n in g.stmt_nodes() if n.kind == "stmt" and isinstance(n.ast, ast.Assign) and norm.text(n.ast.targets[0]) == "self._ecls_to_uri_pat[exception]"]
    b = [n for n in g.stmt_nodes() if n.kind == "stmt" and isinstance(n.ast, ast.Assign) and norm.text(n.ast.targets[0]).startswith("self._uri_to_ecls[")]
    ctx.ob("define() has a decorated and an explicit-URI branch", len(a) == 2 and len(b) == 2, f"{len(a)}/{len(b)} stores", fn.loc())
    for x in a:
        pair = [y for y in b if g.path_exists(x, y) and not any(z is not x and g.path_exists(x, z) and g.path_exists(z, y) for z in a)]
        ctx.ob(f"class->URI store `{stmt_key(x.ast)[:50]}` is followed by the URI->class store", len(pair) == 1 and g.always_followed_by(x, lambda n: n in pair), "registries written asymmetrically", fn.loc(x.ast))
        if pair:
            y = pair[0]
            ctx.ob(f"`{stmt_key(y.ast)[:50]}` maps to the same class", norm.text(y.ast.value) == "exception", "different class stored", fn.loc(y.ast))
            key = norm.text(y.ast.targets[0].slice)
            val = norm.text(x.ast.value)
            ok = (key == "error" and "uri.Pattern(error" in val) or (key == "exception._wampuris[0].uri()" and val == "exception._wampuris")
            ctx.ob(f"`{stmt_key(y.ast)[:50]}` is keyed by the URI of the pattern stored for the class", ok, f"key {key} vs patterns {val}", fn.loc(y.ast))
    init = ctx.program.func(f"{BASESESSION}.__init__")
    ctx.ob("registries are per session", sum(1 for s in walk_no_defs(init.node) if isinstance(s, (ast.Assign, ast.AnnAssign)) and
                                             norm.text(s.targets[0] if isinstance(s, ast.Assign) else s.target) in ("self._ecls_to_uri_pat", "self._uri_to_ecls")) == 2, "changed", init.loc())


def rule_caller_side(ctx):
    ctx.rule("C18.4-caller-side")
    om = get_onmessage(ctx)
    nodes = om.arm_nodes("Error")
    rej = [(n, c) for n in nodes for c in node_calls(n) if call_name(c) == "txaio.reject"]
    ok = len(rej) == 1 and norm.text(rej[0][1].args[1]) == "self._exception_from_message(msg)"
    ctx.ob("ERROR arm rejects the pending call with the exception built from the message", ok, "changed", om.fn.loc())
    err = [c for c in om.closures() if c.name == "error" and om.closure_arm(c)[0] == "Invocation"]
    ctx.require(len(err) == 1, "Invocation arm: error continuation not found")
    mk = [c for c in calls_in(err[0].node) if norm.text(c.func) == "self._message_from_exception"]
    ok = len(mk) == 1 and [norm.text(a) for a in mk[0].args[:3]] == ["message.Invocation.MESSAGE_TYPE", "msg.request", "err.value"]
    ctx.ob("callee side builds the ERROR from the raised exception object", ok, "changed", err[0].loc())


def run(ctx):
    rule_to_error(ctx)
    rule_from_error(ctx)
    rule_registries(ctx)
    rule_caller_side(ctx)
