"""C18 - Remote exceptions arrive with their URI, arguments and class."""
import ast

from ..core.index import AnalysisError, walk_no_defs, calls_in, call_name, kwarg
from ..core.cfg import node_calls
from ..core import norm
from .common import get_analysis, is_self_attr, self_call, stmt_key, APPSESSION, BASESESSION
from .wampsess import get_onmessage

META = {
    "explanation": "Flow rules over _message_from_exception / _exception_from_message / define: URI chosen by the three-way decision "
                   "(ApplicationError -> exc.error; registered class -> first pattern's URI; else wamp.error.runtime_error), args = "
                   "list(exc.args), kwargs = exc.kwargs reach the ERROR constructor (or the payload codec) unchanged; every construction "
                   "of a registered exception class sits in a try whose handler catches Exception and neither re-raises nor returns, after "
                   "which a generic ApplicationError(msg.error, *args, **kwargs) is built under nullness-correct guards; the function "
                   "returns an exception object on every path; the two registries are written together; the ERROR arm rejects the pending "
                   "call with that object.",
    "assumptions": ["equality of arbitrary args/kwargs after a serializer round trip and the behaviour of user exception constructors are runtime values"],
}


def rule_to_error(ctx):
    """Callee side, cell-wise over (kind of exception, its args, its kwargs, traceback forwarding): the ERROR carries the right URI, the
    exception's args as a list and its kwargs (+ the traceback when forwarding is on)."""
    from ..core.tiny import Tiny, Sym
    import itertools
    ctx.rule("C18.1-exception-to-error")
    fn = ctx.program.func(f"{BASESESSION}._message_from_exception")
    ctx.analysed(fn)
    body = [x for x in fn.node.body if not (isinstance(x, ast.Expr) and isinstance(x.value, ast.Constant))]
    prm = fn.params()
    probs = []
    cells = 0
    try:
        for kind, args, kw, tb in itertools.product(("app", "registered", "registered-subclass", "unregistered", "unregistered-subclass"),
                                                    ((), (Sym("a0"),), (Sym("a0"), Sym("a1"))), (None, {}, {"k": Sym("v")}), (None, ["frame"])):
            cells += 1
            cls = Sym(f"class-{kind}")
            base = Sym("registered-base-class")
            mro = [cls] + ([base] if kind.endswith("subclass") else [])
            attrs = {"args": list(args), "__class__": cls}
            if kw is not None or kind == "app":
                attrs["kwargs"] = dict(kw or {})
            if kind == "app":
                attrs["error"] = "com.app.error"
            exc = Sym("exception", **attrs)
            kw_before = dict(attrs.get("kwargs", {}))
            made = []

            def default(f_, a_, k_=None):
                if f_ == "hasattr":
                    return isinstance(a_[0], Sym) and a_[1] in a_[0].attrs
                if f_ == "isinstance":
                    # exception.Error is the base of ApplicationError; the other exception kinds of the grid are plain Exception subclasses
                    if a_[0] is exc and isinstance(a_[1], Sym) and a_[1].name in ("ApplicationError", "Error"):
                        return kind == "app"
                    return a_[0] is exc and a_[1] in mro
                if f_ == "type":
                    return "str" if isinstance(a_[0], str) else (cls if a_[0] is exc else "other")
                if f_ == "message.Error":
                    m = Sym("ERROR", args=list(a_), kwargs=dict(k_ or {}))
                    made.append(m)
                    return m
                return Sym(f"<{f_}>")
            # registration order: a base class first, then (when registered) the class itself
            table = {}
            if kind.endswith("subclass"):
                table[base] = [Sym("pattern", _uri="com.base.error")]
            if kind.startswith("registered"):
                table[cls] = [Sym("pattern", _uri="com.registered.error")]
            table[Sym("other-class")] = [Sym("pattern", _uri="com.other")]
            env = {prm[1]: 68, prm[2]: 4711, prm[3]: exc, prm[4]: tb, "self": Sym("session"), "self._ecls_to_uri_pat": table, "self._payload_codec": None, "str": "str",
                   "exception.ApplicationError": Sym("ApplicationError"), "exception.Error": Sym("Error")}
            if len(prm) > 5:
                env[prm[5]] = None
            t = Tiny(env, default_call=default)
            r = t.run(body)
            cell = f"{kind} exception, args {list(args)}, kwargs {kw}, traceback {'on' if tb else 'off'}"
            if r[0] != "return" or not (isinstance(r[1], Sym) and r[1].name == "ERROR"):
                probs.append(f"{cell}: no ERROR built ({r[0]} {r[1]})")
                continue
            a = r[1].attrs["args"] + [None] * 5
            want_uri = {"app": "com.app.error", "registered": "com.registered.error", "registered-subclass": "com.registered.error",
                        "unregistered": "wamp.error.runtime_error", "unregistered-subclass": "wamp.error.runtime_error"}[kind]
            if a[0] != 68 or a[1] != 4711:
                probs.append(f"{cell}: ERROR is for ({a[0]}, {a[1]}), expected the given request type and id")
            if a[2] != want_uri:
                probs.append(f"{cell}: error URI {a[2]!r}, expected {want_uri!r}")
            if not (isinstance(a[3], list) and len(a[3]) == len(args) and all(x is y for x, y in zip(a[3], args))):
                probs.append(f"{cell}: ERROR args {a[3]}, expected {list(args)}")
            want_kw = dict(kw_before)
            if tb:
                want_kw["traceback"] = tb
            got_kw = a[4] if a[4] is not None else {}
            if got_kw != want_kw:
                probs.append(f"{cell}: ERROR kwargs {a[4]}, expected {want_kw or None}")
        ctx.ob(f"_message_from_exception: URI by the three-way rule, args = list(exc.args), kwargs = exc.kwargs (+ traceback when forwarded) [{cells} cells]",
               not probs, "; ".join(sorted(set(probs))[:2]), fn.loc())
    except AnalysisError as e:
        raise AnalysisError(f"[C18.1-exception-to-error] _message_from_exception outside the modelled subset: {e}")


def rule_from_error(ctx, rule_id="C18.2-error-to-exception-never-lost"):
    """Caller side, cell-wise over (URI registered or not, args, kwargs, what the registered constructor does): an exception object is always
    returned -- the registered class when its constructor accepts the payload, else the generic ApplicationError with URI, args, kwargs."""
    from ..core.tiny import Tiny, Sym, TinyRaise
    import itertools
    ctx.rule(rule_id)
    fn = ctx.program.func(f"{BASESESSION}._exception_from_message")
    ctx.analysed(fn)
    body = [x for x in fn.node.body if not (isinstance(x, ast.Expr) and isinstance(x.value, ast.Constant))]
    probs = []
    cells = 0
    try:
        # parameters of the generic constructor that a keyword of the same name would collide with (positional-or-keyword ones)
        ae = ctx.program.cls("autobahn.wamp.exception.ApplicationError").methods["__init__"]
        collide = {x.arg for x in ae.node.args.args}
        for registered, args, kw, ctor, hook in itertools.product((True, False), (None, [], [Sym("a0")]), (None, {}, {"k": Sym("v")}, {"error": Sym("v")}, {"self": Sym("v")}),
                                                                  ("ok", "ok-falsy", "TypeError", "ValueError", "KeyError", "RuntimeError"), ("returns", "raises")):
            if not registered and ctor != "ok":
                continue
            if hook == "raises" and (ctor in ("ok", "ok-falsy") or args is None or kw not in (None, {"k": kw and kw.get("k")})):
                continue  # the application's onUserError override matters only when it is called (constructor failed); one payload shape suffices
            cells += 1
            built = []

            def construct(*a, **k):
                if ctor not in ("ok", "ok-falsy"):
                    raise TinyRaise(ctor)
                o = Sym("user-exception", truthy=(ctor == "ok"), args=list(a), kwargs=dict(k))  # instances may be falsy (__len__ / __bool__)
                built.append(o)
                return o
            ecls = Sym("registered-class", methods={"__call__": construct})

            def default(f_, a_, k_=None):
                if f_ == "exception.ApplicationError":
                    if set(k_ or {}) & collide:
                        raise TinyRaise("TypeError")  # got multiple values for argument ...
                    return Sym("ApplicationError", args=list(a_), kwargs=dict(k_ or {}))
                if f_ == "self.onUserError" and hook == "raises":
                    raise TinyRaise("RuntimeError")  # an application override that re-raises ("strict" sessions)
                return Sym(f"<{f_}>")
            msg = fn.params()[1]
            env = {f"{msg}.enc_algo": None, f"{msg}.error": "com.err", f"{msg}.args": args, f"{msg}.kwargs": kw, "self": Sym("session"),
                   "self._uri_to_ecls": ({"com.err": ecls} if registered else {"com.other": ecls}), "self._payload_codec": None,
                   f"{msg}.callee": None, f"{msg}.callee_authid": None, f"{msg}.callee_authrole": None, f"{msg}.forward_for": None}
            # the fallback class also as a VALUE (handed to a helper that calls it): the same answer as the call by name
            env["exception.ApplicationError"] = Sym("class ApplicationError", methods={"__call__": (lambda *a_, **k_: default("exception.ApplicationError", list(a_), k_))})
            t = Tiny(env, default_call=default)
            r = t.run(body)
            cell = (f"error URI {'registered' if registered else 'not registered'}, args {args}, kwargs {kw}, constructor "
                    f"{'accepts' if ctor == 'ok' else ('accepts (instances are falsy)' if ctor == 'ok-falsy' else 'raises ' + ctor)}"
                    f"{', onUserError override raises' if hook == 'raises' else ''}")
            if r[0] != "return" or not isinstance(r[1], Sym):
                probs.append(f"{cell}: no exception object is returned ({r[0]} {r[1]}): the remote error is lost, the pending call never fails")
                continue
            o = r[1]
            wa, wk = list(args or []), dict(kw or {})
            if registered and ctor in ("ok", "ok-falsy"):
                if not (o.name == "user-exception" and o.attrs["args"] == wa and o.attrs["kwargs"] == wk):
                    probs.append(f"{cell}: returns {o} with {o.attrs.get('args')}, {o.attrs.get('kwargs')}, expected the registered class built from the payload")
            else:
                if not (o.name == "ApplicationError" and o.attrs["args"] == ["com.err"] + wa and o.attrs["kwargs"] == wk):
                    probs.append(f"{cell}: returns {o} with {o.attrs.get('args')}, {o.attrs.get('kwargs')}, expected ApplicationError('com.err', *args, **kwargs)")
        ctx.ob(f"_exception_from_message: always returns an exception -- the registered class if its constructor takes the payload, else ApplicationError(URI, *args, **kwargs) "
               f"[{cells} cells]", not probs, "; ".join(sorted(set(probs))[:2]), fn.loc())
    except AnalysisError as e:
        raise AnalysisError(f"[{rule_id}] _exception_from_message outside the modelled subset: {e}")


def rule_registries(ctx):
    ctx.rule("C18.3-registries-written-together")
    an = get_analysis(ctx)
    fn = ctx.program.func(f"{BASESESSION}.define")
    ctx.analysed(fn)
    g, mf, res = an.get(fn)
    a = [n for n in g.stmt_nodes() if n.kind == "stmt" and isinstance(n.ast, ast.Assign) and norm.text(n.ast.targets[0]) == "self._ecls_to_uri_pat[exception]"]
    b = [n for n in g.stmt_nodes() if n.kind == "stmt" and isinstance(n.ast, ast.Assign) and norm.text(n.ast.targets[0]).startswith("self._uri_to_ecls[")]
    ctx.ob("define() has a decorated and an explicit-URI branch", len(a) == 2 and len(b) == 2, f"{len(a)}/{len(b)} stores", fn.loc())
    for x in a:
        pair = [y for y in b if g.path_exists(x, y) and not any(z is not x and g.path_exists(x, z) and g.path_exists(z, y) for z in a)]
        ctx.ob(f"class->URI store `{stmt_key(x.ast)[:50]}` is followed by the URI->class store", len(pair) == 1 and g.always_followed_by(x, lambda n: n in pair), "registries written asymmetrically", fn.loc(x.ast))
        if pair:
            y = pair[0]
            ctx.ob(f"`{stmt_key(y.ast)[:50]}` maps to the same class", norm.text(y.ast.value) == "exception", "different class stored", fn.loc(y.ast))
            key = norm.text(y.ast.targets[0].slice)
            val = norm.text(x.ast.value)
            ok = (key == "error" and "uri.Pattern(error" in val) or (key == "exception._wampuris[0].uri()" and val == "exception._wampuris")
            ctx.ob(f"`{stmt_key(y.ast)[:50]}` is keyed by the URI of the pattern stored for the class", ok, f"key {key} vs patterns {val}", fn.loc(y.ast))
    # the @error decorator: the URI list it fills is the decorated class's own -- cell-wise over a class that has no list, one that has its
    # own list, and one that only inherits the list of a decorated base class
    from ..core.tiny import Tiny, Sym
    dec = ctx.program.func("autobahn.wamp.uri.error")
    inner = [c for c in dec.nested_list() if c.parent is dec]
    ctx.require(len(inner) == 1, "uri.error: inner decorator function not found")
    df = inner[0]
    ctx.analysed(df)
    probs = []
    try:
        for kind in ("plain class", "class with its own list", "subclass of a decorated class"):
            base_list = [Sym("pattern-of-the-base-class")]
            own_list = [Sym("earlier-pattern-of-this-class")]
            cls = Sym("exception-class")
            cls.attrs["__dict__"] = {}
            if kind == "class with its own list":
                cls.attrs["_wampuris"] = own_list
                cls.attrs["__dict__"]["_wampuris"] = own_list
            elif kind == "subclass of a decorated class":
                cls.attrs["_wampuris"] = base_list  # visible through inheritance, not in the class's own __dict__

            def default(f_, a_, k_=None):
                if f_ == "hasattr" and len(a_) == 2:
                    return a_[1] in a_[0].attrs if isinstance(a_[0], Sym) else False
                if f_ == "getattr" and len(a_) >= 2 and isinstance(a_[0], Sym):
                    return a_[0].attrs.get(a_[1], a_[2] if len(a_) > 2 else None)
                if f_ == "issubclass":
                    return True
                if f_ == "vars" and len(a_) == 1 and isinstance(a_[0], Sym):
                    return a_[0].attrs["__dict__"]
                if f_.endswith("Pattern"):
                    return Sym("new-pattern", uri=a_[0] if a_ else None)
                return Sym(f"<{f_}>")
            t = Tiny({df.params()[0]: cls, dec.params()[0]: "com.new", "Pattern.URI_TARGET_EXCEPTION": 3}, default_call=default, opaque_globals=True)
            r = t.run([x for x in df.node.body if not (isinstance(x, ast.Expr) and isinstance(x.value, ast.Constant))])
            lst = cls.attrs.get("_wampuris")
            newp = [x for x in (lst or []) if isinstance(x, Sym) and x.name == "new-pattern"]
            if r[0] != "return" or r[1] is not cls or len(newp) != 1:
                probs.append(f"{kind}: decorator gives {r[0]} {r[1]}, URI list {lst}")
            elif kind == "subclass of a decorated class" and (lst is base_list or len(base_list) != 1):
                probs.append(f"{kind}: the new URI was appended to the list inherited from the base class ({base_list}): the subclass is sent under the base class's URI "
                             f"and its own URI maps to nothing")
            elif kind == "class with its own list" and lst is not own_list:
                probs.append(f"{kind}: the existing list of the class was replaced")
        ctx.ob("@error: the URI is added to the decorated class's own pattern list (never to a list inherited from a decorated base class) [3 cells]", not probs,
               "; ".join(probs[:2]), df.loc())
    except AnalysisError as e:
        raise AnalysisError(f"[C18.3-registries-written-together] uri.error outside the modelled subset: {e}")
    init = ctx.program.func(f"{BASESESSION}.__init__")
    ctx.ob("registries are per session", sum(1 for s in walk_no_defs(init.node) if isinstance(s, (ast.Assign, ast.AnnAssign)) and
                                             norm.text(s.targets[0] if isinstance(s, ast.Assign) else s.target) in ("self._ecls_to_uri_pat", "self._uri_to_ecls")) == 2, "changed", init.loc())


def rule_caller_side(ctx):
    ctx.rule("C18.4-caller-side")
    om = get_onmessage(ctx)
    nodes = om.arm_nodes("Error")
    rej = [(n, c) for n in nodes for c in node_calls(n) if call_name(c) == "txaio.reject"]
    ok = len(rej) == 1 and norm.text(rej[0][1].args[1]) == "self._exception_from_message(msg)"
    ctx.ob("ERROR arm rejects the pending call with the exception built from the message", ok, "changed", om.fn.loc())
    err = [c for c in om.closures() if c.name == "error" and om.closure_arm(c)[0] == "Invocation"]
    ctx.require(len(err) == 1, "Invocation arm: error continuation not found")
    mk = [c for c in calls_in(err[0].node) if norm.text(c.func) == "self._message_from_exception"]
    ok = len(mk) == 1 and [norm.text(a) for a in mk[0].args[:3]] == ["message.Invocation.MESSAGE_TYPE", "msg.request", "err.value"]
    ctx.ob("callee side builds the ERROR from the raised exception object", ok, "changed", err[0].loc())


def rule_rendering_is_pure(ctx):
    """"... the same keyword arguments": an error object is rendered (str(), logging, txaio.failure_message in the invocation's errback) before it
    is turned into the ERROR message or re-raised to the next caller.  Rendering must not change what it carries.  The string conversions of
    ApplicationError are evaluated (sa.core.tiny) on an error with args and kwargs, once with and once without a forwarded traceback."""
    from ..core.tiny import Tiny, Sym
    ctx.rule("C18.6-rendering-an-error-does-not-alter-it")
    cls = ctx.program.cls("autobahn.wamp.exception.ApplicationError")
    probs, n = [], 0
    for mname in ("__str__", "__unicode__", "__repr__", "error_message"):
        fn = ctx.program.lookup_method(cls, mname)
        if fn is None:
            continue
        ctx.analysed(fn)

        def inl(name, _cls=cls):
            m_ = ctx.program.lookup_method(_cls, name)
            return m_.node if m_ is not None else None
        for with_tb in (True, False):
            kw = {"k": Sym("value")}
            if with_tb:
                kw["traceback"] = "Traceback (most recent call last): ..."
            before = dict(kw)
            args = [Sym("positional")]
            env = {"self": Sym("error"), "self.kwargs": kw, "self.args": args, "self.error": "com.myapp.error", "self.enc_algo": None, "self.callee": None,
                   "self.callee_authid": None, "self.callee_authrole": None, "self.forward_for": None}
            try:
                t = Tiny(env, default_call=lambda f_, a_, k_=None: Sym(f"<{f_}>"), inline_self=inl, model_strings=True, model_types=True, opaque_globals=True)
                r = t.run([x for x in fn.node.body if not (isinstance(x, ast.Expr) and isinstance(x.value, ast.Constant))])
            except AnalysisError as e:
                raise AnalysisError(f"[C18.6-rendering-an-error-does-not-alter-it] ApplicationError.{mname} outside the modelled subset: {e}")
            n += 1
            tag = f"{mname}() of an error {'with' if with_tb else 'without'} a forwarded traceback"
            now = t.env.get("self.kwargs")
            if r[0] == "raise":
                probs.append(f"{tag}: raises {r[1]}")
            elif now is not kw or set(kw) != set(before) or any(kw[k_] is not before[k_] and kw[k_] != before[k_] for k_ in before):
                probs.append(f"{tag}: kwargs afterwards {now if now is not kw else kw}, before {before} -- the error forwarded or re-raised after being rendered is not the error that was raised")
            elif len(args) != 1:
                probs.append(f"{tag}: args changed")
    ctx.ob(f"rendering an ApplicationError as text leaves its args and kwargs untouched [{n} cells]", not probs, "; ".join(probs[:2]), cls.loc())
    ctx.require(n >= 4, f"only {n} cells")


def run(ctx):
    rule_rendering_is_pure(ctx)
    # "... with its URI, args and kwargs": what the exception carried must also survive ERROR.marshal()
    from .c03 import rule_payload_marshal_cells
    rule_payload_marshal_cells(ctx, "C18.5-error-message-carries-args-and-kwargs", only=("Error",))
    rule_to_error(ctx)
    rule_from_error(ctx)
    rule_registries(ctx)
    rule_caller_side(ctx)
