"""C20 - End-to-end encrypted payloads are recovered exactly or rejected (delivery gating / wiring clauses)."""
import ast

from ..core.index import AnalysisError, walk_no_defs, calls_in, call_name, kwarg
from ..core.cfg import node_calls
from ..core import norm
from .common import get_analysis, is_self_attr, self_call, stmt_key, APPSESSION, BASESESSION
from .wampsess import get_onmessage

META = {
    "explanation": "Guard/flow rules at the four receive sites (EVENT, RESULT, INVOCATION, ERROR) and the six send sites: on the paths "
                   "'no codec', 'decode raised', 'decoded URI differs from the envelope URI' no handler/endpoint is invoked and no call is "
                   "resolved (EVENT: return; RESULT: reject with ENC_*; INVOCATION: ERROR reply; ERROR: the enc error is returned); the "
                   "compared URI is the one passed to decode; whenever an encoded payload exists the message is built from it and carries "
                   "no clear args/kwargs; is_originating literals pair up (publish T/event F, call T/invocation F, yield F/result T, "
                   "error F/exception T) and _get_box maps them to the originator/responder box; KeyRing.encode seals uri/args/kwargs and "
                   "decode returns those three keys.",
    "assumptions": ["exact recovery and tamper detection are properties of the NaCl Box at run time: not decided"],
}


def _decode_sites(fn, g, mf, sel=lambda n: True):
    out = []
    for n in g.stmt_nodes():
        if not sel(n):
            continue
        for c in node_calls(n):
            if norm.text(c.func) == "self._payload_codec.decode":
                out.append((n, c))
    return out


def _uri_compared(fn_node, tests, dc, res):
    """The decrypted URI (first element of the tuple the decode() result is unpacked into) is compared for inequality with the URI
    expression that was given to decode(); operand order and local names do not matter. Returns the test node or None."""
    given = norm.text(dc.args[1])
    got = None
    for st in ast.walk(fn_node):
        if isinstance(st, ast.Assign) and st.value is dc and isinstance(st.targets[0], ast.Tuple) and st.targets[0].elts:
            got = norm.text(st.targets[0].elts[0])
    if got is None:
        return None
    # a comparison that was given a name (`mismatch = a != b` ... `if mismatch:`) is read through its single definition
    defs = {}
    for st in ast.walk(fn_node):
        if isinstance(st, ast.Assign) and len(st.targets) == 1 and isinstance(st.targets[0], ast.Name):
            defs.setdefault(st.targets[0].id, []).append(st.value)
    for n in tests:
        t_ = n.ast
        if isinstance(t_, ast.Name) and len(defs.get(t_.id, [])) == 1 and isinstance(defs[t_.id][0], ast.Compare):
            t_ = defs[t_.id][0]
        at = set(norm.atoms(t_, True, res))
        if at in ({("eq", got, ("e", given), False)}, {("eq", given, ("e", got), False)}):
            return n
    return None


def rule_no_delivery_on_failure(ctx):
    ctx.rule("C20.1-no-delivery-on-failure")
    om = get_onmessage(ctx)
    g, mf, res = om.g, om.mf, om.res
    # ---------------- EVENT
    nodes = om.arm_nodes("Event")
    deliver = [n for n in nodes for c in node_calls(n) if call_name(c) == "txaio.as_future" and c.args and norm.text(c.args[0]) == "handler.fn"]
    ctx.require(len(deliver) == 1, "EVENT: handler call not found")
    D = deliver[0]
    dec = _decode_sites(om.fn, g, mf, lambda n: n in nodes)
    ctx.require(len(dec) == 1, "EVENT: decode site not found")
    dn, dc = dec[0]
    # no codec -> return
    # the test of the codec, in either polarity: the "no codec" side is its T side for `not codec`, its F side for `codec`
    nocodec = []
    for n in nodes:
        if n.kind == "test":
            at = norm.atoms(n.ast, True, res)
            if at == [("truth", "self._payload_codec", None, False)]:
                nocodec.append((n, "T"))
            elif at == [("truth", "self._payload_codec", None, True)]:
                nocodec.append((n, "F"))
    ok = len(nocodec) == 1 and not any(g.path_exists(m, D, avoid=lambda x: x.kind == "for") for m, lab in nocodec[0][0].succ if lab and lab[0] == nocodec[0][1])
    ctx.ob("EVENT: encrypted payload without a codec is not delivered", ok, "handler reachable on the no-codec path", om.fn.loc())
    hs = [m for m, lab in dn.succ if lab and lab[0] == "exc"]
    ok = bool(hs) and all(not g.path_exists(h, D, avoid=lambda x: x.kind == "for") for h in hs)
    ctx.ob("EVENT: a payload that fails to decode is not delivered", ok, "handler reachable from the decode exception handler", om.fn.loc(dc))
    _c = _uri_compared(om.fn.node, [n for n in nodes if n.kind == "test"], dc, res)
    cmpn = [_c] if _c is not None else []
    ok = len(cmpn) == 1 and not any(g.path_exists(m, D, avoid=lambda x: x.kind == "for") for m, lab in cmpn[0].succ if lab and lab[0] == "T")
    ctx.ob("EVENT: decoded topic differing from the envelope topic is not delivered", ok, "URI comparison missing or handler reachable on mismatch", om.fn.loc())
    ctx.ob("EVENT: the compared URI is the one given to decode", bool(cmpn) and "topic" in norm.text(dc.args[1]), f"decode({norm.text(dc.args[1])})", om.fn.loc(dc))
    # on the encrypted path delivery passes the comparison
    enc = [n for n in nodes if n.kind == "test" and norm.atoms(n.ast, True, res) == [("truth", "msg.enc_algo", None, True)]]
    ok = len(enc) == 1 and bool(cmpn) and all(not g.path_exists(m, D, avoid=lambda x: x is cmpn[0] or x.kind == "for") for m, lab in enc[0].succ if lab and lab[0] == "T")
    ctx.ob("EVENT: with enc_algo set, the handler is reached only through the URI comparison", ok, "encrypted events can bypass the comparison", om.fn.loc())
    # ---------------- RESULT
    nodes = om.arm_nodes("Result")
    dec = _decode_sites(om.fn, g, mf, lambda n: n in nodes)
    ctx.require(len(dec) == 1, "RESULT: decode site not found")
    dn, dc = dec[0]
    ctx.ob("RESULT: the compared URI is the one given to decode", _uri_compared(om.fn.node, [n for n in nodes if n.kind == "test"], dc, res) is not None,
           "comparison changed", om.fn.loc(dc))
    errs = [n for n in nodes if n.kind == "stmt" and isinstance(n.ast, ast.Assign) and norm.text(n.ast.targets[0]) == "enc_err" and norm.text(n.ast.value) != "None"]
    kinds = sorted(norm.text(n.ast.value.args[0]).split(".")[-1] for n in errs if isinstance(n.ast.value, ast.Call))
    ctx.ob("RESULT: no-codec, decode failure and URI mismatch each record an ENC_* error", kinds == ["ENC_DECRYPT_ERROR", "ENC_NO_PAYLOAD_CODEC", "ENC_TRUSTED_URI_MISMATCH"], f"{kinds}", om.fn.loc())
    resolves = [(n, c) for n in nodes for c in node_calls(n) if call_name(c) == "txaio.resolve"]
    for n, c in resolves:
        ctx.ob(f"RESULT: `{stmt_key(c)[:45]}` only when decryption succeeded", ("truth", "enc_err", None, False) in mf.at(n), "call resolved although the payload could not be trusted", om.fn.loc(c))
    rej = [(n, c) for n in nodes for c in node_calls(n) if call_name(c) == "txaio.reject"]
    ok = len(rej) == 1 and ("truth", "enc_err", None, True) in mf.at(rej[0][0]) and norm.text(rej[0][1].args[1]) == "enc_err"
    ctx.ob("RESULT: otherwise the call fails with the encryption error", ok, "reject changed", om.fn.loc())
    prog = [(n, c) for n in nodes for c in node_calls(n) if call_name(c) == "txaio.as_future" and c.args and "on_progress" in norm.text(c.args[0])]
    ctx.ob("RESULT progress: handler only when decryption succeeded", bool(prog) and all(("truth", "enc_err", None, False) in mf.at(n) for n, c in prog), "progress delivered despite enc_err", om.fn.loc())
    # once decode() has returned, every delivery (final or progressive) lies behind the URI comparison
    cmp_r = _uri_compared(om.fn.node, [n for n in nodes if n.kind == "test"], dc, res)
    after = [m for m, lab in dn.succ if not (lab and lab[0] == "exc")]
    bypass = [stmt_key(c)[:45] for n, c in resolves + prog if cmp_r is None or any(g.path_exists(m, n, avoid=lambda x: x is cmp_r) for m in after if m is not cmp_r)]
    ctx.ob("RESULT: a decrypted payload reaches the caller (result or progress handler) only through the URI comparison", cmp_r is not None and not bypass,
           f"reachable from decode() without passing the comparison: {bypass[:2]}", om.fn.loc(dc))
    # ---------------- INVOCATION
    nodes = om.arm_nodes("Invocation")
    dec = _decode_sites(om.fn, g, mf, lambda n: n in nodes)
    ctx.require(len(dec) == 1, "INVOCATION: decode site not found")
    dn, dc = dec[0]
    ctx.ob("INVOCATION: the compared URI is the one given to decode", _uri_compared(om.fn.node, [n for n in nodes if n.kind == "test"], dc, res) is not None,
           "comparison changed", om.fn.loc(dc))
    call = [(n, c) for n in nodes for c in node_calls(n) if call_name(c) == "txaio.as_future" and c.args and norm.text(c.args[0]) == "endpoint.fn"]
    ok = len(call) == 1 and ("truth", "enc_err", None, False) in mf.at(call[0][0])
    ctx.ob("INVOCATION: endpoint invoked only when decryption succeeded", ok, "endpoint called although the payload could not be trusted", om.fn.loc())
    er = [(n, c) for n in nodes for c in node_calls(n) if norm.text(c.func) == "self._message_from_exception"]
    ok = len(er) == 1 and ("truth", "enc_err", None, True) in mf.at(er[0][0]) and norm.text(er[0][1].args[2]) == "enc_err"
    ctx.ob("INVOCATION: otherwise an ERROR built from the encryption error is sent", ok, "changed", om.fn.loc())
    errs = [n for n in nodes if n.kind == "stmt" and isinstance(n.ast, ast.Assign) and norm.text(n.ast.targets[0]) == "enc_err" and norm.text(n.ast.value) != "None"]
    kinds = sorted(norm.text(n.ast.value.args[0]).split(".")[-1] for n in errs if isinstance(n.ast.value, ast.Call))
    ctx.ob("INVOCATION: all three failure kinds recorded", kinds == ["ENC_DECRYPT_ERROR", "ENC_NO_PAYLOAD_CODEC", "ENC_TRUSTED_URI_MISMATCH"], f"{kinds}", om.fn.loc())
    # ---------------- ERROR -> exception
    fn = ctx.program.func(f"{BASESESSION}._exception_from_message")
    g2, mf2, res2 = om.an.get(fn)
    dec = _decode_sites(fn, g2, mf2)
    ctx.require(len(dec) == 1, "_exception_from_message: decode site not found")
    ctx.ob("ERROR: the compared URI is the one given to decode", norm.text(dec[0][1].args[1]).endswith(".error") and
           _uri_compared(fn.node, [n for n in g2.stmt_nodes() if n.kind == "test"], dec[0][1], res2) is not None, "comparison changed", fn.loc())
    # cell-wise over (codec present?) x (decode raises / returns another URI / returns the envelope URI) x (URI registered?): an error that
    # cannot be trusted surfaces as the matching encryption error and no exception is built from its payload; a trusted one is built from
    # the DECRYPTED args/kwargs
    from ..core.tiny import Tiny, Sym, TinyRaise
    from .common import inline_private
    import itertools
    bs = ctx.program.cls(BASESESSION)
    body = [x for x in fn.node.body if not (isinstance(x, ast.Expr) and isinstance(x.value, ast.Constant))]
    probs = []
    try:
        for codec, outcome, registered in itertools.product((False, True), ("raises", "other-uri", "same-uri"), (True, False)):
            built = []
            dec_args, dec_kwargs = [Sym("decrypted-arg")], {"k": Sym("decrypted-kwarg")}

            def decode(is_orig, uri, enc):
                if outcome == "raises":
                    raise TinyRaise("Exception")
                return ["com.err" if outcome == "same-uri" else "com.forged", dec_args, dec_kwargs]

            def default(f_, a_, k_=None):
                if f_ in ("ApplicationError", "exception.ApplicationError"):
                    o = Sym("ApplicationError", args=list(a_), kwargs=dict(k_ or {}))
                    built.append(o)
                    return o
                return Sym(f"<{f_}>")
            ecls = Sym("registered-class", methods={"__call__": lambda *a_, **k_: (built.append(Sym("user-exception", args=list(a_), kwargs=dict(k_))), built[-1])[1]})
            m = fn.params()[1]
            msg = Sym("error-message", enc_algo="cryptobox", error="com.err", args=None, kwargs=None, payload=Sym("ciphertext"), enc_serializer="json", enc_key=None,
                      callee=None, callee_authid=None, callee_authrole=None, forward_for=None)
            env = {"self": Sym("session"), m: msg, "self._payload_codec": Sym("codec", methods={"decode": decode}) if codec else None,
                   "self._uri_to_ecls": {"com.err": ecls} if registered else {},
                   "ApplicationError.ENC_NO_PAYLOAD_CODEC": "ENC_NO_PAYLOAD_CODEC", "ApplicationError.ENC_DECRYPT_ERROR": "ENC_DECRYPT_ERROR",
                   "ApplicationError.ENC_TRUSTED_URI_MISMATCH": "ENC_TRUSTED_URI_MISMATCH"}
            # the fallback class also as a VALUE (handed to a helper that calls it): the same answer as the call by name
            env["exception.ApplicationError"] = Sym("class ApplicationError", methods={"__call__": (lambda *a_, **k_: default("exception.ApplicationError", list(a_), k_))})
            t = Tiny(env, default_call=default, inline_self=inline_private(ctx, bs, exclude=("_swallow_error",)))
            r = t.run(body)
            cell = f"codec {'active' if codec else 'absent'}, decode {outcome.replace('-', ' ')}, error URI {'registered' if registered else 'not registered'}"
            want_enc = "ENC_NO_PAYLOAD_CODEC" if not codec else ("ENC_DECRYPT_ERROR" if outcome == "raises" else ("ENC_TRUSTED_URI_MISMATCH" if outcome == "other-uri" else None))
            if r[0] != "return" or not isinstance(r[1], Sym):
                probs.append(f"{cell}: {r[0]} {str(r[1])[:60]}: no exception object returned")
                continue
            o = r[1]
            if want_enc:
                if not (o.name == "ApplicationError" and o.attrs["args"][:1] == [want_enc]) or len(built) != 1:
                    probs.append(f"{cell}: surfaces as {o.name}{o.attrs.get('args', '')} after building {len(built)} exception object(s), expected only ApplicationError({want_enc}, ...)")
            else:
                used_a = o.attrs.get("args", [])
                used_k = o.attrs.get("kwargs", {})
                ok_ = (dec_args[0] in used_a) and used_k.get("k") is dec_kwargs["k"] and (o.name == ("user-exception" if registered else "ApplicationError"))
                if not ok_:
                    probs.append(f"{cell}: surfaces as {o.name} with {used_a}, {used_k}; expected the exception built from the decrypted args/kwargs")
        ctx.ob("ERROR: an undecryptable / forged error surfaces as the matching encryption error, never as an exception built from untrusted args; a trusted one is built "
               "from the decrypted payload [12 cells]", not probs, "; ".join(probs[:2]), fn.loc())
    except AnalysisError as e:
        raise AnalysisError(f"[C20.1-no-delivery-on-failure] _exception_from_message outside the modelled subset: {e}")


def rule_no_clear_payload(ctx):
    ctx.rule("C20.2-no-clear-payload-on-the-wire")
    om = get_onmessage(ctx)
    an = om.an
    sites = [ctx.program.func(f"{APPSESSION}.publish"), ctx.program.func(f"{APPSESSION}.call"), ctx.program.func(f"{BASESESSION}._message_from_exception")]
    sites += [c for c in om.closures() if om.closure_arm(c)[0] == "Invocation" and c.name in ("success", "progress")]
    count = 0
    from .common import recover_names
    for fn in sites:
        # the encoded payload: the local holding what the payload codec returned (whatever it is called)
        fn = recover_names(ctx, fn, [("encoded_payload", "def", lambda v: any(isinstance(x, ast.Call) and norm.text(x.func) == "self._payload_codec.encode" for x in ast.walk(v)))])
        g, mf, res = an.get(fn)
        ctx.analysed(fn)
        in_handlers = {id(x) for h in ast.walk(fn.node) if isinstance(h, ast.ExceptHandler) for x in ast.walk(h)}
        for n in g.stmt_nodes():
            for c in node_calls(n):
                nm = call_name(c) or ""
                if nm in ("message.Publish", "message.Call", "message.Yield", "message.Error"):
                    if id(c) in in_handlers:
                        continue  # fallback ERROR describing a send failure: carries a text, not the application payload
                    enc = norm.is_truthy_known(mf.at(n), "encoded_payload")
                    kws = {k.arg: norm.text(k.value) for k in c.keywords if k.arg}
                    has_clear = "args" in kws or "kwargs" in kws or (nm == "message.Error" and len(c.args) >= 4)
                    if enc is True:
                        count += 1
                        ok = kws.get("payload") == "encoded_payload.payload" and kws.get("enc_algo") == "encoded_payload.enc_algo" and \
                            kws.get("enc_key") == "encoded_payload.enc_key" and kws.get("enc_serializer") == "encoded_payload.enc_serializer" and not has_clear
                        ctx.ob(f"{fn.name}: `{nm}` on the encrypted path carries only the encoded payload", ok,
                               f"keywords {sorted(kws)}{' plus positional args/kwargs' if has_clear else ''}: clear application payload next to the ciphertext", fn.loc(c))
                    elif enc is False:
                        ctx.ob(f"{fn.name}: `{nm}` on the clear path carries no payload attributes", "payload" not in kws, f"{sorted(kws)}", fn.loc(c))
                    else:
                        ctx.ob(f"{fn.name}: `{nm}` is built under an `if encoded_payload` decision", False, "construction not keyed on the encoded payload", fn.loc(c))
    ctx.require(count >= 6, f"only {count} encrypted-path constructions found")
    # an invocation that ARRIVED encrypted is never answered in clear: cell-wise over the result kind and what the keyring does with it
    from ..core.tiny import Tiny, Sym, TinyRaise
    import itertools
    succ = [c for c in om.closures() if om.closure_arm(c)[0] == "Invocation" and c.name == "success" and c.parent is om.fn]
    ctx.require(len(succ) == 1, "INVOCATION: success continuation not found")
    sf = succ[0]
    body = [x for x in sf.node.body if not (isinstance(x, ast.Expr) and isinstance(x.value, ast.Constant))]
    probs = []
    try:
        for outcome, kind in itertools.product(("encodes", "raises"), ("plain value", "CallResult")):
            sent = []
            CR = Sym("types.CallResult")
            res_ = Sym("result", pytype=CR, results=[Sym("secret-result")], kwresults={"k": Sym("secret-kw")}, callee=None, callee_authid=None, callee_authrole=None, forward_for=None) \
                if kind == "CallResult" else Sym("secret-result")

            def encode(*a_):
                if outcome == "raises":
                    raise TinyRaise("Exception")
                return Sym("encoded-payload", payload=Sym("ciphertext"), enc_algo="cryptobox", enc_key=None, enc_serializer="json")

            def default(f_, a_, k_=None):
                if f_ == "isinstance" and len(a_) == 2:
                    return a_[0] is res_ and kind == "CallResult" and a_[1] is CR
                if f_ == "message.Yield":
                    return Sym("YIELD", clear=("args" in (k_ or {}) or "kwargs" in (k_ or {})), payload=(k_ or {}).get("payload"))
                if f_ in ("self._message_from_exception", "message.Error"):
                    return Sym("ERROR", detail=list(a_))
                if f_ == "self._transport.send":
                    sent.append(a_[0])
                    return None
                return Sym(f"<{f_}>")
            env = {"self": Sym("session"), sf.params()[0]: res_, "msg.request": 7, "msg.enc_algo": "cryptobox", "self._invocations": {7: Sym("pending")}, "proc": "com.proc",
                   "self._payload_codec": Sym("keyring", methods={"encode": encode}), "self._transport": Sym("transport"), "types.CallResult": CR,
                   "registration.procedure": "com.proc", "message.Invocation.MESSAGE_TYPE": 68}
            t = Tiny(env, default_call=default, opaque_globals=True)
            r = t.run(body)
            cell = f"encrypted INVOCATION, endpoint returns a {kind}, keyring {outcome}"
            if r[0] == "raise" or len(sent) != 1 or not isinstance(sent[0], Sym):
                probs.append(f"{cell}: {r[0]} {str(r[1])[:50]}, {len(sent)} message(s) sent")
            elif outcome == "encodes" and not (sent[0].name == "YIELD" and not sent[0].attrs["clear"] and isinstance(sent[0].attrs["payload"], Sym)):
                probs.append(f"{cell}: answered with {sent[0].name} (clear={sent[0].attrs.get('clear')})")
            elif outcome == "raises" and sent[0].name == "YIELD":
                probs.append(f"{cell}: the result is sent as a {'CLEAR ' if sent[0].attrs['clear'] else ''}YIELD although it could not be encrypted")
        ctx.ob("an invocation that arrived encrypted is answered with the encrypted result, or with an ERROR when the result cannot be encrypted -- never in clear [4 cells]",
               not probs, "; ".join(probs[:2]), sf.loc())
    except AnalysisError as e:
        raise AnalysisError(f"[C20.2-no-clear-payload-on-the-wire] success() outside the modelled subset: {e}")
    # message constructors assert payload => no args/kwargs
    mm = ctx.program.module("autobahn.wamp.message")
    for cn in ("Publish", "Call", "Yield", "Error", "Event", "Result", "Invocation"):
        init = mm.classes[cn].methods["__init__"]
        ok = any(isinstance(s, ast.Assert) and " ".join(norm.text(s.test).split()) == "payload is None or (payload is not None and args is None and (kwargs is None))" for s in walk_no_defs(init.node))
        ctx.ob(f"message.{cn}: payload excludes args/kwargs (constructor assert)", ok, "assert removed", init.loc())


def rule_direction(ctx):
    ctx.rule("C20.3-direction-flags")
    om = get_onmessage(ctx)
    an = om.an
    expected = {
        ("publish", "encode"): True, ("call", "encode"): True, ("_message_from_exception", "encode"): False,
        ("onMessage/Event", "decode"): False, ("onMessage/Invocation", "decode"): False, ("onMessage/Result", "decode"): True,
        ("_exception_from_message", "decode"): True, ("success", "encode"): False, ("progress", "encode"): False,
    }
    found = {}
    funcs = [ctx.program.func(f"{APPSESSION}.publish"), ctx.program.func(f"{APPSESSION}.call"), ctx.program.func(f"{BASESESSION}._message_from_exception"),
             ctx.program.func(f"{BASESESSION}._exception_from_message")] + [c for c in om.closures() if om.closure_arm(c)[0] == "Invocation" and c.name in ("success", "progress")]
    for fn in funcs:
        for c in calls_in(fn.node):
            t = norm.text(c.func)
            if t in ("self._payload_codec.encode", "self._payload_codec.decode"):
                found.setdefault((fn.name, t.split(".")[-1]), []).append(c)
    g, mf = om.g, om.mf
    for n in g.stmt_nodes():
        for c in node_calls(n):
            if norm.text(c.func) == "self._payload_codec.decode":
                found.setdefault((f"onMessage/{om.arm_of_facts(mf.at(n))}", "decode"), []).append(c)
    krc = ctx.program.cls("autobahn.wamp.cryptobox.KeyRing")
    sig = {"encode": krc.methods["encode"].params()[1:], "decode": krc.methods["decode"].params()[1:]}

    def arg(c, what, i):
        """the i-th parameter of KeyRing.encode/decode at call `c`, positional or by keyword"""
        if len(c.args) > i:
            return c.args[i]
        nm = sig[what][i] if len(sig[what]) > i else None
        for k in c.keywords:
            if k.arg == nm:
                return k.value
        return None
    for key, want in expected.items():
        cs = found.get(key, [])
        flags = [arg(c, key[1], 0) for c in cs]
        ok = bool(cs) and all(isinstance(a, ast.Constant) and a.value is want for a in flags)
        ctx.ob(f"{key[0]}: {key[1]}(is_originating={want})", ok, f"{[norm.text(a) if a is not None else None for a in flags] or 'site not found'}", om.fn.loc())
    # the URI a payload is sealed under / checked against is the URI of the operation itself
    from .common import canon_text

    def uri_texts(key, fn=None):
        out = []
        for c in found.get(key, []):
            a = arg(c, key[1], 1)
            out.append((canon_text(fn, a) if fn is not None and a is not None else (norm.text(a) if a is not None else None), c))
        return out
    pub, call_ = ctx.program.func(f"{APPSESSION}.publish"), ctx.program.func(f"{APPSESSION}.call")
    mfe, efm = ctx.program.func(f"{BASESESSION}._message_from_exception"), ctx.program.func(f"{BASESESSION}._exception_from_message")
    for fn_, key, want_uri, what in ((pub, ("publish", "encode"), pub.params()[1], "the topic published to"), (call_, ("call", "encode"), call_.params()[1], "the procedure called"),
                                     (efm, ("_exception_from_message", "decode"), f"{efm.params()[1]}.error", "the error URI of the ERROR message")):
        got = uri_texts(key, fn_)
        ctx.ob(f"{key[0]}: payload {key[1]}d under {what}", bool(got) and all(t == want_uri for t, _ in got), f"URI argument {[t for t, _ in got]}", fn_.loc())
    got = uri_texts(("_message_from_exception", "encode"), mfe)
    errs = {canon_text(mfe, c.args[2]) for c in calls_in(mfe.node) if call_name(c) == "message.Error" and len(c.args) >= 3}
    ctx.ob("_message_from_exception: payload encoded under the error URI the ERROR message carries", bool(got) and len(errs) == 1 and all(t in errs for t, _ in got),
           f"URI argument {[t for t, _ in got]}, ERROR carries {sorted(errs)}", mfe.loc())
    # invocation: the URI the arguments were decrypted under is the URI every result / progressive result is encrypted under, and it is the invoked procedure
    dec_uri = uri_texts(("onMessage/Invocation", "decode"))
    enc_uri = uri_texts(("success", "encode")) + uri_texts(("progress", "encode"))
    names = {t for t, _ in dec_uri}
    ok = len(names) == 1 and all(t in names for t, _ in enc_uri) and bool(enc_uri)
    ctx.ob("invocation: results and progressive results are encrypted under the same URI the invocation was decrypted under", ok,
           f"decoded under {sorted(names)}, results encoded under {sorted({t for t, _ in enc_uri})}", om.fn.loc())
    if len(names) == 1:
        nm = next(iter(names))
        arm = [x for x in ast.walk(om.fn.node) if isinstance(x, ast.If) and norm.atoms(x.test, True, om.res) == [("isinst", "msg", "message.Invocation", True)]]
        defs = [s_ for a_ in arm for s_ in ast.walk(a_) if isinstance(s_, ast.Assign) and any(norm.text(t_) == nm for t_ in s_.targets)]
        okd = len(defs) == 1 and " ".join((norm.text(defs[0].value) or "").split()) in ("msg.procedure or registration.procedure",)
        ctx.ob("invocation: that URI is the invoked procedure (INVOCATION.details.procedure for pattern registrations, else the registered URI)", okd or nm in ("msg.procedure or registration.procedure",),
               f"{nm} = {[norm.text(d.value) for d in defs]}", om.fn.loc())
    ctx.ob("no other encode/decode sites", set(found) == set(expected), f"unexpected: {sorted(set(found) - set(expected))}", om.fn.loc())
    kr = ctx.program.cls("autobahn.wamp.cryptobox.KeyRing")
    gb = kr.methods["_get_box"]
    # cell-wise over (direction, a key for the URI prefix exists, a default key exists, exact matching requested)
    from ..core.tiny import Tiny, Sym, TinyRaise
    import itertools
    probs = []
    try:
        for orig, has_prefix, has_default, exact in itertools.product((True, False), (True, False), (True, False), (False, True)):
            pk = Sym("prefix-key", originator_box=Sym("prefix-originator-box"), responder_box=Sym("prefix-responder-box"))
            dk = Sym("default-key", originator_box=Sym("default-originator-box"), responder_box=Sym("default-responder-box"))

            def lookup(u):
                if has_prefix:
                    return pk
                raise TinyRaise("KeyError")
            trie = Sym("uri->key", methods={"longest_prefix_value": lookup, "__getitem__": lookup})
            prm = gb.params()
            env = {prm[1]: orig, prm[2]: "com.topic", "self._default_key": dk if has_default else None, "self": Sym("keyring")}
            if len(prm) > 3:
                env[prm[3]] = exact
            t = Tiny(env, default_call=lambda f_, a_, k_=None: Sym(f"<{f_}>"))
            t.env["self._uri_to_key"] = trie if not exact else ({"com.topic": pk} if has_prefix else {})
            r = t.run([x for x in gb.node.body if not (isinstance(x, ast.Expr) and isinstance(x.value, ast.Constant))])
            key = pk if has_prefix else (dk if has_default else None)
            want = None if key is None else key.attrs["originator_box" if orig else "responder_box"]
            if r[0] != "return" and not (r[0] == "fall" and want is None) or (r[0] == "return" and r[1] is not want):
                probs.append(f"is_originating={orig}, prefix key {'present' if has_prefix else 'absent'}, default key {'present' if has_default else 'absent'}, exact={exact}: "
                             f"gives {r[1] if r[0] == 'return' else r}, expected {want}")
        ctx.ob("_get_box: the key of the longest matching URI prefix, else the default key, else none; originating -> originator box, otherwise responder box [16 cells]",
               not probs, "; ".join(probs[:2]), gb.loc())
    except AnalysisError as e:
        raise AnalysisError(f"[C20.3-direction-flags] KeyRing._get_box outside the modelled subset: {e}")
    key = ctx.program.cls("autobahn.wamp.cryptobox.Key").methods["__init__"]
    boxes = {norm.text(s.targets[0]): norm.text(s.value) for s in walk_no_defs(key.node) if isinstance(s, ast.Assign) and isinstance(s.value, ast.Call) and call_name(s.value) == "Box"}
    ok = boxes.get("self.originator_box") == "Box(self.originator_priv, self.responder_pub)" and boxes.get("self.responder_box") == "Box(self.responder_priv, self.originator_pub)"
    ctx.ob("Key: originator box = (originator private, responder public); responder box = (responder private, originator public)", ok, f"{boxes}", key.loc())


def rule_keyring(ctx):
    ctx.rule("C20.4-keyring-envelope")
    kr = ctx.program.cls("autobahn.wamp.cryptobox.KeyRing")
    enc, dec = kr.methods["encode"], kr.methods["decode"]
    ctx.analysed(enc, dec)
    # encode() and decode() evaluated (sa.core.tiny) against a model of the box and of the JSON codec: what is sealed is exactly {uri, args, kwargs} of the
    # call, under the box selected for (direction, URI) and a fresh nonce, and comes back labelled cryptobox / json; decode opens the envelope's
    # payload with the box selected the same way and returns the three sealed fields in that order
    from ..core.tiny import Tiny, Sym, OpenSym, Buf
    probs_e, probs_d = [], []
    try:
        U, A, K = "com.topic", [Sym("arg")], {"k": Sym("kwarg")}
        sealed_in, boxes_for, made = [], [], []
        box = Sym("box", methods={"encrypt": lambda pt, nonce=None, encoder=None: (sealed_in.append((pt, nonce)), Sym("ciphertext", of=pt))[1],
                                  "decrypt": lambda ct, encoder=None: Sym("plaintext", of=ct, methods={"decode": lambda *a_: Sym("plaintext-text", of=ct)})})

        def default(f_, a_, k_=None):
            if f_ == "self._get_box":
                boxes_for.append(list(a_))
                return box
            if f_ in ("_json_dumps", "_dumps", "json.dumps"):
                d_ = a_[0]
                return Sym("json-text", of=d_, methods={"encode": lambda *x_: Sym("json-octets", of=d_)})
            if f_ == "random":
                return Sym("nonce", size=a_[0] if a_ else None)
            if f_ == "EncodedPayload":
                b_ = dict(zip(("payload", "enc_algo", "enc_serializer", "enc_key"), a_))
                b_.update(k_ or {})
                made.append(b_)
                return Sym("encoded-payload", **b_)
            if f_ in ("_json_loads", "_loads", "json.loads"):
                return {"uri": Sym("sealed-uri"), "args": Sym("sealed-args"), "kwargs": Sym("sealed-kwargs"), "other": Sym("noise"), "_src": a_[0] if a_ else None}
            if f_ == "isinstance":
                return True
            if f_ == "bytes" and a_:
                return a_[0]
            return Sym(f"<{f_}>")
        pe = enc.params()
        t = Tiny({"self": Sym("keyring"), pe[1]: True, pe[2]: U, pe[3]: A, pe[4]: K, "RawEncoder": Sym("RawEncoder"), "Box": Sym("Box", NONCE_SIZE=24)}, default_call=default, model_types=True, opaque_globals=True, model_strings=True)
        r = t.run([x for x in enc.node.body if not (isinstance(x, ast.Expr) and isinstance(x.value, ast.Constant))])
        if r[0] != "return" or len(made) != 1 or len(sealed_in) != 1:
            probs_e.append(f"encode: {r[0]} {str(r[1])[:40]}, {len(sealed_in)} encryption(s), {len(made)} EncodedPayload(s)")
        else:
            pt, nonce = sealed_in[0]
            d_ = pt.attrs.get("of") if isinstance(pt, Sym) else None
            if not (isinstance(d_, dict) and set(d_) == {"uri", "args", "kwargs"} and d_["uri"] == U and d_["args"] is A and d_["kwargs"] is K):
                probs_e.append(f"encode seals {d_!r}, expected exactly uri / args / kwargs of the call")
            if not (isinstance(nonce, Sym) and nonce.name == "nonce"):
                probs_e.append(f"encode encrypts with nonce {nonce!r}, expected a freshly drawn one")
            if boxes_for != [[True, U]]:
                probs_e.append(f"encode selects the box for {boxes_for}, expected (is_originating, uri) of the call")
            m_ = made[0]
            ct = m_.get("payload")
            if not (isinstance(ct, Sym) and ct.name == "ciphertext" and ct.attrs.get("of") is pt) or m_.get("enc_algo") != "cryptobox" or m_.get("enc_serializer") != "json" or m_.get("enc_key") is not None:
                probs_e.append(f"encode returns EncodedPayload({ct!r}, {m_.get('enc_algo')!r}, {m_.get('enc_serializer')!r}, enc_key={m_.get('enc_key')!r})")
        del boxes_for[:]
        pd_ = dec.params()
        env_payload = Sym("ciphertext-octets")
        t = Tiny({"self": Sym("keyring"), pd_[1]: False, pd_[2]: U, pd_[3]: Sym("envelope", payload=env_payload, enc_algo="cryptobox", enc_serializer="json", enc_key=None),
                  "RawEncoder": Sym("RawEncoder"), "Box": Sym("Box", NONCE_SIZE=24)},
                 default_call=default, model_types=True, opaque_globals=True, model_strings=True)
        r = t.run([x for x in dec.node.body if not (isinstance(x, ast.Expr) and isinstance(x.value, ast.Constant))])
        got = list(r[1]) if r[0] == "return" and isinstance(r[1], (list, tuple)) else None
        if got is None or [getattr(x, "name", None) for x in got] != ["sealed-uri", "sealed-args", "sealed-kwargs"]:
            probs_d.append(f"decode returns {r[1] if r[0] == 'return' else r!r}, expected (uri, args, kwargs) of the sealed dict")
        if boxes_for != [[False, U]]:
            probs_d.append(f"decode selects the box for {boxes_for}, expected (is_originating, uri) of the call")
    except AnalysisError as e:
        raise AnalysisError(f"[C20.4-keyring-envelope] KeyRing.encode / decode outside the modelled subset: {e}")
    ctx.ob("encode seals exactly {uri, args, kwargs} under the box of (direction, URI) with a fresh nonce and labels the result cryptobox / json [1 cell]", not probs_e, "; ".join(probs_e[:2]), enc.loc())
    ctx.ob("decode opens the payload with the box of (direction, URI) and returns the sealed uri, args, kwargs in that order [1 cell]", not probs_d, "; ".join(probs_d[:2]), dec.loc())
    # the box: the local holding what self._get_box() returned (whatever it is called)
    boxn = {s_.targets[0].id for s_ in walk_no_defs(dec.node) if isinstance(s_, ast.Assign) and len(s_.targets) == 1 and isinstance(s_.targets[0], ast.Name)
            and isinstance(s_.value, ast.Call) and norm.text(s_.value.func) == "self._get_box"} or {"box"}
    nb = [s for s in walk_no_defs(dec.node) if isinstance(s, ast.If) and any(norm.atoms(s.test, True) == [("truth", b_, None, False)] for b_ in boxn)]
    ctx.ob("decode without a key raises", len(nb) == 1 and any(isinstance(x, ast.Raise) for x in nb[0].body), "changed", dec.loc())


def run(ctx):
    rule_no_delivery_on_failure(ctx)
    rule_no_clear_payload(ctx)
    rule_direction(ctx)
    rule_keyring(ctx)
