"""C06 - WAMP sessions end cleanly on every path and leave nothing pending."""
import ast

from ..core.index import AnalysisError, walk_no_defs, calls_in, call_name, kwarg
from ..core.cfg import node_calls
from ..core import norm
from .common import get_analysis, is_self_attr, self_call, stmt_key, APPSESSION
from .wampsess import get_onmessage, ALL_TABLES

META = {
    "explanation": "Phase-gate and teardown rules: before the session is established onMessage accepts exactly WELCOME/ABORT/CHALLENGE "
                   "(else ProtocolError), afterwards none of the handshake messages and an unknown message is a ProtocolError; every GOODBYE "
                   "send is guarded by `not _goodbye_sent` and followed by the flag / session reset; _errback_outstanding_requests covers "
                   "exactly the pending tables created in __init__, clears them and rejects what is not yet completed; onLeave and "
                   "onDisconnect both reach it; onClose drops the transport reference first and always reaches onDisconnect; every request "
                   "API refuses with TransportLost before allocating an id; the three transports notify the session once (guarded, wrapped, "
                   "reference cleared).",
    "assumptions": ["callback order under failing user callbacks and transport loss at every position is not decided (histories over futures)",
                    "session id 0 is excluded by the WAMP spec; `if self._session_id` truthiness tests are therefore equivalent to `is not None`"],
}

TRANSPORT_LOSS = [("autobahn.wamp.websocket.WampWebSocketProtocol.onClose", "self._session"),
                  ("autobahn.twisted.rawsocket.WampRawSocketProtocol.connectionLost", "self._session"),
                  ("autobahn.asyncio.rawsocket.WampRawSocketMixinAsyncio._on_connection_lost", "self._session")]


def rule_phase_gate(ctx):
    ctx.rule("C06.1-phase-gate")
    om = get_onmessage(ctx)
    g, mf, res = om.g, om.mf, om.res
    pre, est = set(), set()
    for n in g.stmt_nodes():
        if n.kind == "test":
            at = norm.atoms(n.ast, True, res)
            if len(at) == 1 and at[0][0] == "isinst" and at[0][1] == "msg":
                ph = om.phase_of_facts(mf.at(n))
                (pre if ph == "pre" else est if ph == "established" else set()).add(at[0][2].split(".")[-1])
    ctx.ob("before the session is established exactly WELCOME, ABORT, CHALLENGE are accepted", pre == {"Welcome", "Abort", "Challenge"}, f"accepted: {sorted(pre)}", om.fn.loc())
    hs = {"Hello", "Welcome", "Abort", "Challenge", "Authenticate"}
    ctx.ob("after the session is established no handshake message is accepted", not (est & hs), f"handshake messages handled after join: {sorted(est & hs)}", om.fn.loc())
    ctx.ob("the established phase handles the session messages", {"Goodbye", "Event", "Published", "Subscribed", "Unsubscribed", "Result", "Invocation", "Interrupt", "Registered", "Unregistered", "Error"} <= est,
           f"handled: {sorted(est)}", om.fn.loc())
    # final else of both phases raises ProtocolError
    gate = [n for n in g.stmt_nodes() if n.kind == "test" and norm.atoms(n.ast, True, res) == [("is", "self._session_id", ("c", None), True)]]
    ctx.require(len(gate) == 1, "phase gate `self._session_id is None` not found")
    for phase, arms in (("pre", pre), ("established", est)):
        last = [n for n in g.stmt_nodes() if n.kind == "test" and om.phase_of_facts(mf.at(n)) == phase and
                len(norm.atoms(n.ast, True, res)) == 1 and norm.atoms(n.ast, True, res)[0][0] == "isinst" and norm.atoms(n.ast, True, res)[0][1] == "msg"]
        ends = []
        for n in last:
            for m, lab in n.succ:
                if lab and lab[0] == "F" and not (m.kind == "test"):
                    ends.append(m)
        ok = len(ends) == 1 and ends[0].kind == "stmt" and isinstance(ends[0].ast, ast.Raise) and "ProtocolError" in norm.text(ends[0].ast.exc)
        ctx.ob(f"{phase}: any other message is a protocol violation", ok, "fall-through of the dispatch chain does not raise ProtocolError", om.fn.loc())
    # join() refuses when already joined
    j = ctx.program.func(f"{APPSESSION}.join")
    gj, mfj, resj = om.an.get(j)
    hello = [(n, c) for n in gj.stmt_nodes() for c in node_calls(n) if norm.text(c.func) == "self._transport.send"]
    ok = len(hello) == 1 and ("truth", "self._session_id", None, False) in mfj.at(hello[0][0]) and ("truth", "self._transport", None, True) in mfj.at(hello[0][0])
    ctx.ob("HELLO is sent only when not joined and a transport is attached", ok, "join() guards changed", j.loc())


def rule_goodbye(ctx):
    ctx.rule("C06.2-goodbye-once")
    om = get_onmessage(ctx)
    an = om.an
    sites = []
    for fn in [ctx.program.func(f"{APPSESSION}.leave"), om.fn]:
        g, mf, res = an.get(fn)
        ctors = [n for n in g.stmt_nodes() if n.kind == "stmt" and isinstance(n.ast, ast.Assign) and isinstance(n.ast.value, ast.Call)
                 and (call_name(n.ast.value) or "").endswith("message.Goodbye")]
        for a in ctors:
            v = norm.text(a.ast.targets[0])
            reass = lambda x, v=v, a=a: x is not a and x.kind == "stmt" and isinstance(x.ast, ast.Assign) and any(norm.text(t) == v for t in x.ast.targets)
            reach = g.reachable(a, avoid=reass)
            for n in g.stmt_nodes():
                if n.id not in reach:
                    continue
                for c in node_calls(n):
                    if norm.text(c.func) == "self._transport.send" and c.args and norm.text(c.args[0]) == v:
                        sites.append((fn, g, mf, n, c))
        # ... or built in place: self._transport.send(message.Goodbye(...))
        for n in g.stmt_nodes():
            for c in node_calls(n):
                if norm.text(c.func) == "self._transport.send" and c.args and isinstance(c.args[0], ast.Call) and (call_name(c.args[0]) or "").endswith("message.Goodbye"):
                    sites.append((fn, g, mf, n, c))
    ctx.ob("GOODBYE is sent from exactly two places (leave() and the reply to the peer's GOODBYE)", len(sites) == 2, f"{len(sites)} sites", om.fn.loc())
    for fn, g, mf, n, c in sites:
        ctx.ob(f"{fn.name}: GOODBYE only when none was sent yet", ("truth", "self._goodbye_sent", None, False) in mf.at(n), "GOODBYE not guarded by `not self._goodbye_sent`", fn.loc(c))

        def closes(x):
            if x.kind != "stmt" or not isinstance(x.ast, ast.Assign):
                return False
            t, v = norm.text(x.ast.targets[0]), norm.text(x.ast.value)
            return (t == "self._goodbye_sent" and v == "True") or (t == "self._session_id" and v == "None")

        ctx.ob(f"{fn.name}: after GOODBYE the flag is set / the session ends on every path", g.always_followed_by(n, closes), "a second GOODBYE could be sent", fn.loc(c))
        if fn is om.fn:
            ctx.ob("reply GOODBYE is in the GOODBYE arm", om.arm_of_facts(mf.at(n)) == "Goodbye", "GOODBYE sent from another arm", fn.loc(c))
    lv = ctx.program.func(f"{APPSESSION}.leave")
    g, mf, res = an.get(lv)
    early = [n for n in g.stmt_nodes() if n.kind == "test" and norm.atoms(n.ast, True, res) == [("truth", "self._session_id", None, False)]]
    ok = len(early) == 1 and all(g.always_followed_by(m, lambda x: x.kind == "stmt" and isinstance(x.ast, ast.Return)) or (m.kind == "stmt" and isinstance(m.ast, ast.Return))
                                 for m, lab in early[0].succ if lab and lab[0] == "T")
    ctx.ob("leave() without a joined session sends nothing", ok, "leave() guard changed", lv.loc())
    jn = ctx.program.func(f"{APPSESSION}.join")
    ctx.ob("join() re-arms the GOODBYE flag for the new session", any(isinstance(s, ast.Assign) and norm.text(s.targets[0]) == "self._goodbye_sent" and norm.text(s.value) == "False" for s in walk_no_defs(jn.node)),
           "flag not reset", jn.loc())
    # Goodbye arm ends the session and notifies leave
    nodes = om.arm_nodes("Goodbye")
    g, mf = om.g, om.mf
    rs = [n for n in nodes if n.kind == "stmt" and isinstance(n.ast, ast.Assign) and norm.text(n.ast.targets[0]) == "self._session_id" and norm.text(n.ast.value) == "None"]
    ol = [(n, c) for n in nodes for c in node_calls(n) if call_name(c) == "txaio.as_future" and c.args and norm.text(c.args[0]) == "self.onLeave"]
    ok = len(rs) == 1 and len(ol) == 1 and g.always_preceded_by(ol[0][0], lambda x: x is rs[0])
    ctx.ob("peer GOODBYE: session id dropped, then onLeave", ok, "order changed", om.fn.loc())


def rule_pending_tables(ctx):
    ctx.rule("C06.3-pending-tables")
    an = get_analysis(ctx)
    init = ctx.program.func(f"{APPSESSION}.__init__")
    created = sorted(s.targets[0].attr for s in walk_no_defs(init.node) if isinstance(s, ast.Assign) and is_self_attr(s.targets[0]) and s.targets[0].attr.endswith("_reqs"))
    fn = ctx.program.func(f"{APPSESSION}._errback_outstanding_requests")
    ctx.analysed(fn)
    # the list of tables: a list/tuple literal of self.*_reqs attributes (assigned to a local or iterated directly)
    lits = [x for x in ast.walk(fn.node) if isinstance(x, (ast.List, ast.Tuple)) and x.elts and all(is_self_attr(e) and e.attr.endswith("_reqs") for e in x.elts)]
    ctx.require(len(lits) == 1, "_errback_outstanding_requests: table list not found")
    lit = lits[0]
    listed = sorted(e.attr for e in lit.elts)
    ctx.ob("every pending table created in __init__ is failed at session end", listed == created, f"created {created}, failed {listed}", fn.loc(lit))
    ctx.ob("six request kinds", len(created) == 6, f"{created}", init.loc())
    lname = None
    for st in walk_no_defs(fn.node):
        if isinstance(st, ast.Assign) and st.value is lit and isinstance(st.targets[0], ast.Name):
            lname = st.targets[0].id
    loops = [s_ for s_ in walk_no_defs(fn.node) if isinstance(s_, ast.For)]
    l1 = [l for l in loops if l.iter is lit or (lname is not None and norm.text(l.iter) == lname)]
    coll = None
    ok = False
    if len(l1) == 1 and isinstance(l1[0].target, ast.Name):
        tv = l1[0].target.id
        ext = [c for c in calls_in(l1[0]) if isinstance(c.func, ast.Attribute) and c.func.attr == "extend" and isinstance(c.func.value, ast.Name)
               and c.args and norm.text(c.args[0]) in (f"{tv}.values()", f"list({tv}.values())")]
        clr = [c for c in calls_in(l1[0]) if norm.text(c.func) == f"{tv}.clear"]
        if len(ext) == 1 and len(clr) == 1:
            coll = ext[0].func.value.id
            # the copy must be taken before the table is emptied
            ok = ext[0].lineno < clr[0].lineno or (ext[0].lineno == clr[0].lineno and ext[0].col_offset < clr[0].col_offset)
    ctx.ob("each table is drained into the outstanding list and cleared", ok, "collection loop changed", fn.loc())
    g, mf, res = an.get(fn)
    rej = [(n, c) for n in g.stmt_nodes() for c in node_calls(n) if call_name(c) == "txaio.reject"]
    l2 = [l for l in loops if coll is not None and norm.text(l.iter) == coll and isinstance(l.target, ast.Name)]
    rv = l2[0].target.id if len(l2) == 1 else None
    ok = len(rej) == 1 and rv is not None and norm.text(rej[0][1].args[0]) == f"{rv}.on_reply" and norm.text(rej[0][1].args[1]) == fn.params()[1] and \
        any(f[0] == "truth" and "is_called" in f[1] and f"{rv}.on_reply" in f[1] and not f[3] for f in mf.at(rej[0][0]))
    ctx.ob("every collected request is rejected with the given error unless already completed", ok, "reject changed", fn.loc())
    ctx.ob("the rejection loop runs over all collected requests", len(l2) == 1 and any(c is rej[0][1] for c in calls_in(l2[0])) if rej else False, "loop changed", fn.loc())
    for name in ("onLeave", "onDisconnect"):
        f2 = ctx.program.func(f"{APPSESSION}.{name}")
        g2, mf2, res2 = an.get(f2)
        calls = [(n, c) for n in g2.stmt_nodes() for c in node_calls(n) if self_call(c, "_errback_outstanding_requests")]
        ok = len(calls) == 1 and g2.always_followed_by(g2.entry, lambda x: x is calls[0][0])
        ctx.ob(f"{name}: always fails the outstanding requests", ok, "not on every path", f2.loc())
    # overrides inside the library (e.g. the pep8-style Session used by Component): an override that does not hand over to the base
    # implementation must itself fail the outstanding requests on every path -- else "leave nothing pending" is lost for that class
    from .common import is_test_module
    base = ctx.program.cls(APPSESSION)
    for c in ctx.program.subclasses(base):
        if is_test_module(c.module.name) or ".xbr" in c.module.name:
            continue
        for name in ("onLeave", "onDisconnect"):
            f2 = c.methods.get(name)
            if f2 is None:
                continue
            ctx.analysed(f2)
            g2, mf2, res2 = an.get(f2)

            def fails_them(n):
                for cc in node_calls(n):
                    if self_call(cc, "_errback_outstanding_requests"):
                        return True
                    t_ = norm.text(cc.func) or ""
                    if t_.endswith(f".{name}") and (t_.startswith("super()") or t_.split(".")[0] in [b.name for b in ctx.program.mro(c)[1:]]):
                        return True
                return False
            ctx.ob(f"{c.qualname}.{name} (override): the outstanding requests are failed on every path", g2.always_followed_by(g2.entry, fails_them, exc=False),
                   f"the override neither calls _errback_outstanding_requests() nor the base {name}(): a request pending when the session ends never completes",
                   f2.loc())
    od = ctx.program.func(f"{APPSESSION}.onDisconnect")
    from .common import canon_text
    eb = [c for c in calls_in(od.node) if self_call(c, "_errback_outstanding_requests")]
    ctx.ob("onDisconnect fails them with TransportLost", len(eb) == 1 and len(eb[0].args) == 1 and canon_text(od, eb[0].args[0]) == "exception.TransportLost()",
           f"fails them with {[canon_text(od, c.args[0]) for c in eb if c.args]}", od.loc())


def rule_onclose(ctx):
    ctx.rule("C06.4-transport-loss-path")
    an = get_analysis(ctx)
    fn = ctx.program.func(f"{APPSESSION}.onClose")
    ctx.analysed(fn)
    g, mf, res = an.get(fn)
    first = [n for n in g.stmt_nodes() if n.kind == "stmt" and not (isinstance(n.ast, ast.Expr) and isinstance(n.ast.value, ast.Constant))][0]
    ctx.ob("onClose drops the transport reference first", isinstance(first.ast, ast.Assign) and norm.text(first.ast.targets[0]) == "self._transport" and norm.text(first.ast.value) == "None",
           f"first statement {stmt_key(first.ast)}", fn.loc())
    ol = [(n, c) for n in g.stmt_nodes() for c in node_calls(n) if call_name(c) == "txaio.as_future" and c.args and norm.text(c.args[0]) == "self.onLeave"]
    ok = len(ol) == 1 and ("truth", "self._session_id", None, True) in mf.at(ol[0][0])
    ctx.ob("onLeave is fired on transport loss only for a joined session", ok, "leave guard changed", fn.loc())
    # exactly when: cell-wise over (joined or not) x (every other flag the function reads)
    from ..core.tiny import Tiny, Sym, TinyRaise
    import itertools
    flags = sorted({norm.text(x) for x in ast.walk(fn.node) if isinstance(x, ast.Attribute) and is_self_attr(x) and isinstance(x.ctx, ast.Load)
                    and x.attr.startswith("_") and x.attr not in ("_session_id", "_transport", "_swallow_error")})
    probs = []
    try:
        for sid, wc in itertools.product((None, 7), (True, False)):
            for fl in itertools.product((True, False), repeat=len(flags)):
                hooks = []

                def default(f_, a_, k_=None):
                    if f_ == "txaio.as_future" and a_:
                        hooks.append(a_[0].name if isinstance(a_[0], Sym) else repr(a_[0]))
                        return Sym("pending")
                    return Sym(f"<{f_}>")
                me = Sym("session", onLeave=Sym("onLeave"), onDisconnect=Sym("onDisconnect"), fire=Sym("fire"))
                env = {"self": me, "self._session_id": sid, "self._transport": Sym("transport"), fn.params()[1]: wc}
                env.update(dict(zip(flags, fl)))
                t = Tiny(env, default_call=default, opaque_globals=True)
                r = t.run([x for x in fn.node.body if not (isinstance(x, ast.Expr) and isinstance(x.value, ast.Constant))])
                want = (["onLeave"] if sid is not None else []) + ["onDisconnect"]
                cell = f"session {'joined' if sid else 'not joined'}, " + ", ".join(f"{k}={v}" for k, v in zip(flags, fl)) + f", wasClean={wc}"
                if r[0] not in ("fall", "return") or hooks != want:
                    probs.append(f"{cell}: notifies {hooks or 'nothing'} ({r[0]}), expected {want}")
                elif t.env.get("self._session_id") is not None or t.env.get("self._transport") is not None:
                    probs.append(f"{cell}: session id / transport reference survive the transport loss")
        ctx.ob(f"transport loss: onLeave exactly when a session was joined, then onDisconnect always; id and transport reference dropped [{2 ** (2 + len(flags))} cells]",
               not probs, "; ".join(probs[:2]), fn.loc())
    except AnalysisError as e:
        raise AnalysisError(f"[C06.4-transport-loss-path] onClose outside the modelled subset: {e}")
    rs = [n for n in g.stmt_nodes() if n.kind == "stmt" and isinstance(n.ast, ast.Assign) and norm.text(n.ast.targets[0]) == "self._session_id" and norm.text(n.ast.value) == "None"]
    ok = len(rs) == 1 and bool(ol) and g.always_followed_by(ol[0][0], lambda x: x is rs[0])
    ctx.ob("the session id is dropped on that path (leave cannot fire again)", ok, "session id not reset", fn.loc())
    od = [(n, c) for n in g.stmt_nodes() for c in node_calls(n) if call_name(c) == "txaio.as_future" and c.args and norm.text(c.args[0]) == "self.onDisconnect"]
    ok = len(od) == 1 and g.always_followed_by(g.entry, lambda x: x is od[0][0])
    ctx.ob("onDisconnect is reached on every path of onClose", ok, "disconnect notification can be skipped", fn.loc())
    succ = [c for c in fn.nested_list() if c.name == "success"]
    fired = [norm.text(c.args[0]) for s_ in succ for c in calls_in(s_.node) if self_call(c, "fire")]
    ctx.ob("leave then disconnect observers are fired", fired == ["'leave'", "'disconnect'"], f"fired {fired}", fn.loc())
    # transports
    for q, ref in TRANSPORT_LOSS:
        f2 = ctx.program.func(q)
        ctx.analysed(f2)
        g2, mf2, res2 = an.get(f2)
        calls = [(n, c) for n in g2.stmt_nodes() for c in node_calls(n) if norm.text(c.func) == f"{ref}.onClose"]
        ctx.ob(f"{q.split('.')[-2]}.{f2.name}: tells the session that the transport is gone", len(calls) == 1, f"{len(calls)} onClose calls", f2.loc())
        if calls:
            n = calls[0][0]
            wrapped = any(lab and lab[0] == "exc" for m, lab in n.succ)
            guarded = norm.not_none_known(mf2.at(n), ref) or wrapped
            ctx.ob(f"{q.split('.')[-2]}.{f2.name}: notification guarded against a missing session and wrapped", guarded and wrapped, "onClose not inside try/except", f2.loc(calls[0][1]))
            clear = [x for x in g2.stmt_nodes() if x.kind == "stmt" and isinstance(x.ast, ast.Assign) and norm.text(x.ast.targets[0]) == ref and norm.text(x.ast.value) == "None"]
            ctx.ob(f"{q.split('.')[-2]}.{f2.name}: session reference cleared afterwards (told exactly once)", bool(clear) and g2.always_followed_by(n, lambda x: x in clear),
                   "session reference kept: a second loss notification would call onClose again", f2.loc())


def rule_api_guards(ctx):
    ctx.rule("C06.5-api-after-end")
    an = get_analysis(ctx)
    for name in ("publish", "call", "subscribe", "register", "_unsubscribe", "_unregister"):
        fn = ctx.program.func(f"{APPSESSION}.{name}")
        ctx.analysed(fn)
        g, mf, res = an.get(fn)
        guards = [n for n in g.stmt_nodes() if n.kind == "test" and norm.atoms(n.ast, True, res) == [("truth", "self._transport", None, False)]]
        ok = len(guards) == 1 and all(m.kind == "stmt" and isinstance(m.ast, ast.Raise) and "TransportLost" in norm.text(m.ast.exc) for m, lab in guards[0].succ if lab and lab[0] == "T")
        ctx.ob(f"{name}: raises TransportLost when the transport is gone", ok, "guard missing", fn.loc())
        if ok:
            # "fail immediately": every path runs the guard, and nothing happens before it except argument checks
            before = g.reachable(g.entry, avoid=lambda x: x is guards[0])
            early = [n for n in g.stmt_nodes() if n.id in before and n is not guards[0] and n.kind == "stmt" and
                     (isinstance(n.ast, (ast.Return, ast.AugAssign, ast.Delete)) or
                      (isinstance(n.ast, ast.Assign) and not all(isinstance(t_, ast.Name) for t_ in n.ast.targets)) or
                      (isinstance(n.ast, ast.Expr) and isinstance(n.ast.value, ast.Call) and not (call_name(n.ast.value) or "").startswith(("message.check_or_raise", "self.log."))))]
            ctx.ob(f"{name}: the transport test comes first on every path (nothing is changed, sent or returned before it)",
                   g.always_followed_by(g.entry, lambda x: x is guards[0], exc=False) and not early,
                   f"the guard can be by-passed or is preceded by `{stmt_key(early[0].ast)[:60] if early else 'a path around it'}`", fn.loc(guards[0].ast))
        ids = [n for n in g.stmt_nodes() for c in node_calls(n) if norm.text(c.func) == "self._request_id_gen.next"]
        inner = [c for c in fn.nested_list() if c.name in ("_subscribe", "_register")]
        if guards and ids:
            ctx.ob(f"{name}: the guard precedes the id allocation", all(g.always_preceded_by(i, lambda x: x is guards[0]) for i in ids), "id allocated first", fn.loc())
        if guards and inner:
            defn = [n for n in g.stmt_nodes() if n.kind == "stmt" and n.ast is inner[0].node]
            ctx.ob(f"{name}: the guard precedes the request helper", bool(defn) and g.always_preceded_by(defn[0], lambda x: x is guards[0]), "helper reachable without the guard", fn.loc())


def run(ctx):
    rule_phase_gate(ctx)
    rule_goodbye(ctx)
    rule_pending_tables(ctx)
    rule_onclose(ctx)
    rule_api_guards(ctx)
