"""C06 - WAMP sessions end cleanly on every path and leave nothing pending."""
import ast

from ..core.index import AnalysisError, walk_no_defs, calls_in, call_name, kwarg
from ..core.cfg import node_calls
from ..core import norm
from .common import get_analysis, is_self_attr, self_call, stmt_key, APPSESSION
from .wampsess import get_onmessage, ALL_TABLES

META = {
    "explanation": "Phase-gate and teardown rules: before the session is established onMessage accepts exactly WELCOME/ABORT/CHALLENGE "
                   "(else ProtocolError), afterwards none of the handshake messages and an unknown message is a ProtocolError; every GOODBYE "
                   "send is guarded by `not _goodbye_sent` and followed by the flag / session reset; _errback_outstanding_requests covers "
                   "exactly the pending tables created in __init__, clears them and rejects what is not yet completed; onLeave and "
                   "onDisconnect both reach it; onClose drops the transport reference first and always reaches onDisconnect; every request "
                   "API refuses with TransportLost before allocating an id; the three transports notify the session once (guarded, wrapped, "
                   "reference cleared).",
    "assumptions": ["callback order under failing user callbacks and transport loss at every position is not decided (histories over futures)",
                    "session id 0 is excluded by the WAMP spec; `if self._session_id` truthiness tests are therefore equivalent to `is not None`"],
}

TRANSPORT_LOSS = [("autobahn.wamp.websocket.WampWebSocketProtocol.onClose", "self._session"),
                  ("autobahn.twisted.rawsocket.WampRawSocketProtocol.connectionLost", "self._session"),
                  ("autobahn.asyncio.rawsocket.WampRawSocketMixinAsyncio._on_connection_lost", "self._session")]


def rule_phase_gate(ctx):
    ctx.rule("C06.1-phase-gate")
    om = get_onmessage(ctx)
    g, mf, res = om.g, om.mf, om.res
    pre, est = set(), set()
    for n in g.stmt_nodes():
        if n.kind == "test":
            at = norm.atoms(n.ast, True, res)
            if len(at) == 1 and at[0][0] == "isinst" and at[0][1] == "msg":
                ph = om.phase_of_facts(mf.at(n))
                (pre if ph == "pre" else est if ph == "established" else set()).add(at[0][2].split(".")[-1])
    ctx.ob("before the session is established exactly WELCOME, ABORT, CHALLENGE are accepted", pre == {"Welcome", "Abort", "Challenge"}, f"accepted: {sorted(pre)}", om.fn.loc())
    hs = {"Hello", "Welcome", "Abort", "Challenge", "Authenticate"}
    ctx.ob("after the session is established no handshake message is accepted", not (est & hs), f"handshake messages handled after join: {sorted(est & hs)}", om.fn.loc())
    ctx.ob("the established phase handles the session messages", {"Goodbye", "Event", "Published", "Subscribed", "Unsubscribed", "Result", "Invocation", "Interrupt", "Registered", "Unregistered", "Error"} <= est,
           f"handled: {sorted(est)}", om.fn.loc())
    # final else of both phases raises ProtocolError
    gate = [n for n in g.stmt_nodes() if n.kind == "test" and norm.atoms(n.ast, True, res) == [("is", "self._session_id", ("c", None), True)]]
    ctx.require(len(gate) == 1, "phase gate `self._session_id is None` not found")
    for phase, arms in (("pre", pre), ("established", est)):
        last = [n for n in g.stmt_nodes() if n.kind == "test" and om.phase_of_facts(mf.at(n)) == phase and
                len(norm.atoms(n.ast, True, res)) == 1 and norm.atoms(n.ast, True, res)[0][0] == "isinst" and norm.atoms(n.ast, True, res)[0][1] == "msg"]
        ends = []
        for n in last:
            for m, lab in n.succ:
                if lab and lab[0] == "F" and not (m.kind == "test"):
                    ends.append(m)
        ok = len(ends) == 1 and ends[0].kind == "stmt" and isinstance(ends[0].ast, ast.Raise) and "ProtocolError" in norm.text(ends[0].ast.exc)
        ctx.ob(f"{phase}: any other message is a protocol violation", ok, "fall-through of the dispatch chain does not raise ProtocolError", om.fn.loc())
    # join() refuses when already joined
    j = ctx.program.func(f"{APPSESSION}.join")
    gj, mfj, resj = om.an.get(j)
    hello = [(n, c) for n in gj.stmt_nodes() for c in node_calls(n) if norm.text(c.func) == "self._transport.send"]
    ok = len(hello) == 1 and ("truth", "self._session_id", None, False) in mfj.at(hello[0][0]) and ("truth", "self._transport", None, True) in mfj.at(hello[0][0])
    ctx.ob("HELLO is sent only when not joined and a transport is attached", ok, "join() guards changed", j.loc())


def rule_goodbye(ctx):
    ctx.rule("C06.2-goodbye-once")
    om = get_onmessage(ctx)
    an = om.an
    sites = []
    for fn in [ctx.program.func(f"{APPSESSION}.leave"), om.fn]:
        g, mf, res = an.get(fn)
        ctors = [n for n in g.stmt_nodes() if n.kind == "stmt" and isinstance(n.ast, ast.Assign) and isinstance(n.ast.value, ast.Call)
                 and (call_name(n.ast.value) or "").endswith("message.Goodbye")]
        for a in ctors:
            v = norm.text(a.ast.targets[0])
            reass = lambda x, v=v, a=a: x is not a and x.kind == "stmt" and isinstance(x.ast, ast.Assign) and any(norm.text(t) == v for t in x.ast.targets)
            reach = g.reachable(a, avoid=reass)
            for n in g.stmt_nodes():
                if n.id not in reach:
                    continue
                for c in node_calls(n):
                    if norm.text(c.func) == "self._transport.send" and c.args and norm.text(c.args[0]) == v:
                        sites.append((fn, g, mf, n, c))
        # ... or built in place: self._transport.send(message.Goodbye(...))
        for n in g.stmt_nodes():
            for c in node_calls(n):
                if norm.text(c.func) == "self._transport.send" and c.args and isinstance(c.args[0], ast.Call) and (call_name(c.args[0]) or "").endswith("message.Goodbye"):
                    sites.append((fn, g, mf, n, c))
    ctx.ob("GOODBYE is sent from exactly two places (leave() and the reply to the peer's GOODBYE)", len(sites) == 2, f"{len(sites)} sites", om.fn.loc())
    for fn, g, mf, n, c in sites:
        ctx.ob(f"{fn.name}: GOODBYE only when none was sent yet", ("truth", "self._goodbye_sent", None, False) in mf.at(n), "GOODBYE not guarded by `not self._goodbye_sent`", fn.loc(c))

        def closes(x):
            if x.kind != "stmt" or not isinstance(x.ast, ast.Assign):
                return False
            t, v = norm.text(x.ast.targets[0]), norm.text(x.ast.value)
            return (t == "self._goodbye_sent" and v == "True") or (t == "self._session_id" and v == "None")

        ctx.ob(f"{fn.name}: after GOODBYE the flag is set / the session ends on every path", g.always_followed_by(n, closes), "a second GOODBYE could be sent", fn.loc(c))
        if fn is om.fn:
            ctx.ob("reply GOODBYE is in the GOODBYE arm", om.arm_of_facts(mf.at(n)) == "Goodbye", "GOODBYE sent from another arm", fn.loc(c))
    lv = ctx.program.func(f"{APPSESSION}.leave")
    g, mf, res = an.get(lv)
    early = [n for n in g.stmt_nodes() if n.kind == "test" and norm.atoms(n.ast, True, res) == [("truth", "self._session_id", None, False)]]
    ok = len(early) == 1 and all(g.always_followed_by(m, lambda x: x.kind == "stmt" and isinstance(x.ast, ast.Return)) or (m.kind == "stmt" and isinstance(m.ast, ast.Return))
                                 for m, lab in early[0].succ if lab and lab[0] == "T")
    ctx.ob("leave() without a joined session sends nothing", ok, "leave() guard changed", lv.loc())
    jn = ctx.program.func(f"{APPSESSION}.join")
    ctx.ob("join() re-arms the GOODBYE flag for the new session", any(isinstance(s, ast.Assign) and norm.text(s.targets[0]) == "self._goodbye_sent" and norm.text(s.value) == "False" for s in walk_no_defs(jn.node)),
           "flag not reset", jn.loc())
    # Goodbye arm ends the session and notifies leave
    nodes = om.arm_nodes("Goodbye")
    g, mf = om.g, om.mf
    rs = [n for n in nodes if n.kind == "stmt" and isinstance(n.ast, ast.Assign) and norm.text(n.ast.targets[0]) == "self._session_id" and norm.text(n.ast.value) == "None"]
    ol = [(n, c) for n in nodes for c in node_calls(n) if call_name(c) == "txaio.as_future" and c.args and norm.text(c.args[0]) == "self.onLeave"]
    ok = len(rs) == 1 and len(ol) == 1 and g.always_preceded_by(ol[0][0], lambda x: x is rs[0])
    ctx.ob("peer GOODBYE: session id dropped, then onLeave", ok, "order changed", om.fn.loc())


def rule_pending_tables(ctx, rule_id="C06.3-pending-tables"):
    ctx.rule(rule_id)
    an = get_analysis(ctx)
    init = ctx.program.func(f"{APPSESSION}.__init__")
    created = sorted(s.targets[0].attr for s in walk_no_defs(init.node) if isinstance(s, ast.Assign) and is_self_attr(s.targets[0]) and s.targets[0].attr.endswith("_reqs"))
    fn = ctx.program.func(f"{APPSESSION}._errback_outstanding_requests")
    ctx.analysed(fn)
    ctx.ob("six request kinds", len(created) == 6, f"{created}", init.loc())
    # decided cell-wise (sa.core.tiny, private helpers evaluated in place): each of the tables created in __init__ holds two requests, one
    # of them already completed.  Afterwards every table is empty and exactly the uncompleted requests have been rejected, once, with the
    # given error -- and the tables were already empty when the first errback ran (an errback may issue new requests: they must survive)
    from ..core.tiny import Tiny, Sym
    from .common import inline_private
    cls_ = ctx.program.cls(APPSESSION)
    body = [x for x in fn.node.body if not (isinstance(x, ast.Expr) and isinstance(x.value, ast.Constant))]
    probs = []
    try:
        for filled in ("all", "none", "only-completed"):
            tables, futures, done = {}, [], set()
            for i, nm in enumerate(created):
                tb = {}
                if filled != "none":
                    for j in range(2):
                        f_ = Sym(f"future-{nm}-{j}")
                        if j == 1 or filled == "only-completed":
                            done.add(f_.name)
                        futures.append(f_)
                        tb[10 * i + j] = Sym(f"request-{nm}-{j}", on_reply=f_, request_id=10 * i + j, __class__=Sym("class", __name__="Request"))
                tables[nm] = tb
            rejected, not_empty_at_reject = [], []
            exc = Sym("the-error")

            def oracle(f_, a_, k_=None):
                if f_ == "txaio.is_called" and a_:
                    return isinstance(a_[0], Sym) and a_[0].name in done
                if f_ == "txaio.reject" and a_:
                    if any(tables[nm_] for nm_ in tables):
                        not_empty_at_reject.append(a_[0])
                    rejected.append((a_[0], a_[1] if len(a_) > 1 else None))
                    return None
                return Sym(f"<{f_}>")
            env = {"self": Sym("session"), fn.params()[1]: exc, "self.log": Sym("log")}
            env.update({f"self.{nm}": tables[nm] for nm in created})
            t = Tiny(env, default_call=oracle, inline_self=inline_private(ctx, cls_, exclude=("_errback_outstanding_requests",)), opaque_globals=True)
            r = t.run(body)
            tag = {"all": "two requests per table, one of each already completed", "none": "no request pending", "only-completed": "only completed requests left"}[filled]
            if r[0] not in ("return", "fall"):
                probs.append(f"{tag}: {r[0]} {str(r[1])[:60]}")
                continue
            left = {nm: t.env.get(f"self.{nm}") for nm in created}
            if any(v for v in left.values()) or any(tables[nm] for nm in created):
                probs.append(f"{tag}: requests left in {[nm for nm in created if left[nm] or tables[nm]]}")
            want = [f_ for f_ in futures if f_.name not in done]
            if sorted(x[0].name for x in rejected if isinstance(x[0], Sym)) != sorted(f_.name for f_ in want) or any(x[1] is not exc for x in rejected):
                probs.append(f"{tag}: rejected {[x[0] for x in rejected]} (with the given error: {all(x[1] is exc for x in rejected)}), expected {want}")
            if not_empty_at_reject:
                probs.append(f"{tag}: the tables are not yet empty when the first errback runs -- a request issued from an errback is wiped without ever completing")
    except AnalysisError as e:
        raise AnalysisError(f"[C06.3-pending-tables] _errback_outstanding_requests outside the modelled subset: {e}")
    ctx.ob("every pending table created in __init__ is emptied, every uncompleted request in it rejected once with the given error, tables empty before the first errback [3 cells]",
           not probs, "; ".join(probs[:2]), fn.loc())
    g, mf, res = an.get(fn)
    for name in ("onLeave", "onDisconnect"):
        f2 = ctx.program.func(f"{APPSESSION}.{name}")
        g2, mf2, res2 = an.get(f2)
        calls = [(n, c) for n in g2.stmt_nodes() for c in node_calls(n) if self_call(c, "_errback_outstanding_requests")]
        ok = len(calls) == 1 and g2.always_followed_by(g2.entry, lambda x: x is calls[0][0])
        ctx.ob(f"{name}: always fails the outstanding requests", ok, "not on every path", f2.loc())
    # overrides inside the library (e.g. the pep8-style Session used by Component): an override that does not hand over to the base
    # implementation must itself fail the outstanding requests on every path -- else "leave nothing pending" is lost for that class
    from .common import is_test_module
    base = ctx.program.cls(APPSESSION)
    for c in ctx.program.subclasses(base):
        if is_test_module(c.module.name) or ".xbr" in c.module.name:
            continue
        for name in ("onLeave", "onDisconnect"):
            f2 = c.methods.get(name)
            if f2 is None:
                continue
            ctx.analysed(f2)
            g2, mf2, res2 = an.get(f2)

            def fails_them(n):
                for cc in node_calls(n):
                    if self_call(cc, "_errback_outstanding_requests"):
                        return True
                    t_ = norm.text(cc.func) or ""
                    if t_.endswith(f".{name}") and (t_.startswith("super()") or t_.split(".")[0] in [b.name for b in ctx.program.mro(c)[1:]]):
                        return True
                return False
            ctx.ob(f"{c.qualname}.{name} (override): the outstanding requests are failed on every path", g2.always_followed_by(g2.entry, fails_them, exc=False),
                   f"the override neither calls _errback_outstanding_requests() nor the base {name}(): a request pending when the session ends never completes",
                   f2.loc())
    od = ctx.program.func(f"{APPSESSION}.onDisconnect")
    from .common import canon_text
    eb = [c for c in calls_in(od.node) if self_call(c, "_errback_outstanding_requests")]
    ctx.ob("onDisconnect fails them with TransportLost", len(eb) == 1 and len(eb[0].args) == 1 and canon_text(od, eb[0].args[0]) == "exception.TransportLost()",
           f"fails them with {[canon_text(od, c.args[0]) for c in eb if c.args]}", od.loc())


def rule_onclose(ctx):
    ctx.rule("C06.4-transport-loss-path")
    an = get_analysis(ctx)
    fn = ctx.program.func(f"{APPSESSION}.onClose")
    ctx.analysed(fn)
    g, mf, res = an.get(fn)
    first = [n for n in g.stmt_nodes() if n.kind == "stmt" and not (isinstance(n.ast, ast.Expr) and isinstance(n.ast.value, ast.Constant))][0]
    ctx.ob("onClose drops the transport reference first", isinstance(first.ast, ast.Assign) and norm.text(first.ast.targets[0]) == "self._transport" and norm.text(first.ast.value) == "None",
           f"first statement {stmt_key(first.ast)}", fn.loc())
    ol = [(n, c) for n in g.stmt_nodes() for c in node_calls(n) if call_name(c) == "txaio.as_future" and c.args and norm.text(c.args[0]) == "self.onLeave"]
    ok = len(ol) == 1 and ("truth", "self._session_id", None, True) in mf.at(ol[0][0])
    ctx.ob("onLeave is fired on transport loss only for a joined session", ok, "leave guard changed", fn.loc())
    # exactly when: cell-wise over (joined or not) x (every other flag the function reads)
    from ..core.tiny import Tiny, Sym, TinyRaise
    import itertools
    flags = sorted({norm.text(x) for x in ast.walk(fn.node) if isinstance(x, ast.Attribute) and is_self_attr(x) and isinstance(x.ctx, ast.Load)
                    and x.attr.startswith("_") and x.attr not in ("_session_id", "_transport", "_swallow_error")})
    probs = []
    try:
        for sid, wc in itertools.product((None, 7), (True, False)):
            for fl in itertools.product((True, False), repeat=len(flags)):
                hooks = []

                def default(f_, a_, k_=None):
                    if f_ == "txaio.as_future" and a_:
                        hooks.append(a_[0].name if isinstance(a_[0], Sym) else repr(a_[0]))
                        return Sym("pending")
                    return Sym(f"<{f_}>")
                me = Sym("session", onLeave=Sym("onLeave"), onDisconnect=Sym("onDisconnect"), fire=Sym("fire"))
                env = {"self": me, "self._session_id": sid, "self._transport": Sym("transport"), fn.params()[1]: wc}
                env.update(dict(zip(flags, fl)))
                t = Tiny(env, default_call=default, opaque_globals=True)
                r = t.run([x for x in fn.node.body if not (isinstance(x, ast.Expr) and isinstance(x.value, ast.Constant))])
                want = (["onLeave"] if sid is not None else []) + ["onDisconnect"]
                cell = f"session {'joined' if sid else 'not joined'}, " + ", ".join(f"{k}={v}" for k, v in zip(flags, fl)) + f", wasClean={wc}"
                if r[0] not in ("fall", "return") or hooks != want:
                    probs.append(f"{cell}: notifies {hooks or 'nothing'} ({r[0]}), expected {want}")
                elif t.env.get("self._session_id") is not None or t.env.get("self._transport") is not None:
                    probs.append(f"{cell}: session id / transport reference survive the transport loss")
        ctx.ob(f"transport loss: onLeave exactly when a session was joined, then onDisconnect always; id and transport reference dropped [{2 ** (2 + len(flags))} cells]",
               not probs, "; ".join(probs[:2]), fn.loc())
    except AnalysisError as e:
        raise AnalysisError(f"[C06.4-transport-loss-path] onClose outside the modelled subset: {e}")
    rs = [n for n in g.stmt_nodes() if n.kind == "stmt" and isinstance(n.ast, ast.Assign) and norm.text(n.ast.targets[0]) == "self._session_id" and norm.text(n.ast.value) == "None"]
    ok = len(rs) == 1 and bool(ol) and g.always_followed_by(ol[0][0], lambda x: x is rs[0])
    ctx.ob("the session id is dropped on that path (leave cannot fire again)", ok, "session id not reset", fn.loc())
    od = [(n, c) for n in g.stmt_nodes() for c in node_calls(n) if call_name(c) == "txaio.as_future" and c.args and norm.text(c.args[0]) == "self.onDisconnect"]
    ok = len(od) == 1 and g.always_followed_by(g.entry, lambda x: x is od[0][0])
    ctx.ob("onDisconnect is reached on every path of onClose", ok, "disconnect notification can be skipped", fn.loc())
    # the success callbacks registered on the two notifications (whatever they are called): the closure of that name defined last before
    # the registration
    fired = []
    for c in sorted([c for c in calls_in(fn.node) if call_name(c) == "txaio.add_callbacks" and len(c.args) >= 2 and isinstance(c.args[1], (ast.Name, ast.Lambda))], key=lambda c: c.lineno):
        if isinstance(c.args[1], ast.Lambda):   # the success continuation written in place
            fired += [norm.text(c2.args[0]) for c2 in ast.walk(c.args[1].body) if isinstance(c2, ast.Call) and self_call(c2, "fire") and c2.args]
            continue
        cands = [f_ for f_ in fn.nested_list() if f_.name == c.args[1].id and f_.node.lineno < c.lineno]
        if cands:
            fired += [norm.text(c2.args[0]) for c2 in calls_in(cands[-1].node) if self_call(c2, "fire") and c2.args]
    ctx.ob("leave then disconnect observers are fired", fired == ["'leave'", "'disconnect'"], f"fired {fired}", fn.loc())
    # transports
    for q, ref in TRANSPORT_LOSS:
        f2 = ctx.program.func(q)
        ctx.analysed(f2)
        g2, mf2, res2 = an.get(f2)
        calls = [(n, c) for n in g2.stmt_nodes() for c in node_calls(n) if norm.text(c.func) == f"{ref}.onClose"]
        ctx.ob(f"{q.split('.')[-2]}.{f2.name}: tells the session that the transport is gone", len(calls) == 1, f"{len(calls)} onClose calls", f2.loc())
        if calls:
            n = calls[0][0]
            wrapped = any(lab and lab[0] == "exc" for m, lab in n.succ)
            guarded = norm.not_none_known(mf2.at(n), ref) or wrapped
            ctx.ob(f"{q.split('.')[-2]}.{f2.name}: notification guarded against a missing session and wrapped", guarded and wrapped, "onClose not inside try/except", f2.loc(calls[0][1]))
            clear = [x for x in g2.stmt_nodes() if x.kind == "stmt" and isinstance(x.ast, ast.Assign) and norm.text(x.ast.targets[0]) == ref and norm.text(x.ast.value) == "None"]
            ctx.ob(f"{q.split('.')[-2]}.{f2.name}: session reference cleared afterwards (told exactly once)", bool(clear) and g2.always_followed_by(n, lambda x: x in clear),
                   "session reference kept: a second loss notification would call onClose again", f2.loc())


def rule_api_guards(ctx):
    ctx.rule("C06.5-api-after-end")
    an = get_analysis(ctx)
    for name in ("publish", "call", "subscribe", "register", "_unsubscribe", "_unregister"):
        fn = ctx.program.func(f"{APPSESSION}.{name}")
        ctx.analysed(fn)
        g, mf, res = an.get(fn)
        guards = [n for n in g.stmt_nodes() if n.kind == "test" and norm.atoms(n.ast, True, res) == [("truth", "self._transport", None, False)]]
        ok = len(guards) == 1 and all(m.kind == "stmt" and isinstance(m.ast, ast.Raise) and "TransportLost" in norm.text(m.ast.exc) for m, lab in guards[0].succ if lab and lab[0] == "T")
        ctx.ob(f"{name}: raises TransportLost when the transport is gone", ok, "guard missing", fn.loc())
        if ok:
            # "fail immediately": every path runs the guard, and nothing happens before it except argument checks
            before = g.reachable(g.entry, avoid=lambda x: x is guards[0])
            early = [n for n in g.stmt_nodes() if n.id in before and n is not guards[0] and n.kind == "stmt" and
                     (isinstance(n.ast, (ast.Return, ast.AugAssign, ast.Delete)) or
                      (isinstance(n.ast, ast.Assign) and not all(isinstance(t_, ast.Name) for t_ in n.ast.targets)) or
                      (isinstance(n.ast, ast.Expr) and isinstance(n.ast.value, ast.Call) and not (call_name(n.ast.value) or "").startswith(("message.check_or_raise", "self.log."))))]
            ctx.ob(f"{name}: the transport test comes first on every path (nothing is changed, sent or returned before it)",
                   g.always_followed_by(g.entry, lambda x: x is guards[0], exc=False) and not early,
                   f"the guard can be by-passed or is preceded by `{stmt_key(early[0].ast)[:60] if early else 'a path around it'}`", fn.loc(guards[0].ast))
        ids = [n for n in g.stmt_nodes() for c in node_calls(n) if norm.text(c.func) == "self._request_id_gen.next"]
        inner = [c for c in fn.nested_list() if c.name in ("_subscribe", "_register")]
        if guards and ids:
            ctx.ob(f"{name}: the guard precedes the id allocation", all(g.always_preceded_by(i, lambda x: x is guards[0]) for i in ids), "id allocated first", fn.loc())
        if guards and inner:
            defn = [n for n in g.stmt_nodes() if n.kind == "stmt" and n.ast is inner[0].node]
            ctx.ob(f"{name}: the guard precedes the request helper", bool(defn) and g.always_preceded_by(defn[0], lambda x: x is guards[0]), "helper reachable without the guard", fn.loc())


def run(ctx):
    rule_phase_gate(ctx)
    rule_goodbye(ctx)
    rule_pending_tables(ctx)
    rule_onclose(ctx)
    rule_api_guards(ctx)
