"""C19 - Authentication signatures interoperate and mutual authentication is enforced.

Decides the FORMULA of every signature (which primitive is applied to which value, in which order, with which constants)
and the enforcement of the SCRAM server-signature gate. The numerical correctness of the primitives themselves (HMAC,
SHA, PBKDF2, Argon2, Ed25519, base64/base32) is not decided: they are library code outside the repository."""
import ast

from ..core.index import AnalysisError, FuncInfo, walk_no_defs, calls_in, call_name
from ..core.cfg import CFG, MustFacts, node_calls
from ..core.terms import TermEval, show, rewrite, subterms, mk_cat
from ..core import norm
from .common import is_self_attr, self_call, stmt_key, APPSESSION
from .wampsess import get_onmessage

AUTH = "autobahn.wamp.auth"
CS = "autobahn.wamp.cryptosign"

META = {
    "explanation": "Def-use term extraction (value numbering with inlining of repository helpers, normalised primitive spellings, "
                   "commutative ordering, constant folding) of the value returned by every signature function, compared with "
                   "reference terms written from RFC 5802 / WAMP-SCRAM, RFC 6238 / 4226, WAMP-CRA and WAMP-cryptosign; path "
                   "conditions of AuthScram.on_welcome (accept only under compare_digest of the recomputed server signature); "
                   "dominance of `res is None` over the session-id store and the join notification in the WELCOME arm.",
    "assumptions": ["hmac, hashlib, base64, binascii, struct, cryptography's PBKDF2HMAC, argon2.low_level.hash_secret, passlib's saslprep "
                    "and PyNaCl's SigningKey.sign implement their standards (numerical results of library primitives are not decided)",
                    "bit-level sensitivity of the signatures (every alteration changes the value) follows from the primitives, not from the formula"],
}

BYTES_KINDS = {"enc", "b64e", "b64d", "hmac", "hash", "pbkdf2", "unhex", "xor", "argon2", "pack", "b32d"}


def _alg(t):
    if t[0] == "g" and t[1].startswith("hashlib."):
        return t[1].split(".", 1)[1].lower()
    if t[0] == "c" and isinstance(t[1], str):
        return t[1].lower().replace("-", "")
    if t[0] == "call" and t[1][0] == "g" and "hashes." in t[1][1] and not t[2]:
        return t[1][1].rsplit(".", 1)[1].lower()
    return None


def _kw(t, name, pos):
    args, kwargs = (t[2], t[3]) if t[0] == "call" else (t[3], t[4])
    for _, k, v in kwargs:
        if k == name:
            return v
    return args[pos] if pos is not None and len(args) > pos else None


def _g(t, *names):
    return t[0] == "call" and t[1][0] == "g" and t[1][1] in names


def is_bytes(t):
    if t[0] in BYTES_KINDS:
        return True
    if t[0] == "c":
        return isinstance(t[1], bytes)
    if t[0] == "phi":
        return is_bytes(t[2]) and is_bytes(t[3])
    return False


_DIGEST_LEN = {"sha1": 20, "sha256": 32, "sha224": 28, "sha384": 48, "sha512": 64, "md5": 16}


def canon1(t):
    k = t[0]
    # --- folding of trivial python
    if k == "m" and t[1][0] == "c" and isinstance(t[1][1], str) and t[2] in ("upper", "lower") and not t[3]:
        return ("c", getattr(t[1][1], t[2])())
    if _g(t, "getattr") and len(t[2]) == 2 and t[2][0][0] == "g" and t[2][1][0] == "c":
        return ("g", t[2][0][1] + "." + t[2][1][1])
    if k == "call" and t[1][0] == "call" and False:
        return t
    # --- hmac / hashes
    if k == "m" and t[2] == "digest" and not t[3] and _g(t[1], "hmac.new", "hmac.HMAC"):
        key, msg, dm = _kw(t[1], "key", 0), _kw(t[1], "msg", 1), _kw(t[1], "digestmod", 2)
        a = _alg(dm) if dm is not None else None
        if key is not None and msg is not None and a:
            return ("hmac", a, key, msg)
    if _g(t, "hmac.digest") and len(t[2]) == 3 and _alg(t[2][2]):
        return ("hmac", _alg(t[2][2]), t[2][0], t[2][1])
    if k == "m" and t[2] == "digest" and not t[3] and t[1][0] == "call" and t[1][1][0] == "g":
        fn = t[1][1][1]
        if fn == "hashlib.new" and len(t[1][2]) == 2 and _alg(t[1][2][0]):
            return ("hash", _alg(t[1][2][0]), t[1][2][1])
        if fn.startswith("hashlib.") and len(t[1][2]) == 1 and fn != "hashlib.new":
            return ("hash", fn.split(".")[1].lower(), t[1][2][0])
    # --- encodings
    if _g(t, "base64.b64encode", "base64.standard_b64encode") and len(t[2]) == 1:
        return ("b64e", t[2][0])
    if k == "m" and t[2] in ("strip", "rstrip") and not t[3] and _g(t[1], "binascii.b2a_base64") and len(t[1][2]) == 1:
        return ("b64e", t[1][2][0])
    if _g(t, "base64.b64decode", "base64.standard_b64decode", "binascii.a2b_base64") and len(t[2]) == 1 and not t[3]:
        return ("b64d", t[2][0])
    if _g(t, "base64.b32decode") and len(t[2]) == 1 and not t[3]:
        return ("b32d", t[2][0])
    if _g(t, "binascii.a2b_hex", "binascii.unhexlify", "bytes.fromhex") and len(t[2]) == 1:
        return ("unhex", t[2][0])
    if _g(t, "binascii.b2a_hex", "binascii.hexlify") and len(t[2]) == 1:
        return ("hex", t[2][0])
    if k == "m" and t[2] == "hex" and not t[3] and is_bytes(t[1]):
        return ("dec", "ascii", ("hex", t[1]))
    if k == "m" and t[2] in ("encode", "decode") and len(t[3]) <= 1 and not t[4]:
        cs = "utf8" if not t[3] else (t[3][0][1] if t[3][0][0] == "c" else None)
        if isinstance(cs, str):
            cs = cs.lower().replace("-", "").replace("_", "")
            return ("enc" if t[2] == "encode" else "dec", cs, t[1])
    # --- helpers of the repository that stay symbolic
    if _g(t, "autobahn.util.xor") and len(t[2]) == 2:
        return ("xor",) + tuple(sorted(t[2], key=repr))
    if _g(t, "int") and len(t[2]) == 1:
        return ("int", t[2][0])
    if _g(t, "struct.pack") and len(t[2]) == 2:
        return ("pack", t[2][0], t[2][1])
    if k == "idx" and _g(t[1], "struct.unpack") and t[2] == ("c", 0) and len(t[1][2]) == 2:
        return ("unpack1", t[1][2][0], t[1][2][1])
    if _g(t, "int.from_bytes") and len(t[2]) >= 2 and t[2][1] == ("c", "big") and t[2][0][0] == "slice" and not t[3]:
        # int.from_bytes(x[a:a+4], "big") is struct.unpack(">I", x[a:a+4])[0]: a 4-octet big-endian unsigned integer
        sl = t[2][0]
        if sl[3] in (("op", "+", ("c", 4), sl[2]), ("op", "+", sl[2], ("c", 4))) or (sl[2] == ("c", None) and sl[3] == ("c", 4)):
            return ("unpack1", ("c", ">I"), sl)
    if _g(t, "time.time") and not t[2]:
        return ("now",)
    # --- PBKDF2 (cryptography) / hashlib.pbkdf2_hmac
    if k == "m" and t[2] == "derive" and len(t[3]) == 1 and t[1][0] == "call" and t[1][1][0] == "g" and t[1][1][1].endswith("PBKDF2HMAC"):
        c = t[1]
        a = _alg(_kw(c, "algorithm", 0)) if _kw(c, "algorithm", 0) is not None else None
        return ("pbkdf2", a, t[3][0], _kw(c, "salt", 2), _kw(c, "iterations", 3), _kw(c, "length", 1))
    if _g(t, "hashlib.pbkdf2_hmac") and len(t[2]) >= 4:
        return ("pbkdf2", _alg(t[2][0]), t[2][1], t[2][2], t[2][3], t[2][4] if len(t[2]) > 4 else _kw(t, "dklen", None))
    if k == "idx" and t[1][0] == "m" and t[1][2] == "split" and t[1][3] == (("c", b"$"),) and t[2] == ("c", 5) and t[1][1][0] == "call":
        c = t[1][1]
        if c[1][0] == "g" and c[1][1].endswith("hash_secret"):
            kw = {k_: v_ for _, k_, v_ in c[3]}
            return ("argon2", kw.get("secret"), kw.get("salt"), kw.get("time_cost"), kw.get("memory_cost"), kw.get("parallelism"),
                    kw.get("hash_len"), kw.get("type"), kw.get("version"))
    # --- `x.encode('utf8') if type(x) == str else x`
    if k == "phi" and t[1][0] == "cmp" and t[1][1] == "==" and t[1][2] == ("call", ("g", "type"), (t[3],), ()) and t[1][3] == ("g", "str") \
            and t[2] == ("enc", "utf8", t[3]):
        return t[3] if is_bytes(t[3]) else ("tobytes", t[3])
    if k == "phi" and t[2] == t[3]:
        return t[2]
    if k == "tobytes" and is_bytes(t[1]):
        return t[1]
    if k == "op" and t[1] == "+":
        strs = {"dec", "cat", "fmt"}
        nums = {"int", "unpack1", "now"}
        if t[2][0] in strs or t[3][0] in strs:
            return mk_cat([x if x[0] in ("cat", "fmt") or (x[0] == "c" and isinstance(x[1], str)) else ("fmt", x, "+") for x in (t[2], t[3])])
        if t[2][0] in nums or t[3][0] in nums:
            return ("op", "+", *sorted([t[2], t[3]], key=repr))
    if k == "op" and t[1] == "%" and t[2][0] == "c" and isinstance(t[2][1], str) and t[2][1].count("%") == 1 and t[3][0] not in ("list", "tuple", "dict"):
        # printf-style formatting of one value: '%06d' % x is the replacement field {x:06d}
        import re as _re
        m_ = _re.match(r"^(.*?)%([-0 #+]*\d*(?:\.\d+)?)([dsxX])(.*)$", t[2][1], _re.S)
        if m_:
            spec = "" if m_.group(3) == "s" and not m_.group(2) else m_.group(2) + m_.group(3)
            parts = ([("c", m_.group(1))] if m_.group(1) else []) + [("fmt", t[3], spec)] + ([("c", m_.group(4))] if m_.group(4) else [])
            return mk_cat(parts)
    if k == "idx" and t[2][0] == "c" and isinstance(t[2][1], int) and t[2][1] < 0 and t[1][0] in ("hmac", "hash") and t[1][1] in _DIGEST_LEN:
        return ("idx", t[1], ("c", _DIGEST_LEN[t[1][1]] + t[2][1]))  # digest[-1] of a 20-octet SHA-1 value is digest[19]
    if k == "cat":
        return mk_cat(list(t[1:]))
    if k == "fmt" and t[2] in ("", "!s") and t[1][0] == "c" and isinstance(t[1][1], str):
        return t[1]
    if k == "fmt" and t[2] in ("+", "!s"):
        return ("fmt", t[1], "")  # str operand of `+` / explicit !s: same text as the plain replacement field
    return t


def canon(t):
    prev = None
    while prev != t:
        prev = t
        t = rewrite(t, canon1)
    return t


def make_inline(ctx, modules):
    p = ctx.program

    def inline(call, fn):
        r = p.resolve_name(fn.module, call.func)
        if isinstance(r, FuncInfo) and r.module.name in modules:
            ctx.analysed(r)
            return r
        # self.method() inside a class of the analysed modules
        if isinstance(call.func, ast.Attribute) and isinstance(call.func.value, ast.Name) and call.func.value.id == "self" and fn.cls is not None:
            m = p.lookup_method(fn.cls, call.func.attr)
            if m is not None and m.module.name in modules and not any(isinstance(d, ast.Name) and d.id == "property" for d in m.node.decorator_list):
                ctx.analysed(m)
                return m
        return None

    return inline


def ret_term(ctx, fn, inline, args=None):
    te = TermEval(ctx.program, fn, inline=inline, args=args).run()
    rets = [o for o in te.outcomes if o.kind == "return"]
    return te, rets


def expect(ctx, what, got, ref, loc):
    g, r = canon(got), canon(ref)
    ok = g == r
    msg = ""
    if not ok:
        msg = f"computed value is  {show(g)[:700]}  -- the specification requires  {show(r)[:700]}"
    return ctx.ob(what, ok, msg, loc)


# small constructors for the reference terms
def C(v):
    return ("c", v)


def P(n):
    return ("p", n)


def IDX(b, k):
    return ("idx", b, C(k) if not isinstance(k, tuple) else k)


def ATTR(b, n):
    return ("attr", b, n)


def HMAC(alg, key, msg):
    return ("hmac", alg, key, msg)


def FMT(t, spec=""):
    return ("fmt", t, spec)


# ------------------------------------------------------------------------------------------
def rule_scram(ctx):
    ctx.rule("C19.1-scram-formulas")
    p = ctx.program
    inline = make_inline(ctx, {AUTH})
    oc = p.func(f"{AUTH}.AuthScram.on_challenge")
    ow = p.func(f"{AUTH}.AuthScram.on_welcome")
    ctx.analysed(oc, ow)
    te, rets = ret_term(ctx, oc, inline)
    ctx.require(len(rets) == 1, f"AuthScram.on_challenge: expected one return, found {len(rets)}")
    extra = ATTR(P("challenge"), "extra")
    args = ATTR(P("self"), "_args")
    password = ("enc", "utf8", IDX(args, "password"))
    authid = ("call", ("g", "passlib.utils.saslprep"), (IDX(args, "authid"),), ())
    salt = IDX(extra, "salt")
    iters = ("int", IDX(extra, "iterations"))
    memory = ("int", ("m", extra, "get", (C("memory"), C(-1)), ()))
    snonce = IDX(extra, "nonce")
    cb = ("m", extra, "get", (C("channel_binding"), C("")), ())
    cnonce = ATTR(P("self"), "_client_nonce")
    # RFC 5802 section 3 / 5.1: the messages are UTF-8 (user names are SASLprep'ed Unicode, not necessarily ASCII)
    auth_message = ("enc", "utf8", ("cat", C("n="), FMT(authid), C(",r="), FMT(cnonce), C(",r="), FMT(snonce), C(",s="), FMT(salt), C(",i="), FMT(iters),
                                     C(",c="), FMT(cb), C(",r="), FMT(snonce)))
    sp_argon = ("argon2", password, ("b64d", salt), iters, memory, C(1), C(32), ("g", "argon2.Type.ID"), C(0x13))
    sp_pbkdf2 = ("pbkdf2", "sha256", password, ("b64d", salt), iters, C(32))
    kdf = IDX(extra, "kdf")
    sp = ("phi", ("cmp", "==", kdf, C("argon2id-13")), sp_argon, sp_pbkdf2)

    got_am = te.env.get("self._auth_message")
    got_sp = te.env.get("self._salted_password")
    ctx.require(got_am is not None and got_sp is not None, "AuthScram.on_challenge no longer stores _auth_message / _salted_password")
    expect(ctx, "SCRAM AuthMessage = client-first-bare , server-first , client-final-without-proof (n=,r= | r=,s=,i= | c=,r=)", got_am, auth_message, oc.loc())
    gsp = canon(got_sp)
    ok_shape = gsp[0] == "phi" and canon(gsp[1]) == canon(sp[1])
    ctx.ob("SCRAM KDF is selected by the challenge's kdf ('argon2id-13' / 'pbkdf2'), anything else is refused",
           ok_shape and any(o.kind == "raise" and any(c == (("cmp", "==", canon(kdf), C("pbkdf2")), False) for c in [(canon(x), pl) for x, pl in o.conds]) for o in te.outcomes),
           f"selection is {show(gsp[1]) if gsp[0] == 'phi' else show(gsp)[:200]}", oc.loc())
    if ok_shape:
        expect(ctx, "SCRAM SaltedPassword (argon2id-13) = Argon2id v1.3(password utf8, base64-decoded salt, t=iterations, m=memory, p=1, 32 bytes)", gsp[2], sp_argon, oc.loc())
        expect(ctx, "SCRAM SaltedPassword (pbkdf2) = PBKDF2-HMAC-SHA256(password utf8, base64-decoded salt, iterations, 32 bytes)", gsp[3], sp_pbkdf2, oc.loc())
    # proof, with the stored fields as symbols
    SP, AM = ("sym", "SaltedPassword"), ("sym", "AuthMessage")

    def abstract(t):
        t = canon(t)
        return rewrite(t, lambda x: SP if x == gsp else (AM if x == canon(got_am) else x))
    ck = HMAC("sha256", SP, C(b"Client Key"))
    proof = ("b64e", ("xor",) + tuple(sorted([ck, HMAC("sha256", ("hash", "sha256", ck), AM)], key=repr)))
    g = abstract(rets[0].term)
    ctx.ob("SCRAM ClientProof = base64(ClientKey XOR HMAC(SHA256(ClientKey), AuthMessage)), ClientKey = HMAC(SaltedPassword, 'Client Key')", g == proof,
           f"computed value is  {show(g)[:600]}  -- RFC 5802 section 3 requires  {show(proof)[:600]}", oc.loc(rets[0].node))
    # the memory parameter is mandatory for argon2
    ctx.ob("SCRAM argon2id-13 without 'memory' is refused", any(o.kind == "raise" and any(canon(c) == ("cmp", "==", canon(memory), C(-1)) and pl for c, pl in o.conds) for o in te.outcomes),
           "missing memory parameter not refused", oc.loc())

    # ---- on_welcome
    tw = TermEval(p, ow, inline=inline).run()
    sps, ams = ATTR(P("self"), "_salted_password"), ATTR(P("self"), "_auth_message")
    server_sig = HMAC("sha256", HMAC("sha256", sps, C(b"Server Key")), ams)
    authx = P(ow.params()[2])
    alleged = ("b64d", IDX(authx, "scram_server_signature"))
    cd_ok = ("call", ("g", "hmac.compare_digest"), None, ())
    n_accept = 0
    for o in tw.outcomes:
        if o.kind != "return":
            continue
        accept = o.term == C(None)
        if not accept:
            if not (o.term[0] == "c" and o.term[1]):
                ctx.ob(f"on_welcome: `{stmt_key(o.node)}` is a decided verdict", False, f"returns {show(o.term)[:100]}: neither None (accept) nor a constant reason (reject)", ow.loc(o.node))
            continue
        n_accept += 1
        # path condition must contain compare_digest(server_sig, alleged) == True
        gate = None
        for c, pol in o.conds:
            c = canon(c)
            while c[0] == "un" and c[1] == "not":
                c, pol = c[2], not pol
            if c[0] == "call" and c[1] == ("g", "hmac.compare_digest") and pol:
                gate = c
        ctx.ob(f"on_welcome accepts (`{stmt_key(o.node)}`) only after hmac.compare_digest said equal", gate is not None,
               "a path returns None (session accepted) without a successful constant-time comparison of the server signature", ow.loc(o.node))
        if gate is not None:
            a = sorted(gate[2], key=repr)
            ref = sorted([server_sig, alleged], key=repr)
            ctx.ob("the compared values are HMAC(HMAC(SaltedPassword,'Server Key'), AuthMessage) and the base64-decoded scram_server_signature of the WELCOME",
                   len(a) == 2 and a == [canon(x) for x in ref] or a == ref,
                   f"compared: {show(a[0])[:300]}  vs  {show(a[1])[:300] if len(a) > 1 else ''}", ow.loc(o.node))
    ctx.ob("on_welcome has an accepting path", n_accept >= 1, "no path returns None", ow.loc())
    # the key material of the check comes only from on_challenge
    for attr in ("_salted_password", "_auth_message"):
        writers = []
        for m in p.cls(f"{AUTH}.AuthScram").methods.values():
            for s in walk_no_defs(m.node):
                if isinstance(s, (ast.Assign, ast.AnnAssign, ast.AugAssign)):
                    for t in (s.targets if isinstance(s, ast.Assign) else [s.target]):
                        if is_self_attr(t, attr):
                            writers.append(m.name)
        ctx.ob(f"AuthScram.{attr} is written by on_challenge only", sorted(set(writers)) == ["on_challenge"],
               f"written by {sorted(set(writers))}: a WELCOME without a preceding CHALLENGE must not find usable key material", ow.loc())
    # nonce
    ax = p.func(f"{AUTH}.AuthScram.authextra")
    ta, ra = ret_term(ctx, ax, inline)
    nonce_src = [x for x in subterms(canon(ta.env.get("self._client_nonce", C(None)))) if x[0] == "call" and x[1] == ("g", "os.urandom")]
    ctx.ob("the client nonce is fresh randomness from os.urandom (>= 16 bytes)", bool(nonce_src) and all(a[2][0][0] == "c" and a[2][0][1] >= 16 for a in nonce_src),
           "client nonce not taken from os.urandom", ax.loc())


# ------------------------------------------------------------------------------------------
def rule_cra(ctx):
    ctx.rule("C19.2-wampcra-formulas")
    p = ctx.program
    inline = make_inline(ctx, {AUTH})
    cw = p.func(f"{AUTH}.compute_wcs")
    te, rets = ret_term(ctx, cw, inline)
    ctx.require(len(rets) == 1, "compute_wcs: single return expected")
    ref = ("b64e", HMAC("sha256", ("tobytes", P("key")), ("tobytes", P("challenge"))))
    expect(ctx, "compute_wcs(key, challenge) = base64(HMAC-SHA256(key, challenge))", rets[0].term, ref, cw.loc())
    dk = p.func(f"{AUTH}.derive_key")
    te, rets = ret_term(ctx, dk, inline)
    ctx.require(len(rets) == 1, "derive_key: single return expected")
    ref = ("b64e", ("pbkdf2", "sha256", ("tobytes", P("secret")), ("tobytes", P("salt")), P("iterations"), P("keylen")))
    expect(ctx, "derive_key(secret, salt, iterations, keylen) = base64(PBKDF2-HMAC-SHA256(secret, salt, iterations, keylen))", rets[0].term, ref, dk.loc())
    defaults = {a.arg: d for a, d in zip(dk.node.args.args[-len(dk.node.args.defaults):], dk.node.args.defaults)}
    ctx.ob("derive_key defaults: 1000 iterations, 32 bytes", {k: getattr(v, "value", None) for k, v in defaults.items()} == {"iterations": 1000, "keylen": 32},
           f"defaults {[(k, ast.unparse(v)) for k, v in defaults.items()]}", dk.loc())
    pb = p.func(f"{AUTH}.pbkdf2")
    te, rets = ret_term(ctx, pb, inline)
    ctx.require(len(rets) == 1, "pbkdf2: single return expected")
    got = canon(rets[0].term)
    ok = got[0] == "pbkdf2" and got[2:] == (P("data"), P("salt"), P("iterations"), P("keylen"))
    ctx.ob("pbkdf2(data, salt, iterations, keylen) passes its arguments to PBKDF2-HMAC in that role", ok, f"computed {show(got)[:300]}", pb.loc())
    # default hash: sha256 (term with hashfunc=None)
    te2 = TermEval(p, pb, inline=inline, args={"hashfunc": C(None)}).run()
    r2 = [o for o in te2.outcomes if o.kind == "return"]
    g2 = canon(r2[0].term) if r2 else None
    ctx.ob("pbkdf2 uses SHA-256 unless told otherwise", g2 is not None and g2[0] == "pbkdf2" and g2[1] == "sha256", f"default algorithm {g2[1] if g2 else None}", pb.loc())
    oc = p.func(f"{AUTH}.AuthWampCra.on_challenge")
    te, rets = ret_term(ctx, oc, inline)
    ctx.require(len(rets) == 1, "AuthWampCra.on_challenge: single return expected")
    extra = ATTR(P("challenge"), "extra")
    secret = ("enc", "utf8", ATTR(P("self"), "_secret"))
    derived = ("b64e", ("pbkdf2", "sha256", secret, ("tobytes", IDX(extra, "salt")), IDX(extra, "iterations"), IDX(extra, "keylen")))
    key = ("phi", ("cmp", "in", C("salt"), extra), derived, secret)
    ref = ("dec", "ascii", ("b64e", HMAC("sha256", key, ("enc", "utf8", IDX(extra, "challenge")))))
    expect(ctx, "WAMP-CRA signature = base64(HMAC-SHA256(key, challenge)), key = secret or base64(PBKDF2(secret, salt, iterations, keylen)) when salted",
           rets[0].term, ref, oc.loc())


# ------------------------------------------------------------------------------------------
def rule_totp(ctx):
    ctx.rule("C19.3-totp-formula")
    p = ctx.program
    inline = make_inline(ctx, {AUTH})
    ct = p.func(f"{AUTH}.compute_totp")
    te, rets = ret_term(ctx, ct, inline)
    ctx.require(len(rets) == 1, "compute_totp: single return expected")
    counter = ("op", "+", *sorted([P("offset"), ("op", "//", ("int", ("now",)), C(30))], key=repr))
    D = HMAC("sha1", ("b32d", P("secret")), ("pack", C(">Q"), counter))
    O = ("op", "&", *sorted([C(15), IDX(D, 19)], key=repr))
    word = ("unpack1", C(">I"), ("slice", D, O, ("op", "+", *sorted([O, C(4)], key=repr))))
    code = ("op", "%", ("op", "&", *sorted([word, C(0x7FFFFFFF)], key=repr)), C(1000000))
    ref = ("cat", FMT(code, "06d"))
    expect(ctx, "TOTP = zero-padded 6 digits of (dynamic truncation of HMAC-SHA1(base32 secret, 8-byte big-endian floor(time/30)+offset) & 0x7fffffff) mod 10^6 (RFC 6238 / 4226 5.3)",
           rets[0].term, ref, ct.loc())
    ck = p.func(f"{AUTH}.check_totp")
    ctx.analysed(ck)
    # cell-wise: the ticket is the code of time step 0, +1, -1, +2, -2 or something else; accepted iff it is one of the first three
    from ..core.tiny import Tiny, Sym
    codes = {}

    def default(f_, a_, k_=None):
        if f_ == "compute_totp":
            off = a_[1] if len(a_) > 1 else (k_ or {}).get("offset", 0)
            return codes.setdefault(off, Sym(f"code({off})"))
        return Sym(f"<{f_}>")
    probs = []
    asked = set()
    try:
        for which in (0, 1, -1, 2, -2, "other"):
            codes.clear()
            for off in (0, 1, -1, 2, -2):
                codes[off] = Sym(f"code({off})")
            ticket = codes[which] if which != "other" else Sym("some other ticket")
            t = Tiny({ck.params()[0]: Sym("secret"), ck.params()[1]: ticket}, default_call=default)
            r = t.run([x for x in ck.node.body if not (isinstance(x, ast.Expr) and isinstance(x.value, ast.Constant))])
            asked |= {a[1] for f_, a, k_ in [x for x in t.trace if len(x) == 3] if f_ == "compute_totp" and len(a) > 1}
            want = which in (0, 1, -1)
            if r[0] != "return" or bool(r[1]) != want or not isinstance(r[1], bool):
                probs.append(f"ticket = {ticket}: check_totp gives {r}")
        ctx.ob("check_totp accepts exactly the codes of the current and the two adjacent time steps and rejects everything else [6 cells]", not probs,
               "; ".join(probs[:3]), ck.loc())
    except AnalysisError as e:
        raise AnalysisError(f"[C19.3-totp-formula] check_totp outside the modelled subset: {e}")


# ------------------------------------------------------------------------------------------
def rule_cryptosign(ctx):
    ctx.rule("C19.4-cryptosign-formula")
    p = ctx.program
    if CS not in p.modules:
        raise AnalysisError("autobahn.wamp.cryptosign not found")
    inline = make_inline(ctx, {CS})
    fc = p.func(f"{CS}._format_challenge")
    ch = ("unhex", IDX(ATTR(P("challenge"), "extra"), "challenge"))
    # by cases on the binding type (the order in which the code tests them is irrelevant)
    for btype, want, label in (("tls-unique", ("xor",) + tuple(sorted([ch, P("channel_id_raw")], key=repr)), "challenge XOR channel id under 'tls-unique' binding"),
                               (None, ch, "the raw challenge without binding")):
        te_c = TermEval(p, fc, inline=inline, args={"channel_id_type": C(btype)}).run()
        rets_c = [o for o in te_c.outcomes if o.kind == "return"]
        if len(rets_c) == 1:
            expect(ctx, f"cryptosign: signed message = {label}", rets_c[0].term, want, fc.loc())
        else:
            ctx.ob(f"cryptosign: signed message = {label}", False, f"{len(rets_c)} return paths for channel_id_type={btype!r}", fc.loc())
    te_o = TermEval(p, fc, inline=inline, args={"channel_id_type": C("some-other-binding")}).run()
    ctx.ob("cryptosign: an unknown channel binding type is refused, not signed unbound", not [o for o in te_o.outcomes if o.kind == "return"] and
           bool([o for o in te_o.outcomes if o.kind == "raise"]), "a message is produced for an unknown channel_id_type", fc.loc())
    te = TermEval(p, fc, inline=inline).run()
    lens = [o for o in te.outcomes if o.kind == "raise" and any(canon(c)[0] == "cmp" and canon(c)[1] == "!=" and C(64) in canon(c)[2:] and pl for c, pl in o.conds)]
    ctx.ob("cryptosign: a challenge that is not 64 hex digits (32 bytes) is refused", bool(lens), "length check missing", fc.loc())
    # xor helper
    xf = p.func("autobahn.util.xor")
    ctx.analysed(xf)
    gx = CFG(xf.node)
    rais = [n for n in gx.stmt_nodes() if n.kind == "stmt" and isinstance(n.ast, ast.Raise)]
    mf = MustFacts(gx, resolver=norm.Resolver(p, xf.module, None))
    lenraise = any(("eq", "len(d1)", ("e", "len(d2)"), False) in (mf.at(n) or ()) or ("eq", "len(d2)", ("e", "len(d1)"), False) in (mf.at(n) or ()) for n in rais)
    ctx.ob("util.xor refuses operands of different length", lenraise, "length check missing in xor()", xf.loc())
    from ..core.tiny import Tiny, Sym
    probs = []
    try:
        for n_ in (0, 1, 3):
            d1 = [Sym(f"a{i}") for i in range(n_)]
            d2 = [Sym(f"b{i}") for i in range(n_)]

            def default(f_, a_, k_=None):
                if f_ == "type":
                    return "bytes"
                if f_ == "array":
                    return list(a_[1])
                return Sym(f"<{f_}>")
            t = Tiny({xf.params()[0]: list(d1), xf.params()[1]: list(d2), "bytes": "bytes"}, default_call=default)
            r = t.run([x for x in xf.node.body if not (isinstance(x, ast.Expr) and isinstance(x.value, ast.Constant))])
            okx = r[0] == "return" and isinstance(r[1], list) and len(r[1]) == n_ and \
                all(isinstance(x, tuple) and x[0] == "xor" and {id(x[1]), id(x[2])} == {id(a), id(b)} for x, a, b in zip(r[1], d1, d2))
            if not okx:
                probs.append(f"operands of {n_} octets: result {r}")
        ctx.ob("util.xor XORs every byte position of d1 with the same position of d2 [symbolic octets, lengths 0, 1, 3]", not probs, "; ".join(probs[:2]), xf.loc())
    except AnalysisError as e:
        # not in the symbolic subset (e.g. arithmetic on whole integers instead of per octet): concrete operands can still REFUTE it -- equal
        # leading octets, all-zero results, empty operands -- but they cannot establish it for all values
        cex = []
        for a_, b_ in ((b"", b""), (b"\x01", b"\x01"), (b"\x12\x34\x56", b"\x12\x00\x56"), (b"\xff\x00", b"\x00\xff"), (b"\x00\x00\x01", b"\x00\x00\x03")):
            def conc(f_, args_, k_=None):
                if f_ == "array":
                    return list(args_[1]) if isinstance(args_[1], (bytes, list)) else []
                if f_ == "int.from_bytes":
                    from ..core.tiny import _to_py
                    return int.from_bytes(_to_py(args_[0]) or b"", *args_[1:])
                return Sym(f"<{f_}>")
            try:
                from ..core.tiny import _to_py, Buf
                tt = Tiny({xf.params()[0]: a_ if a_ else Buf(0, 0), xf.params()[1]: b_ if b_ else Buf(0, 0)}, default_call=conc, model_strings=True, model_types=True)
                rr = tt.run([x for x in xf.node.body if not (isinstance(x, ast.Expr) and isinstance(x.value, ast.Constant))])
            except AnalysisError:
                continue
            want = bytes(x ^ y for x, y in zip(a_, b_))
            got = _to_py(rr[1]) if rr[0] == "return" else None
            got = bytes(got) if isinstance(got, list) and all(isinstance(x, int) for x in got) else (got.encode("latin1") if isinstance(got, str) and got == "" else got)
            if rr[0] != "return" or got != want:
                cex.append(f"xor({a_!r}, {b_!r}) gives {got!r} ({rr[0]}), expected {want!r}")
        if cex:
            ctx.ob("util.xor XORs every byte position of d1 with the same position of d2 [concrete counter-example]", False, "; ".join(cex[:2]), xf.loc())
        else:
            raise AnalysisError(f"[C19.4-cryptosign-formula] util.xor outside the modelled subset: {e}")
    # _sign_challenge
    sc = p.func(f"{CS}._sign_challenge")
    ctx.analysed(sc)
    ts = TermEval(p, sc, inline=inline).run()
    rs = [o for o in ts.outcomes if o.kind == "return"]
    procs = [c for c in sc.nested_list() if c.name == "process"]
    ctx.require(len(procs) == 1 and len(rs) == 1, "_sign_challenge: process closure / return not found")
    tp = TermEval(p, procs[0], inline=inline, outer_env=ts.env).run()
    res = [(c, t) for c, t, st in tp.effects if t[0] == "call" and t[1] == ("g", "txaio.resolve")]
    fut = rs[0].term   # the returned future, whatever local holds it
    sigp = P(procs[0].params()[0])
    ref = ("cat", FMT(("dec", "ascii", ("hex", sigp)), "+"), FMT(("dec", "ascii", ("hex", P("data"))), "+"))
    ok = len(res) == 1 and res[0][1][2][0] == fut and isinstance(fut, tuple) and fut[0] == "call"
    ctx.ob("cryptosign: the future returned by _sign_challenge is the one resolved with the result", ok, "returned future is not the resolved one", sc.loc())
    if res:
        expect(ctx, "cryptosign: result = hex(signature) followed by hex(signed message)", res[0][1][2][1], ref, procs[0].loc())
    cb = [t for c, t, st in ts.effects if t[0] == "call" and t[1] == ("g", "txaio.add_callbacks")]
    d1 = cb[0][2][0] if len(cb) == 1 and cb[0][2] else None   # what the continuation is attached to, whatever local holds it
    ctx.ob("cryptosign: the signer is applied to the formatted message", d1 == ("call", P(sc.params()[1]), (P(sc.params()[0]),), ()), f"signer input {show(d1)[:100] if d1 is not None else None}", sc.loc())
    ctx.ob("cryptosign: the signature continuation is attached to the signer's result", len(cb) == 1 and d1 is not None and d1[0] == "call", "add_callbacks target changed", sc.loc())
    # key.sign / sign_challenge / authenticator
    key = p.cls(f"{CS}.CryptosignKey")
    sg = key.methods["sign"]
    tg, rg = ret_term(ctx, sg, inline)
    ref = ("call", ("g", "txaio.create_future_success"), (ATTR(("m", ATTR(P("self"), "_key"), "sign", (P("data"),), ()), "signature"),), ())
    ctx.require(len(rg) == 1, "CryptosignKey.sign: single return expected")
    expect(ctx, "CryptosignKey.sign returns only the Ed25519 signature of the data (not signature+message)", rg[0].term, ref, sg.loc())
    ctx.ob("CryptosignKey.sign refuses non-bytes data and verify-only keys",
           sum(1 for o in tg.outcomes if o.kind == "raise") >= 2, "guards missing", sg.loc())
    sch = key.methods["sign_challenge"]
    ctx.analysed(sch)
    no_inline = lambda c, f: None
    t3 = TermEval(p, sch, inline=no_inline).run()
    r3 = [o for o in t3.outcomes if o.kind == "return"]
    fmtc = ("call", ("g", "_format_challenge"), (P("challenge"), P("channel_id"), P("channel_id_type")), ())
    ref = ("call", ("g", "_sign_challenge"), (fmtc, ATTR(P("self"), "sign")), ())
    ctx.require(len(r3) == 1, "sign_challenge: single return expected")
    expect(ctx, "sign_challenge = _sign_challenge(_format_challenge(challenge, channel_id, channel_id_type), self.sign)", r3[0].term, ref, sch.loc())
    ac = p.func(f"{AUTH}.AuthCryptoSign.on_challenge")
    t4 = TermEval(p, ac, inline=no_inline).run()
    r4 = [o for o in t4.outcomes if o.kind == "return"]
    cbind = ATTR(P("self"), "_channel_binding")
    cid = ("m", ATTR(ATTR(ATTR(P("session"), "_transport"), "transport_details"), "channel_id"), "get", (cbind, C(None)), ())
    ref = ("m", ATTR(P("self"), "_privkey"), "sign_challenge", (P("challenge"),), (("kw", "channel_id", cid), ("kw", "channel_id_type", cbind)))
    ctx.require(len(r4) == 1, "AuthCryptoSign.on_challenge: single return expected")
    expect(ctx, "AuthCryptoSign signs with the configured key, the transport's channel id of the configured binding type and that type", r4[0].term, ref, ac.loc())


# ------------------------------------------------------------------------------------------
def rule_gate(ctx):
    ctx.rule("C19.5-mutual-auth-gate")
    p = ctx.program
    om = get_onmessage(ctx)
    succ = [c for c in om.closures() if c.name == "success" and om.closure_arm(c)[0] == "Welcome" and c.parent is om.fn]
    errs = [c for c in om.closures() if c.name == "error" and om.closure_arm(c)[0] == "Welcome" and c.parent is om.fn]
    ctx.require(len(succ) == 1 and len(errs) == 1, "WELCOME arm: success/error continuations not found")
    s, e = succ[0], errs[0]
    g = CFG(s.node)
    mf = MustFacts(g, resolver=norm.Resolver(p, s.module, s.cls))
    param = s.params()[0]
    none_fact = ("is", param, ("c", None), True)
    sid = [n for n in g.stmt_nodes() if n.kind == "stmt" and isinstance(n.ast, ast.Assign) and any(is_self_attr(t, "_session_id") for t in n.ast.targets)]
    ctx.require(len(sid) >= 1, "WELCOME arm: session id store not found")
    for n in sid:
        ctx.ob("the session id is stored only when the authenticator's on_welcome returned None", none_fact in (mf.at(n) or ()),
               "session established although onWelcome returned a rejection", s.loc(n.ast))
    fires = [(n, c) for n in g.stmt_nodes() for c in node_calls(n) if self_call(c, "fire") or (call_name(c) == "txaio.as_future" and c.args and is_self_attr(c.args[0], "onJoin"))]
    for x in ast.walk(s.node):
        if isinstance(x, ast.Lambda):
            for c in ast.walk(x.body):
                if isinstance(c, ast.Call) and (self_call(c, "fire") or (call_name(c) == "txaio.as_future" and c.args and is_self_attr(c.args[0], "onJoin"))):
                    host = [n for n in g.stmt_nodes() if any(y is x for y in ast.walk(n.ast))] if True else []
                    for n in host:
                        fires.append((n, c))
    ctx.require(len(fires) >= 2, "WELCOME arm: join notification not found")
    for n, c in fires:
        ctx.ob(f"`{stmt_key(c)[:40]}` happens only when on_welcome returned None", none_fact in (mf.at(n) or ()), "join notified on the rejection path", s.loc(c))
    rej = [n for n in g.stmt_nodes() if ("is", param, ("c", None), False) in (mf.at(n) or ())]
    from .common import deep_calls
    dc = lambda n_: deep_calls(ctx, om.fn.cls, node_calls(n_))
    ab = [n for n in rej for c in dc(n) if call_name(c) == "message.Abort"]
    snd = [n for n in rej for c in dc(n) if norm.text(c.func) == "self._transport.send"]
    ctx.ob("a rejection by on_welcome is answered with ABORT", bool(ab) and bool(snd), "no ABORT on the rejection path", s.loc())
    ge = CFG(e.node)
    ok = any(call_name(c) == "message.Abort" for n in ge.stmt_nodes() for c in dc(n)) and \
        any(norm.text(c.func) == "self._transport.send" for n in ge.stmt_nodes() for c in dc(n)) and \
        not any(isinstance(x, ast.Assign) and any(is_self_attr(t, "_session_id") for t in x.targets) for x in ast.walk(e.node))
    ctx.ob("an exception in on_welcome (missing / undecodable signature) is answered with ABORT and no session", ok, "error continuation does not abort", e.loc())
    # the hook's verdict is the continuation's input
    cbs = [c for n in om.arm_nodes("Welcome") for c in node_calls(n) if call_name(c) == "txaio.add_callbacks"]
    ok = any([norm.text(a) for a in c.args[1:]] == ["success", "error"] for c in cbs)
    src = [n for n in om.arm_nodes("Welcome") if n.kind == "stmt" and isinstance(n.ast, ast.Assign) and isinstance(n.ast.value, ast.Call)
           and call_name(n.ast.value) == "txaio.as_future" and n.ast.value.args and is_self_attr(n.ast.value.args[0], "onWelcome")]
    ctx.ob("the WELCOME arm continues with the result of self.onWelcome(msg)", ok and len(src) == 1 and norm.text(src[0].ast.value.args[1]) == "msg"
           and any(norm.text(c.args[0]) == norm.text(src[0].ast.targets[0]) for c in cbs), "continuations are not attached to the onWelcome future", om.fn.loc())
    # shim
    shim = None
    for c in p.all_classes():
        if c.module.name == "autobahn.wamp.protocol" and "onWelcome" in c.methods and c.qualname != APPSESSION and "on_welcome" in ast.unparse(c.methods["onWelcome"].node):
            shim = c.methods["onWelcome"]
    ctx.require(shim is not None, "_SessionShim.onWelcome not found")
    ctx.analysed(shim)
    # cell-wise over (configured authenticators) x (authmethod named by the WELCOME)
    from ..core.tiny import Tiny, Sym, TinyRaise
    seen = []

    def mk(name):
        def on_welcome(*a):
            seen.append((name, a))
            return Sym(f"verdict-of-{name}")
        return Sym(f"{name}-authenticator", methods={"on_welcome": on_welcome})
    cells = {}
    try:
        for names in ((), ("scram",), ("anonymous",), ("anonymous", "scram")):
            for am in (None, "scram", "anonymous", "ticket"):
                auths = {n: mk(n) for n in names} if names else None
                sess, extra = Sym("session"), Sym("authextra")
                env = {"self": sess, shim.params()[1]: Sym("welcome", authmethod=am, authextra=extra), "self._authenticators": auths}
                del seen[:]
                t = Tiny(env, default_call=lambda f_, a_, k_=None: Sym(f"<{f_}>"))
                try:
                    r = t.run([x for x in shim.node.body if not (isinstance(x, ast.Expr) and isinstance(x.value, ast.Constant))])
                except TinyRaise as ex:
                    r = ("raise", str(ex))
                who = seen[-1][0] if seen else None
                args_ok = bool(seen) and len(seen[-1][1]) == 2 and seen[-1][1][0] is sess and seen[-1][1][1] is extra
                if r[0] == "raise":
                    cells[(names, am)] = ("raise",)
                elif r[0] in ("return", "fall") and (r[0] == "fall" or r[1] is None):
                    cells[(names, am)] = ("accept-without-verdict",)
                elif r[0] == "return" and isinstance(r[1], Sym) and who and repr(r[1]) == repr(Sym(f"verdict-of-{who}")):
                    cells[(names, am)] = ("verdict", who, args_ok)
                else:
                    cells[(names, am)] = ("other", repr(r))
    except AnalysisError as ex:
        raise AnalysisError(f"[C19.5-mutual-auth-gate] _SessionShim.onWelcome outside the modelled subset: {ex}")
    bad = [f"authenticators {list(n)}, WELCOME authmethod {am!r}: {c}" for (n, am), c in cells.items() if n and am in n and c != ("verdict", am, True)]
    ctx.ob("the session returns the verdict of the authenticator selected by the WELCOME's authmethod, given (session, authextra) [5 cells]", not bad, "; ".join(bad[:2]), shim.loc())
    bad = [f"authenticators {list(n)}, WELCOME authmethod {am!r}: {c}" for (n, am), c in cells.items() if n and am is not None and am not in n and c != ("raise",)]
    ctx.ob("a WELCOME naming an authmethod the client did not configure raises (and is aborted) [7 cells]", not bad, "; ".join(bad[:2]), shim.loc())
    bad = [f"WELCOME authmethod {am!r}: {c}" for (n, am), c in cells.items() if not n and c != ("accept-without-verdict",)]
    ctx.ob("a session without authenticators needs no verdict [4 cells]", not bad, "; ".join(bad[:2]), shim.loc())
    c = cells[(("scram",), None)]
    ctx.ob("a session whose only authenticator is WAMP-SCRAM does not accept a WELCOME that names no authmethod (it carries no server signature)",
           c == ("raise",) or (c[0] == "verdict"), "WELCOME without authmethod is accepted without any authenticator's verdict: a router (or a man in the middle) "
           "that skips CHALLENGE and omits `authmethod` is joined although 'anonymous' was not offered", shim.loc())


def rule_siblings(ctx):
    """autobahn.twisted.wamp carries its own AuthWampCra / AuthCryptoSign (public classes of that module).  They answer the same challenges
    and must compute the same values as the authenticators in autobahn.wamp.auth: same reference terms."""
    ctx.rule("C19.6-sibling-authenticators")
    p = ctx.program
    TW = "autobahn.twisted.wamp"
    mod = p.module(TW)
    inline = make_inline(ctx, {AUTH})
    n = 0
    cra = mod.classes.get("AuthWampCra")
    if cra is not None and "on_challenge" in cra.methods:
        oc = cra.methods["on_challenge"]
        ctx.analysed(oc)
        te, rets = ret_term(ctx, oc, inline)
        ctx.require(len(rets) == 1, f"{TW}.AuthWampCra.on_challenge: single return expected")
        extra = ATTR(P("challenge"), "extra")
        secret = ("enc", "utf8", ATTR(P("self"), "_secret"))
        derived = ("b64e", ("pbkdf2", "sha256", secret, ("tobytes", IDX(extra, "salt")), IDX(extra, "iterations"), IDX(extra, "keylen")))
        key = ("phi", ("cmp", "in", C("salt"), extra), derived, secret)
        ref = ("dec", "ascii", ("b64e", HMAC("sha256", key, ("enc", "utf8", IDX(extra, "challenge")))))
        expect(ctx, f"{TW}.AuthWampCra: WAMP-CRA signature = base64(HMAC-SHA256(key, challenge)), key as in autobahn.wamp.auth", rets[0].term, ref, oc.loc())
        n += 1
    cs = mod.classes.get("AuthCryptoSign")
    if cs is not None and "on_challenge" in cs.methods:
        ac = cs.methods["on_challenge"]
        ctx.analysed(ac)
        t4 = TermEval(p, ac, inline=lambda c, f: None).run()
        r4 = [o for o in t4.outcomes if o.kind == "return"]
        ctx.require(len(r4) == 1, f"{TW}.AuthCryptoSign.on_challenge: single return expected")
        got = canon(r4[0].term)
        kws = {k[1]: k[2] for k in got[4]} if got[0] == "m" and len(got) > 4 else {}
        T = kws.get("channel_id_type")
        cid = ("m", ATTR(ATTR(ATTR(P("session"), "_transport"), "transport_details"), "channel_id"), "get", (T, C(None)), ())
        ref = ("m", ATTR(P("self"), "_privkey"), "sign_challenge", (P("challenge"),), (("kw", "channel_id", cid), ("kw", "channel_id_type", T)))
        expect(ctx, f"{TW}.AuthCryptoSign signs with its key, the channel id of the session's transport for the configured binding type, and that type",
               got, ref, ac.loc())
        n += 1
    ctx.require(n == 2 or not (cra or cs), "sibling authenticators of autobahn.twisted.wamp not found")


def run(ctx):
    rule_siblings(ctx)
    rule_scram(ctx)
    rule_cra(ctx)
    rule_totp(ctx)
    rule_cryptosign(ctx)
    rule_gate(ctx)
    ctx.floor("C19.1-scram-formulas", 10)
    ctx.floor("C19.2-wampcra-formulas", 5)
    ctx.floor("C19.3-totp-formula", 2)
    ctx.floor("C19.4-cryptosign-formula", 10)
    ctx.floor("C19.5-mutual-auth-gate", 10)
